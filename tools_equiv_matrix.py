#!/venv/bin/python
"""Runs every check against behaviour-preserving refactorings (each applied to
its own scratch worktree of /repo; nothing is built - the checks are static).
Every check must exit 0: exit 1 is a false alarm, exit 2 a fragile extractor.
Usage: tools_equiv_matrix.py --from <dir> <out.json> [name ...]"""
import json, os, subprocess, sys, shutil, tempfile
from concurrent.futures import ThreadPoolExecutor

VERIF = os.path.dirname(os.path.abspath(__file__))
PROPS = os.environ.get("EQ_PROPS", "").split() or ["C%02d" % i for i in range(1, 20)]


SEEDROOT = os.path.join(VERIF, "seeded")


def run_seed(seed):
    d = os.path.join(SEEDROOT, seed)
    tag = seed.replace("/", "")
    wt = tempfile.mkdtemp(prefix="vw-%s-" % tag, dir="/tmp")
    os.rmdir(wt)
    out = {"seed": seed, "applies": False, "detected_by": {}, "errors": {}}
    try:
        subprocess.check_call(["git", "-C", "/repo", "worktree", "add", "-f", wt, "HEAD"],
                              stdout=subprocess.DEVNULL, stderr=subprocess.DEVNULL)
        p = subprocess.run(["git", "-C", wt, "apply", os.path.join(d, "patch.diff")],
                           capture_output=True, text=True)
        if p.returncode != 0:
            p = subprocess.run(["git", "-C", wt, "apply", "-3", os.path.join(d, "patch.diff")],
                               capture_output=True, text=True)
            if p.returncode != 0:
                out["apply_error"] = p.stderr[-300:]
                return out
        out["applies"] = True
        touched_c = any(l.startswith("+++ b/") and l.strip().endswith((".c", ".h"))
                        for l in open(os.path.join(d, "patch.diff")))
        env = dict(os.environ, VERIF_REPO=wt, VERIF_NO_EVIDENCE="1")
        cache = None
        if touched_c:
            cache = "/dev/shm/vcache-%s" % tag
            env["VERIF_CACHE"] = cache
        for prop in PROPS:
            q = subprocess.run(["/venv/bin/python", "-m", "sa.main", prop, "--tier", "quick"],
                               cwd=VERIF, env=env, capture_output=True, text=True)
            if q.returncode == 1:
                rules = sorted(set(l.split("rule=")[1].split()[0] for l in q.stdout.splitlines()
                                   if l.strip().startswith("rule=")))
                out["detected_by"][prop] = rules
            elif q.returncode != 0:
                out["errors"][prop] = q.stdout.strip().splitlines()[-1][:300] if q.stdout.strip() else "exit %d" % q.returncode
    finally:
        if os.path.isdir("/dev/shm/vcache-%s" % tag):
            shutil.rmtree("/dev/shm/vcache-%s" % tag, ignore_errors=True)
        subprocess.call(["git", "-C", "/repo", "worktree", "remove", "--force", wt],
                        stdout=subprocess.DEVNULL, stderr=subprocess.DEVNULL)
        shutil.rmtree(wt, ignore_errors=True)
    return out


def main():
    global SEEDROOT
    args = sys.argv[1:]
    external = None
    if args[:1] == ["--from"]:       # triage of not yet imported seeds: --from <dir> <matrix.json> C07/c ...
        SEEDROOT, external = args[1], args[2]
        args = args[3:]
    seeds = args or sorted(os.listdir(SEEDROOT))
    seeds = [s for s in seeds if os.path.isdir(os.path.join(SEEDROOT, s))]
    results = {}
    with ThreadPoolExecutor(max_workers=int(os.environ.get("EQ_WORKERS", "0")) or (8 if external else 3)) as ex:
        for r in ex.map(run_seed, seeds):
            results[r["seed"]] = r
            own = r["seed"][:3]
            print(r["seed"], "applies" if r["applies"] else "NO-APPLY",
                  "alarms=%s" % sorted(r["detected_by"]),
                  r["detected_by"], r["errors"] or "", flush=True)
    path = external or os.path.join(VERIF, "seeded", "MATRIX.json")
    old = {}
    if os.path.exists(path):
        old = json.load(open(path))
    old.update(results)
    json.dump(old, open(path, "w"), indent=1, sort_keys=True)
    if external:
        return
    for s, r in results.items():
        mp = os.path.join(VERIF, "seeded", s, "meta.json")
        m = json.load(open(mp))
        m["detected_by"] = r["detected_by"]
        m["applies_to_current_repo"] = r["applies"]
        json.dump(m, open(mp, "w"), indent=1)


if __name__ == "__main__":
    main()
