#!/bin/bash
# usage: tools_at_commit.sh <repo-commit> <command ...>
# Runs a command with VERIF_REPO pointing at a scratch export of that commit of
# /repo (static checks only: nothing is built).  Used to confirm that a rule
# reports the defect a later "fix:" commit repaired.
set -e
c=$1; shift
root=/dev/shm/atcommit-$c
rm -rf $root $root-cache; mkdir -p $root
git -C /repo archive $c src include setup.py | tar -x -C $root
set +e
VERIF_REPO=$root VERIF_CACHE=$root-cache VERIF_NO_EVIDENCE=1 "$@"
rc=$?
rm -rf $root $root-cache
exit $rc
