"""Differential demo for BTrees.check: crack_btree, crack_bucket,
Walker.walk (range propagation) and Checker.check_sorted.

For the C and the pure-Python containers of several families (BTree,
TreeSet, Bucket, Set):

1. Natural trees grown through the public API (random inserts / deletes
   mirrored in a dict/set model) must be accepted by check() and _check().

2. Valid trees of arbitrary shape (depth 1..4, fan-out 1..4, leaves of 1..4
   keys -- the registered classes have large nodes, so small shapes are made
   with __setstate__ from a description) must be accepted as well.

3. Each tree is rebuilt once per single *value* corruption (swapped /
   duplicated keys in a leaf, a leaf key pushed below the lower or to the
   upper separator, separators swapped / duplicated / moved out of the range
   inherited from above) and check() must raise AssertionError whose text
   (addresses masked) equals the text computed by an independent model that
   propagates the ranges over the description.

4. A recording Walker subclass must see exactly the visit_btree /
   visit_bucket calls (order, path, parent, is_mapping, keys, values or
   kids, lo, hi -- including the container types list / tuple) that the
   model predicts; crack_btree / crack_bucket results are compared directly.

5. Error paths: unregistered subclass (KeyError from classify), keys that
   cannot be compared (TypeError out of compare) at the same point as in the
   model, empty trees, single-bucket trees (synthesised bucket), buckets and
   sets passed directly to check().

Exit status 0 when everything is as specified.
"""
import copy
import random
import re
import sys
import time

import BTrees.check as bcheck
from BTrees import (
    OOBTree, IIBTree, IOBTree, OIBTree, LLBTree, LFBTree, LOBTree,
    UUBTree, QQBTree, IFBTree, QOBTree, OUBTree, fsBTree,
)

T0 = time.time()
SEED = 1803
RNG = random.Random(SEED)
COUNTS = {'natural': 0, 'shapes': 0, 'corrupt': 0, 'walks': 0,
          'typeerrors': 0}
KINDS = {}


def fail(msg):
    print("DEMO FAILURE:", msg)
    sys.exit(1)


def expect(cond, msg):
    if not cond:
        fail(msg)


# --------------------------------------------------------------------------
# families: (module, prefix, key domain, value maker)

def int_keys(lo, hi):
    def make(rng, count):
        chosen = set()
        while len(chosen) < count:
            chosen.add(rng.randrange(lo, hi))
        return sorted(chosen)
    return make


def str_keys(rng, count):
    pool = ['k%04d' % i for i in range(3000)]
    return sorted(rng.sample(pool, count))


def fs_keys(rng, count):
    pool = [bytes([a, b]) for a in range(97, 123) for b in range(97, 123)]
    return sorted(rng.sample(pool, count))


def val_obj(rng):
    return rng.choice([None, 'v', 3, (1,)])


def val_int(rng):
    return rng.randrange(-50, 50)


def val_uint(rng):
    return rng.randrange(0, 50)


def val_float(rng):
    return rng.randrange(-20, 20) / 4.0


def val_fs(rng):
    return bytes(rng.randrange(97, 123) for _ in range(6))


FAMILIES = [
    (OOBTree, 'OO', int_keys(-5000, 5000), val_obj, 'int'),
    (OOBTree, 'OO', str_keys, val_obj, 'str'),
    (IIBTree, 'II', int_keys(-5000, 5000), val_int, 'int'),
    (IOBTree, 'IO', int_keys(-2 ** 31, 2 ** 31 - 1), val_obj, 'int'),
    (OIBTree, 'OI', int_keys(-5000, 5000), val_int, 'int'),
    (LLBTree, 'LL', int_keys(-2 ** 62, 2 ** 62), val_int, 'int'),
    (LFBTree, 'LF', int_keys(-5000, 5000), val_float, 'int'),
    (LOBTree, 'LO', int_keys(-5000, 5000), val_obj, 'int'),
    (UUBTree, 'UU', int_keys(0, 9000), val_uint, 'int'),
    (QQBTree, 'QQ', int_keys(0, 2 ** 63), val_uint, 'int'),
    (IFBTree, 'IF', int_keys(-5000, 5000), val_float, 'int'),
    (QOBTree, 'QO', int_keys(0, 9000), val_obj, 'int'),
    (OUBTree, 'OU', str_keys, val_uint, 'str'),
    (fsBTree, 'fs', fs_keys, val_fs, 'fs'),
]


# --------------------------------------------------------------------------
# description graph (same conventions as the states of the containers)

class N:
    def __init__(self, kind, cls, mapping):
        self.kind = kind            # 'T' or 'B'
        self.cls = cls
        self.mapping = mapping
        self.kids = []
        self.keys = []              # separators
        self.firstbucket = None
        self.items = ()             # flat state tuple of a leaf
        self.next = None

    def leaf_keys(self):
        return self.items[0::2] if self.mapping else self.items

    def set_leaf_keys(self, keys):
        if self.mapping:
            vals = self.items[1::2]
            flat = []
            for k, v in zip(keys, vals):
                flat.append(k)
                flat.append(v)
            self.items = tuple(flat)
        else:
            self.items = tuple(keys)


def describe(tree, mapping):
    memo = {}
    keep = []
    tree_cls = type(tree)
    bucket_cls = tree_cls._bucket_type
    st = tree.__getstate__()
    if st is not None and len(st) == 2:
        b = st[1]
        num = 0
        while b is not None:
            b._p_oid = b'L%07d' % num     # so that states name the leaves
            num += 1
            bst = b.__getstate__()
            b = bst[1] if len(bst) == 2 else None

    def walk(obj):
        if obj is None:
            return None
        if id(obj) in memo:
            return memo[id(obj)]
        keep.append(obj)
        if type(obj) is tree_cls:
            n = N('T', tree_cls, mapping)
            memo[id(obj)] = n
            st = obj.__getstate__()
            if st is None:
                return n
            if len(st) == 1:
                b = N('B', bucket_cls, mapping)
                b.items = st[0][0][0]
                expect(len(st[0][0]) == 1, "embedded bucket has a next")
                n.kids = [b]
                n.firstbucket = b
                return n
            data, fb = st
            n.kids = [walk(c) for c in data[0::2]]
            n.keys = list(data[1::2])
            n.firstbucket = walk(fb)
            return n
        expect(type(obj) is bucket_cls, "unexpected node %r" % (obj,))
        n = N('B', bucket_cls, mapping)
        memo[id(obj)] = n
        st = obj.__getstate__()
        n.items = st[0]
        if len(st) == 2:
            n.next = walk(st[1])
        return n

    return walk(tree)


def all_nodes(root):
    seen, ids, stack = [], set(), [root]
    while stack:
        n = stack.pop()
        if n is None or id(n) in ids:
            continue
        ids.add(id(n))
        seen.append(n)
        if n.kind == 'T':
            stack.append(n.firstbucket)
            stack.extend(reversed(n.kids))
        else:
            stack.append(n.next)
    return seen


def node_state(n, real):
    if n.kind == 'B':
        if n.next is None:
            return (tuple(n.items),)
        return (tuple(n.items), real[id(n.next)])
    if not n.kids:
        return None
    data = [real[id(n.kids[0])]]
    for k, c in zip(n.keys, n.kids[1:]):
        data.append(k)
        data.append(real[id(c)])
    return (tuple(data), real[id(n.firstbucket)])


def build(root):
    nodes = all_nodes(root)
    real = {}
    for n in nodes:
        real[id(n)] = n.cls()
    for n in nodes:
        real[id(n)].__setstate__(node_state(n, real))
    back = {id(real[id(n)]): n for n in nodes}
    return real[id(root)], nodes, real, back


def leaves(root):
    out = []
    b = root.firstbucket if root.kind == 'T' else root
    while b is not None:
        out.append(b)
        b = b.next
    return out


def tree_nodes(root):
    out = []

    def rec(n):
        if n.kind == 'T':
            out.append(n)
            for c in n.kids:
                rec(c)
    rec(root)
    return out


def make_shape(tree_cls, mapping, keymaker, valmaker, rng, depth):
    """A valid tree of the given depth with random small fan-outs."""
    bucket_cls = tree_cls._bucket_type
    nleaves = 1
    for _ in range(depth - 1):
        nleaves *= rng.choice([1, 2, 3])
    nleaves = max(nleaves, 1) + (rng.randrange(3) if depth > 1 else 0)
    sizes = [rng.randrange(1, 5) for _ in range(nleaves)]
    # leave gaps between leaves so that separators can float
    keys = keymaker(rng, sum(sizes) + nleaves)
    level = []
    pos = 0
    for sz in sizes:
        pos += 1            # skipped key: the gap
        ks = keys[pos:pos + sz]
        gap = keys[pos - 1]
        pos += sz
        b = N('B', bucket_cls, mapping)
        if mapping:
            flat = []
            for k in ks:
                flat += [k, valmaker(rng)]
            b.items = tuple(flat)
        else:
            b.items = tuple(ks)
        # (node, smallest admissible separator choices, first leaf)
        level.append((b, [gap, ks[0]], b))
    for i in range(len(level) - 1):
        level[i][0].next = level[i + 1][0]
    for d in range(depth - 1):
        nxt = []
        i = 0
        while i < len(level):
            if d == depth - 2:
                fan = len(level) - i        # the root takes all
            else:
                fan = rng.randrange(1, 5)
            group = level[i:i + fan]
            i += fan
            t = N('T', tree_cls, mapping)
            t.kids = [g[0] for g in group]
            t.keys = [rng.choice(g[1]) for g in group[1:]]
            t.firstbucket = group[0][2]
            nxt.append((t, group[0][1], group[0][2]))
        level = nxt
    if depth == 1:
        t = N('T', tree_cls, mapping)
        t.kids = [level[0][0]]
        t.firstbucket = level[0][0]
        return t
    expect(len(level) == 1, "shape construction")
    return level[0][0]


# --------------------------------------------------------------------------
# independent model of the value checker

def cmp(x, y):
    if x is None:
        return 0 if y is None else -1
    if y is None:
        return 1
    return (x > y) - (y > x)


ADDR = re.compile(r'\(0x[0-9a-f]+ oid=[^)]*\)')


def mask(text):
    return ADDR.sub('(ADDR)', text)


def is_embedded(n):
    # a tree whose only child is a leaf (without oid) embeds the leaf's state
    return (n.kind == 'T' and len(n.kids) == 1 and n.kids[0].kind == 'B')


def model_visits(root):
    """Pre-order list of the visits Walker.walk must make."""
    out = []

    def leaf_visit(n, ident, path, parent, lo, hi):
        if n.mapping:
            keys = ('list', list(n.items[0::2]))
            values = ('list', list(n.items[1::2]))
        else:
            keys = ('tuple', list(n.items))
            values = ('list', [])
        out.append(('B', ident, n.cls.__name__, path, parent, n.mapping,
                    keys, values, lo, hi))

    def rec(n, path, parent, lo, hi):
        if n.kind == 'B':
            leaf_visit(n, id(n), path, parent, lo, hi)
            return
        if not n.kids:
            out.append(('T', id(n), n.cls.__name__, path, parent, n.mapping,
                        ('list', []), ('list', []), lo, hi))
            return
        if is_embedded(n):
            out.append(('T', id(n), n.cls.__name__, path, parent, n.mapping,
                        ('list', []), ('list', ['SYNTH']), lo, hi))
            leaf_visit(n.kids[0], 'SYNTH', path + (0,), id(n), lo, hi)
            return
        out.append(('T', id(n), n.cls.__name__, path, parent, n.mapping,
                    ('list', list(n.keys)),
                    ('list', [id(k) for k in n.kids]), lo, hi))
        last = len(n.kids) - 1
        for i, kid in enumerate(n.kids):
            klo = lo if i == 0 else n.keys[i - 1]
            khi = hi if i == last else n.keys[i]
            rec(kid, path + (i,), id(n), klo, khi)

    rec(root, (), None, None, None)
    return out


def model_check(root):
    """None if the tree is fine, else the masked AssertionError text.
    May raise TypeError when keys cannot be compared."""
    errors = []
    for v in model_visits(root):
        kind, ident, clsname, path, parent, mapping, keys, other, lo, hi = v
        keys = keys[1]
        where = "%s (ADDR), path from root %s" % (
            clsname, ".".join(str(p) for p in path))
        for i, x in enumerate(keys):
            if lo is not None and cmp(lo, x) > 0:
                errors.append("key %r < lower bound %r at index %d, in %s"
                              % (x, lo, i, where))
            if hi is not None and cmp(x, hi) >= 0:
                errors.append("key %r >= upper bound %r at index %d, in %s"
                              % (x, hi, i, where))
            if i + 1 < len(keys) and cmp(x, keys[i + 1]) >= 0:
                errors.append("key %r at index %d >= key %r at index %d, "
                              "in %s" % (x, i, keys[i + 1], i + 1, where))
    if not errors:
        return None
    head = "Errors found in %s (ADDR):" % root.cls.__name__
    return "\n".join([head] + errors)


class Recorder(bcheck.Walker):
    def __init__(self, obj, back):
        bcheck.Walker.__init__(self, obj)
        self.back = back
        self.out = []

    def ident(self, obj):
        if obj is None:
            return None
        n = self.back.get(id(obj))
        return id(n) if n is not None else 'SYNTH'

    def visit_btree(self, obj, path, parent, is_mapping, keys, kids, lo, hi):
        expect(type(path) is list, "path is not a list")
        self.out.append(('T', self.ident(obj), type(obj).__name__,
                         tuple(path), self.ident(parent), is_mapping,
                         (type(keys).__name__, list(keys)),
                         (type(kids).__name__,
                          [self.ident(k) for k in kids]), lo, hi))

    def visit_bucket(self, obj, path, parent, is_mapping, keys, values,
                     lo, hi):
        expect(type(path) is list, "path is not a list")
        self.out.append(('B', self.ident(obj), type(obj).__name__,
                         tuple(path), self.ident(parent), is_mapping,
                         (type(keys).__name__, list(keys)),
                         (type(values).__name__, list(values)), lo, hi))


def real_check(t):
    try:
        r = bcheck.check(t)
    except AssertionError as e:
        return mask(e.args[0])
    expect(r is None, "check() returned %r" % (r,))
    return None


def compare(label, root, must_detect=None):
    t, nodes, real, back = build(root)
    # Walker
    rec = Recorder(t, back)
    rec.walk()
    want_visits = model_visits(root)
    if rec.out != want_visits:
        for a, b in zip(rec.out, want_visits):
            if a != b:
                print("got ", a)
                print("want", b)
                break
        fail("%s: walk differs from the model (%d vs %d visits)"
             % (label, len(rec.out), len(want_visits)))
    COUNTS['walks'] += 1
    # crack_* directly
    for n in nodes:
        obj = real[id(n)]
        if n.kind == 'B':
            got = bcheck.crack_bucket(obj, n.mapping)
            if n.mapping:
                want = (list(n.items[0::2]), list(n.items[1::2]))
            else:
                want = (tuple(n.items), [])
            expect(got == want and type(got) is tuple
                   and type(got[0]) is type(want[0])
                   and type(got[1]) is list,
                   "%s: crack_bucket gave %r" % (label, got))
        else:
            got = bcheck.crack_btree(obj, n.mapping)
            expect(type(got) is tuple and len(got) == 3,
                   "%s: crack_btree gave %r" % (label, got))
            if not n.kids:
                expect(got == (bcheck.BTREE_EMPTY, [], []),
                       "%s: crack_btree(empty) gave %r" % (label, got))
            elif is_embedded(n):
                st = node_state(n.kids[0], real)
                expect(got == (bcheck.BTREE_ONE, st, None),
                       "%s: crack_btree(one) gave %r" % (label, got))
            else:
                want = (bcheck.BTREE_NORMAL, list(n.keys),
                        [real[id(k)] for k in n.kids])
                expect(got[0] is want[0] and got[1] == want[1]
                       and type(got[1]) is list and type(got[2]) is list
                       and len(got[2]) == len(want[2])
                       and all(a is b for a, b in zip(got[2], want[2])),
                       "%s: crack_btree gave %r" % (label, got))
    # Checker
    try:
        want = model_check(root)
    except TypeError:
        want = TypeError
    try:
        got = real_check(t)
    except TypeError:
        got = TypeError
    if got != want:
        print("got :", got)
        print("want:", want)
        fail("%s: check() differs from the model" % label)
    if want is TypeError:
        COUNTS['typeerrors'] += 1
    if must_detect is True:
        expect(want is not None, "%s: corruption not detected" % label)
    if must_detect is False:
        expect(want is None, "%s: valid tree rejected:\n%s" % (label, want))
        if root.kind == 'T':
            expect(t._check() is None, "%s: _check() rejects" % label)
    return want


# --------------------------------------------------------------------------
# value corruptions

def bounds_of(root):
    """id(node) -> (lo, hi) as propagated from the root."""
    out = {}

    def rec(n, lo, hi):
        out[id(n)] = (lo, hi)
        if n.kind == 'T':
            last = len(n.kids) - 1
            for i, kid in enumerate(n.kids):
                rec(kid, lo if i == 0 else n.keys[i - 1],
                    hi if i == last else n.keys[i])
    rec(root, None, None)
    return out


def below(x, flavour):
    if flavour == 'int':
        return x - 1
    if flavour == 'str':
        return x[:-1] if len(x) > 1 else ''
    return bytes([x[0], x[1] - 1]) if x[1] > 0 else bytes([x[0] - 1, 255])


def value_corruptions(root, flavour, rng):
    """-> list of (kind, thunk); thunk() builds the corrupted deep copy."""
    nodes = all_nodes(root)
    index = {id(n): i for i, n in enumerate(nodes)}
    out = []

    def add(kind, n, edit):
        def thunk():
            r = copy.deepcopy(root)
            edit(all_nodes(r)[index[id(n)]])
            return r
        out.append((kind, thunk))

    def set_keys(new_keys):
        return lambda m: m.set_leaf_keys(new_keys)

    def set_sep(j, value, j2=None, value2=None):
        def edit(m):
            m.keys[j] = value
            if j2 is not None:
                m.keys[j2] = value2
        return edit

    bounds = bounds_of(root)
    for n in nodes:
        lo, hi = bounds.get(id(n), (None, None))
        if n.kind == 'B':
            ks = list(n.leaf_keys())
            for j in range(len(ks) - 1):
                k2 = list(ks)
                k2[j], k2[j + 1] = k2[j + 1], k2[j]
                add('leaf-swap', n, set_keys(k2))
                k2 = list(ks)
                k2[j + 1] = k2[j]
                add('leaf-duplicate', n, set_keys(k2))
            if lo is not None:
                k2 = list(ks)
                k2[0] = below(lo, flavour)
                add('leaf-first-below-lo', n, set_keys(k2))
            if hi is not None:
                for pos in sorted({len(ks) - 1, rng.randrange(len(ks))}):
                    k2 = list(ks)
                    k2[pos] = hi
                    add('leaf-key-to-hi', n, set_keys(k2))
        elif len(n.kids) > 1:
            seps = list(n.keys)
            for j in range(len(seps)):
                if j + 1 < len(seps):
                    add('sep-swap', n,
                        set_sep(j, seps[j + 1], j + 1, seps[j]))
                    add('sep-duplicate', n, set_sep(j + 1, seps[j]))
                # move the separator beyond the keys of a neighbour
                add('sep-down-to-left-max', n,
                    set_sep(j, last_key(n.kids[j])))
                add('sep-up-past-right-min', n,
                    set_sep(j, above_first(n.kids[j + 1])))
                if lo is not None:
                    add('sep-below-lo', n, set_sep(j, below(lo, flavour)))
                if hi is not None:
                    add('sep-to-hi', n, set_sep(j, hi))
    return out


def first_leaf(n):
    while n.kind == 'T':
        n = n.kids[0]
    return n


def last_leaf(n):
    while n.kind == 'T':
        n = n.kids[-1]
    return n


def first_key(n):
    return first_leaf(n).leaf_keys()[0]


def last_key(n):
    return last_leaf(n).leaf_keys()[-1]


def above_first(n):
    """A separator strictly greater than the smallest key below n."""
    ks = first_leaf(n).leaf_keys()
    k = ks[0]
    if isinstance(k, int):
        return k + 1
    if isinstance(k, str):
        return k + '!'
    return bytes([k[0], k[1] + 1]) if k[1] < 255 else bytes([k[0] + 1, 0])


# --------------------------------------------------------------------------

def natural(tree_cls, mapping, keymaker, valmaker, rng, count):
    t = tree_cls()
    model = {}
    pool = keymaker(rng, count)
    rng.shuffle(pool)
    for step, k in enumerate(pool):
        if mapping:
            v = valmaker(rng)
            t[k] = v
            model[k] = v
        else:
            t.add(k)
            model[k] = None
        if step % 3 == 2 and rng.random() < .5:
            victim = rng.choice(sorted(model))
            if mapping:
                del t[victim]
            else:
                t.remove(victim)
            del model[victim]
    got = list(t.items()) if mapping else list(t.keys())
    want = sorted(model.items()) if mapping else sorted(model)
    expect(got == want, "natural tree differs from the model")
    expect(bcheck.check(t) is None and t._check() is None,
           "natural tree rejected")
    COUNTS['natural'] += 1
    return t


def exercise(module, prefix, keymaker, valmaker, flavour, suffix, mapping,
             rng):
    tree_cls = getattr(module, prefix + ('BTree' if mapping else 'TreeSet')
                       + suffix)
    leaf_cls = getattr(module, prefix + ('Bucket' if mapping else 'Set')
                       + suffix)
    expect(tree_cls._bucket_type is leaf_cls, "unexpected _bucket_type")

    # 1. natural trees, also described / rebuilt / corrupted
    size = 700 if fs_keys is not keymaker else 500
    t = natural(tree_cls, mapping, keymaker, valmaker, rng, size)
    root = describe(t, mapping)
    expect(len(leaves(root)) >= 1, "natural tree too small")
    compare('%s natural copy' % tree_cls.__name__, root, must_detect=False)
    picked = value_corruptions(root, flavour, rng)
    rng.shuffle(picked)
    for kind, thunk in picked[:25]:
        compare('%s natural %s' % (tree_cls.__name__, kind), thunk(),
                must_detect=True)
        KINDS[kind] = KINDS.get(kind, 0) + 1
        COUNTS['corrupt'] += 1

    # 2. empty tree, unregistered subclass, leaves passed directly
    expect(bcheck.check(tree_cls()) is None, "empty tree rejected")
    compare('empty', N('T', tree_cls, mapping), must_detect=False)

    class Sub(tree_cls):
        pass
    try:
        bcheck.check(Sub())
    except KeyError:
        pass
    else:
        fail("check() of an unregistered subclass did not raise KeyError")
    some = keymaker(rng, 6)
    b = N('B', leaf_cls, mapping)
    b.items = tuple(x for k in some for x in (k, valmaker(rng))) \
        if mapping else tuple(some)
    compare('bare leaf', b, must_detect=False)
    b2 = copy.deepcopy(b)
    ks = list(b2.leaf_keys())
    ks[2], ks[4] = ks[4], ks[2]
    b2.set_leaf_keys(ks)
    compare('bare leaf unsorted', b2, must_detect=True)

    # 3. made-up valid shapes and all their single value corruptions
    for depth in (1, 2, 2, 3, 3, 4):
        root = make_shape(tree_cls, mapping, keymaker, valmaker, rng, depth)
        label = '%s depth %d' % (tree_cls.__name__, depth)
        compare(label, root, must_detect=False)
        COUNTS['shapes'] += 1
        for kind, thunk in value_corruptions(root, flavour, rng):
            compare('%s %s' % (label, kind), thunk(), must_detect=True)
            KINDS[kind] = KINDS.get(kind, 0) + 1
            COUNTS['corrupt'] += 1

    # 4. keys that cannot be compared (object keys only)
    if prefix[0] == 'O' and flavour == 'int':
        while True:
            root = make_shape(tree_cls, mapping, keymaker, valmaker, rng, 3)
            lv = leaves(root)
            if len(lv) >= 3:
                break
        for target in (lv[0], lv[len(lv) // 2], lv[-1]):
            r = copy.deepcopy(root)
            idx = lv.index(target)
            m = leaves(r)[idx]
            ks = list(m.leaf_keys())
            ks[-1] = 'text'
            m.set_leaf_keys(ks)
            got = compare('%s incomparable' % tree_cls.__name__, r)
            expect(got is TypeError, "incomparable keys: %r" % (got,))
        tn = [n for n in tree_nodes(root) if n.keys]
        r = copy.deepcopy(root)
        m = [n for n in tree_nodes(r) if n.keys][-1]
        m.keys[0] = 'text'
        got = compare('%s incomparable separator' % tree_cls.__name__, r)
        expect(got is TypeError, "incomparable separator: %r" % (got,))
        expect(tn, "no separators")


def main():
    for module, prefix, keymaker, valmaker, flavour in FAMILIES:
        for suffix in ('', 'Py'):
            for mapping in (True, False):
                exercise(module, prefix, keymaker, valmaker, flavour,
                         suffix, mapping, RNG)
    print("seed=%d" % SEED)
    print("counts:", COUNTS)
    for k in sorted(KINDS):
        print("  %5d  %s" % (KINDS[k], k))
    for k in ('leaf-swap', 'leaf-duplicate', 'leaf-first-below-lo',
              'leaf-key-to-hi', 'sep-swap', 'sep-duplicate',
              'sep-down-to-left-max', 'sep-up-past-right-min',
              'sep-below-lo', 'sep-to-hi'):
        expect(KINDS.get(k, 0) > 50, "corruption kind hardly exercised: " + k)
    expect(COUNTS['typeerrors'] >= 8, "TypeError path not exercised")
    print("elapsed %.1fs" % (time.time() - T0))
    print("OK")


if __name__ == '__main__':
    main()
