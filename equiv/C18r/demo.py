"""Equivalence demonstration for refactoring C18r.

check.py: crack_btree(), crack_bucket() and Checker.check_sorted() iterate
with enumerate() instead of a hand-kept counter; type_and_adr(),
Checker.check(), check_sorted() and complain() build their texts with
f-strings instead of % / str.format().

Valid trees of many shapes (hand-made through __setstate__ and grown/shrunk
through the public API) and every single corruption of them are run through
BTrees.check.check() and ._check(); outcomes and the complete texts of the
AssertionErrors (addresses normalised) are compared with reference models
that are part of this file; the cracking functions are called directly on
real and on fake nodes, including all their assertion paths; messages are
checked with keys whose repr contains %, { and }, and with real oids.

Run:  PYTHONPATH=<worktree>/src /venv/bin/python demo.py"""
import copy
import gc
import importlib
import re
import sys

from BTrees import check as checkmod
from BTrees.check import check

# ---------------------------------------------------------------------------
# A tiny explicit model of a tree ("spec").  It is independent of check.py and
# of _check(): the specs are turned into real containers through __setstate__
# only, and every prediction below is computed from the spec / shadow graph.
# ---------------------------------------------------------------------------

AUTO = 'auto'


class Leaf:
    kind = 'L'

    def __init__(self, keys):
        self.keys = list(keys)
        self.next = AUTO          # AUTO | None | ('leaf', n) | 'extra'

    def leaves(self):
        return [self]


class Inner:
    kind = 'T'

    def __init__(self, keys, kids, inline=False):
        self.keys = list(keys)    # separators, len(kids) - 1 of them
        self.kids = list(kids)
        self.inline = inline      # single bucket squashed into the state
        self.firstbucket = AUTO   # AUTO | ('leaf', n)

    def leaves(self):
        out = []
        for k in self.kids:
            out.extend(k.leaves())
        return out


def inner_nodes(node, path=()):
    """All Inner nodes with their paths, preorder."""
    if node.kind == 'T':
        yield path, node
        for i, k in enumerate(node.kids):
            yield from inner_nodes(k, path + (i,))


def node_at(root, path):
    for i in path:
        root = root.kids[i]
    return root


def make_spec(nkeys, leaf, fan, step=10, base=100):
    """A valid tree over `nkeys` keys with `leaf` keys per bucket and `fan`
    children per internal node (as many levels as that takes)."""
    keys = [base + step * i for i in range(nkeys)]
    level = [Leaf(keys[i:i + leaf]) for i in range(0, nkeys, leaf)]
    mins = [lf.keys[0] for lf in level]
    while True:
        nxt, nmins = [], []
        for i in range(0, len(level), fan):
            grp = level[i:i + fan]
            nxt.append(Inner(mins[i + 1:i + len(grp)], grp))
            nmins.append(mins[i])
        level, mins = nxt, nmins
        if len(level) == 1:
            return level[0]


class Shadow:
    """What a built node really looks like (ground truth for the models)."""

    def __init__(self, kind, obj):
        self.kind = kind
        self.obj = obj
        self.kids = []
        self.firstbucket = None
        self.next = None
        self.len = 0
        self.keys = []


class Classes:
    def __init__(self, prefix, py, mapping):
        mod = importlib.import_module('BTrees.%sBTree' % prefix)
        sfx = 'Py' if py else ''
        self.prefix, self.py, self.mapping = prefix, py, mapping
        self.T = getattr(mod, prefix + ('BTree' if mapping else 'TreeSet') + sfx)
        self.B = getattr(mod, prefix + ('Bucket' if mapping else 'Set') + sfx)
        self.name = '{}{}{}'.format(prefix, 'map' if mapping else 'set',
                                    '/py' if py else '/c')

    def value(self, key):
        # values legal for every family used here (O, I, L, F)
        return (hash(key) % 1000) if isinstance(key, str) else key % 1000


def build(spec, cls, key=lambda k: k):
    """Turn a spec into real objects via __setstate__; return root Shadow."""
    leaves = spec.leaves()
    shadows = {}
    for lf in leaves:
        shadows[id(lf)] = Shadow('L', cls.B())
    extra = None

    def resolve(ref):
        nonlocal extra
        if ref is None:
            return None
        if ref == 'extra':
            if extra is None:
                extra = Shadow('L', cls.B())
                k = key(10 ** 6)
                extra.obj.__setstate__(
                    ((k, cls.value(k)) if cls.mapping else (k,),))
                extra.len, extra.keys = 1, [k]
            return extra
        return shadows[id(leaves[ref[1]])]

    for idx in range(len(leaves) - 1, -1, -1):
        lf = leaves[idx]
        sh = shadows[id(lf)]
        if lf.next == AUTO:
            nxt = shadows[id(leaves[idx + 1])] if idx + 1 < len(leaves) \
                else None
        else:
            nxt = resolve(lf.next)
        ks = [key(k) for k in lf.keys]
        items = []
        for k in ks:
            items.append(k)
            if cls.mapping:
                items.append(cls.value(k))
        state = (tuple(items),) if nxt is None else (tuple(items), nxt.obj)
        sh.obj.__setstate__(state)
        sh.next, sh.len, sh.keys = nxt, len(ks), ks

    def build_inner(node):
        if node.kind == 'L':
            return shadows[id(node)]
        sh = Shadow('T', cls.T())
        sh.keys = [key(k) for k in node.keys]
        if node.inline:
            (lf,) = node.kids
            bsh = shadows[id(lf)]
            sh.obj.__setstate__(((bsh.obj.__getstate__(),),))
            # the tree makes its own private bucket from the inlined state
            priv = Shadow('L', None)
            priv.len, priv.keys, priv.next = bsh.len, bsh.keys, bsh.next
            priv.inline = True
            sh.kids, sh.firstbucket, sh.len = [priv], priv, 1
            return sh
        sh.kids = [build_inner(k) for k in node.kids]
        sh.len = len(sh.kids)
        if not sh.kids:
            return sh                       # an empty tree: never setstate'd
        if node.firstbucket == AUTO:
            sub = node.leaves()
            fb = shadows[id(sub[0])]
        else:
            fb = resolve(node.firstbucket)
        data = [sh.kids[0].obj]
        for k, kid in zip(sh.keys, sh.kids[1:]):
            data.append(k)
            data.append(kid.obj)
        sh.obj.__setstate__((tuple(data), fb.obj))
        sh.firstbucket = fb
        return sh

    return build_inner(spec)


def all_shadows(sh, seen=None):
    out = []
    seen = set() if seen is None else seen
    if id(sh) in seen:
        return out
    seen.add(id(sh))
    out.append(sh)
    for k in sh.kids:
        out.extend(all_shadows(k, seen))
    return out


# ---------------------------------------------------------------------------
# Reference models of the two pointer checkers (written from the documented
# invariants; the C and the Python _check() test them in a different order and
# with two different messages, hence two flavours).  `touch` is called where
# the implementation has to load (activate) a node.
# ---------------------------------------------------------------------------

class Reject(Exception):
    pass


def need(cond, msg):
    if not cond:
        raise Reject(msg)


def ref_check_c(node, nextbucket, touch):
    touch(node)
    if node.len == 0:
        need(node.firstbucket is None, "Empty BTree has non-NULL firstbucket")
        return
    need(node.firstbucket is not None, "Non-empty BTree has NULL firstbucket")
    kids = node.kids
    n = len(kids)
    if kids[0].kind == 'T':
        touch(kids[0])
        need(node.firstbucket is kids[0].firstbucket,
             "BTree has firstbucket different than "
             "its first child's firstbucket")
        for i, child in enumerate(kids):
            need(child.kind == 'T', "BTree children have different types")
            touch(child)
            need(child.len >= 1, "BTree child length < 1")
            if i == n - 1:
                after = nextbucket
            else:
                touch(kids[i + 1])
                # struct layout: a bucket's `next` sits where a tree keeps
                # `firstbucket`
                after = (kids[i + 1].firstbucket if kids[i + 1].kind == 'T'
                         else kids[i + 1].next)
            ref_check_c(child, after, touch)
    else:
        need(node.firstbucket is kids[0],
             "Bottom-level BTree node has inconsistent firstbucket belief")
        for i, child in enumerate(kids):
            touch(child)
            need(child.kind != 'T', "BTree children have different types")
            need(child.len >= 1, "Bucket length < 1")
            after = nextbucket if i == n - 1 else kids[i + 1]
            need(child.next is after, "Bucket next pointer is damaged")


def ref_check_py(node, nextbucket, touch, need=need):
    touch(node)
    kids = node.kids
    if not kids:
        need(node.firstbucket is None, "Empty BTree has non-NULL firstbucket")
        return
    need(node.firstbucket is not None, "Non-empty BTree has NULL firstbucket")
    for child in kids:
        need(child.kind == kids[0].kind, "BTree children have different types")
        touch(child)
        need(child.len, "Bucket length < 1")
    if kids[0].kind == 'T':
        need(node.firstbucket is kids[0].firstbucket,
             "BTree has firstbucket different than "
             "its first child's firstbucket")
        for i in range(len(kids) - 1):
            ref_check_py(kids[i], kids[i + 1].firstbucket, touch, need)
        ref_check_py(kids[-1], nextbucket, touch, need)
    else:
        need(node.firstbucket is kids[0],
             "Bottom-level BTree node has inconsistent firstbucket belief")
        for i in range(len(kids) - 1):
            need(kids[i].next is kids[i + 1], "Bucket next pointer is damaged")
        need(kids[-1].next is nextbucket, "Bucket next pointer is damaged")


def predict_pointer(cls, root, touch=lambda n: None):
    """None if _check() must accept, else the AssertionError message."""
    try:
        (ref_check_py if cls.py else ref_check_c)(root, None, touch)
    except Reject as e:
        return str(e)
    return None


# ---------------------------------------------------------------------------
# Reference model of BTrees.check.check(): recursive, on the shadow graph.
# Returns the complaints in the order check() must list them (preorder).
# ---------------------------------------------------------------------------

def ref_value_complaints(node, path=(), lo=None, hi=None, out=None, visits=None):
    out = [] if out is None else out
    keys = node.keys
    n = len(keys)
    if visits is not None:
        visits.append((node, path, lo, hi))
    for i, x in enumerate(keys):
        if lo is not None and x < lo:
            out.append((node, path,
                        "key %r < lower bound %r at index %d" % (x, lo, i)))
        if hi is not None and not x < hi:
            out.append((node, path,
                        "key %r >= upper bound %r at index %d" % (x, hi, i)))
        if i + 1 < n and not x < keys[i + 1]:
            out.append((node, path, "key %r at index %d >= key %r at index %d"
                        % (x, i, keys[i + 1], i + 1)))
    if node.kind == 'T':
        last = len(node.kids) - 1
        for i, kid in enumerate(node.kids):
            klo = keys[i - 1] if i > 0 else lo
            khi = keys[i] if i < last else hi
            ref_value_complaints(kid, path + (i,), klo, khi, out, visits)
    return out


ADR = re.compile(r'\(0x[0-9a-f]+ oid=')


def norm(text):
    return ADR.sub('(0xADDR oid=', text)


def expected_check_text(cls, root):
    """The complete (address-normalised) AssertionError text, or None."""
    complaints = ref_value_complaints(root)
    if not complaints:
        return None

    def tname(node):
        # repr-independent: type name as check.py prints it
        if node.obj is None:
            return cls.B.__name__
        return type(node.obj).__name__

    def oid(node):
        if node.obj is None or node.obj._p_oid is None:
            return 'None'
        return checkmod.oid_repr(node.obj._p_oid)

    lines = ["Errors found in %s (0xADDR oid=%s):" % (tname(root), oid(root))]
    for node, path, msg in complaints:
        lines.append("%s, in %s (0xADDR oid=%s), path from root %s" % (
            msg, tname(node), oid(node), ".".join(str(i) for i in path)))
    return "\n".join(lines)


# ---------------------------------------------------------------------------
# Running the real checkers
# ---------------------------------------------------------------------------

def run(fn):
    """('ok', result) or (exception class, message)."""
    try:
        return 'ok', fn()
    except Exception as e:                       # noqa
        return type(e), str(e)


def refcounts(shadows):
    gc.collect()
    return [sys.getrefcount(s.obj) for s in shadows if s.obj is not None]


def states(shadows):
    return [s.obj._p_state for s in shadows if s.obj is not None]


class Stats:
    def __init__(self):
        self.cases = 0
        self.by_outcome = {}

    def note(self, what):
        self.cases += 1
        self.by_outcome[what] = self.by_outcome.get(what, 0) + 1


def verify(cls, spec, stats, label, key=lambda k: k, must_reject=None):
    """Build `spec`, run both checkers, compare with both reference models.

    must_reject: None (no opinion), True (the property demands that at least
    one checker raises AssertionError) or False (both must accept)."""
    root = build(spec, cls, key)
    nodes = all_shadows(root)
    rc_before = refcounts(nodes)
    none_before = sys.getrefcount(None)

    want_ptr = predict_pointer(cls, root)
    got = run(lambda: root.obj._check())
    if want_ptr is None:
        assert got == ('ok', None), (cls.name, label, '_check', got)
    else:
        assert got == (AssertionError, want_ptr), \
            (cls.name, label, '_check', got, want_ptr)

    want_val = expected_check_text(cls, root)
    got_val = run(lambda: check(root.obj))
    if want_val is None:
        assert got_val == ('ok', None), (cls.name, label, 'check', got_val)
    else:
        assert got_val[0] is AssertionError, (cls.name, label, got_val)
        assert norm(got_val[1]) == want_val, \
            (cls.name, label, 'check', norm(got_val[1]), want_val)

    # nothing leaked, nothing left pinned ("sticky") by the checkers
    del got, got_val
    assert refcounts(nodes) == rc_before, (cls.name, label, 'refcounts')
    assert abs(sys.getrefcount(None) - none_before) < 3
    assert set(states(nodes)) <= {0}, (cls.name, label, states(nodes))

    rejected = want_ptr is not None or want_val is not None
    if must_reject is not None:
        assert rejected == must_reject, (cls.name, label, want_ptr, want_val)
    stats.note(('_check:' + (want_ptr or 'accept'),
                'check:' + ('reject' if want_val else 'accept')))
    return root


# ---------------------------------------------------------------------------
# Single corruptions of a valid spec.  Each yields (label, corrupted spec).
# ---------------------------------------------------------------------------

def corruptions(spec):
    """Yield (label, make) pairs; make() returns a corrupted deep copy."""
    leaves = spec.leaves()
    nleaves = len(leaves)

    def on_leaf(li, change):
        def make():
            s = copy.deepcopy(spec)
            change(s.leaves()[li])
            return s
        return make

    def on_node(path, change):
        def make():
            s = copy.deepcopy(spec)
            change(node_at(s, path))
            return s
        return make

    def swap(j):
        def change(lf):
            lf.keys[j], lf.keys[j + 1] = lf.keys[j + 1], lf.keys[j]
        return change

    def setkey(j, value):
        def change(lf):
            lf.keys[j] = value
        return change

    def setattr_(name, value):
        def change(x):
            setattr(x, name, value)
        return change

    # --- key order inside a leaf --------------------------------------
    for li, lf in enumerate(leaves):
        for j in range(len(lf.keys) - 1):
            yield ('swap keys %d,%d of leaf %d' % (j, j + 1, li),
                   on_leaf(li, swap(j)))
            yield ('duplicate key %d of leaf %d' % (j, li),
                   on_leaf(li, setkey(j + 1, lf.keys[j])))
    # --- keys outside the range promised by the separators ------------
    for li, lf in enumerate(leaves):
        if li > 0:
            yield ('first key of leaf %d shifted below its range' % li,
                   on_leaf(li, setkey(0, leaves[li - 1].keys[-1] - 1)))
        if li < nleaves - 1:
            yield ('last key of leaf %d shifted to its upper bound' % li,
                   on_leaf(li, setkey(-1, leaves[li + 1].keys[0])))
            yield ('last key of leaf %d shifted above its range' % li,
                   on_leaf(li, setkey(-1, leaves[li + 1].keys[0] + 1)))
    # --- separators out of range / out of order ------------------------
    for path, node in inner_nodes(spec):
        for j in range(len(node.keys)):
            right_min = node.kids[j + 1].leaves()[0].keys[0]
            left_max = node.kids[j].leaves()[-1].keys[-1]
            yield ('separator %d of node %r moved above right child' % (
                j, path), on_node(path, setkey(j, right_min + 1)))
            yield ('separator %d of node %r moved onto left child' % (
                j, path), on_node(path, setkey(j, left_max)))
        for j in range(len(node.keys) - 1):
            yield ('separators %d,%d of node %r swapped' % (j, j + 1, path),
                   on_node(path, swap(j)))
    # --- linking of leaves ----------------------------------------------
    for li in range(nleaves):
        if li < nleaves - 1:
            yield ('next pointer of leaf %d dropped' % li,
                   on_leaf(li, setattr_('next', None)))
            yield ('next pointer of leaf %d points to itself' % li,
                   on_leaf(li, setattr_('next', ('leaf', li))))
        if li < nleaves - 2:
            yield ('next pointer of leaf %d skips a leaf' % li,
                   on_leaf(li, setattr_('next', ('leaf', li + 2))))
        if li > 0:
            yield ('next pointer of leaf %d points backwards' % li,
                   on_leaf(li, setattr_('next', ('leaf', li - 1))))
        yield ('next pointer of leaf %d redirected to a stray bucket' % li,
               on_leaf(li, setattr_('next', 'extra')))
    # --- non-emptiness ------------------------------------------------------
    if nleaves > 1:
        for li in range(nleaves):
            yield 'leaf %d emptied' % li, on_leaf(li, setattr_('keys', []))

    def empty_node(victim):
        victim.keys, victim.kids = [], []

    for path, node in inner_nodes(spec):
        if path and path[-1] != 0:
            # (an emptied *leftmost* subtree also changes what firstbucket
            # ought to be; the single-change cases are the others)
            yield 'internal node %r emptied' % (path,), on_node(
                path, empty_node)
    # --- wrong firstbucket ----------------------------------------------------
    if nleaves > 1:
        index = {id(lf): n for n, lf in enumerate(leaves)}
        for path, node in inner_nodes(spec):
            sub = node.leaves()
            first = index[id(sub[0])]
            for target in sorted({(first + 1) % nleaves,
                                  (first - 1) % nleaves,
                                  index[id(sub[-1])]}):
                if target == first:
                    continue
                yield ('firstbucket of node %r set to leaf %d' % (
                    path, target),
                    on_node(path, setattr_('firstbucket', ('leaf', target))))
    # --- uniformity of child kinds ------------------------------------------

    def wrap(j):
        # wrap the leaf into a one-child tree node: same keys, same leaf
        # chain, but the parent now mixes buckets and trees
        def change(par):
            par.kids[j] = Inner([], [par.kids[j]])
        return change

    def unwrap(j):
        def change(par):
            par.kids[j] = par.kids[j].kids[0]
        return change

    for path, node in inner_nodes(spec):
        for j, kid in enumerate(node.kids):
            if j == 0:
                continue
            if kid.kind == 'L':
                yield ('child %d of node %r replaced by a tree node' % (
                    j, path), on_node(path, wrap(j)))
            elif len(kid.kids) == 1 and kid.kids[0].kind == 'L':
                yield ('child %d of node %r replaced by its bucket' % (
                    j, path), on_node(path, unwrap(j)))


def api_tree(cls, keys, delete=()):
    t = cls.T()
    for k in keys:
        if cls.mapping:
            t[k] = cls.value(k)
        else:
            t.add(k)
    for k in delete:
        if cls.mapping:
            del t[k]
        else:
            t.remove(k)
    return t


def spec_of(tree, mapping):
    """Crack a public-API tree into a spec (own code, not check.py's)."""
    def leaf_of(bucket, mapping):
        st = bucket.__getstate__()
        items = st[0]
        return Leaf(items[::2] if mapping else items)

    def rec(t, mapping):
        st = t.__getstate__()
        if st is None:
            return Inner([], [])
        if len(st) == 1:
            items = st[0][0][0]
            return Inner([], [Leaf(items[::2] if mapping else items)],
                         inline=True)
        data = st[0]
        kids = [rec(k, mapping) if type(k) is type(t) else leaf_of(k, mapping)
                for k in data[0::2]]
        return Inner(data[1::2], kids)

    return rec(tree, mapping)


def shapes(cls):
    """(name, spec, key function, stride) - stride n: every n-th corruption"""
    ident = (lambda k: k)
    strkey = (lambda k: 'k%07d' % k)
    keyfs = [('int', ident)]
    if cls.prefix == 'OO':
        keyfs.append(('str', strkey))
    for kname, keyf in keyfs:
        one = make_spec(3, 4, 3)
        yield 'one bucket (%s)' % kname, one, keyf, 1
        inl = make_spec(3, 4, 3)
        inl.inline = True
        yield 'one inlined bucket (%s)' % kname, inl, keyf, 1
        yield '2 levels (%s)' % kname, make_spec(8, 3, 3), keyf, 1
        yield '3 levels (%s)' % kname, make_spec(24, 3, 3), keyf, 1
    yield '5 levels, ragged', make_spec(59, 2, 3), ident, 3
    # shapes made by the public API: growth only, and growth then shrinkage
    n = 9000 if cls.prefix == 'OO' else 70000
    if cls.py:
        n //= 6
    grown = api_tree(cls, range(0, 3 * n, 3))
    assert run(grown._check) == ('ok', None) and run(
        lambda: check(grown)) == ('ok', None)
    spec = spec_of(grown, cls.mapping)
    total = sum(1 for _ in corruptions(spec))
    yield 'API-grown (%d keys)' % n, spec, ident, max(1, total // 40)
    keep = set(range(0, 3 * n, 3 * 37)) | set(range(0, 300, 3))
    shrunk = api_tree(cls, range(0, 3 * n, 3),
                      delete=[k for k in range(0, 3 * n, 3) if k not in keep])
    assert run(shrunk._check) == ('ok', None) and run(
        lambda: check(shrunk)) == ('ok', None)
    spec = spec_of(shrunk, cls.mapping)
    total = sum(1 for _ in corruptions(spec))
    yield 'API-shrunk', spec, ident, max(1, total // 40)


def property_matrix(class_list, stats):
    for cls in class_list:
        assert run(cls.T()._check) == ('ok', None)
        assert run(lambda: check(cls.T())) == ('ok', None)
        for name, spec, keyf, stride in shapes(cls):
            verify(cls, spec, stats, name + ' pristine', keyf,
                   must_reject=False)
            for n, (label, make) in enumerate(corruptions(spec)):
                if n % stride:
                    continue
                verify(cls, make(), stats, name + ': ' + label, keyf,
                       must_reject=True)


# ---------------------------------------------------------------------------
# Persistence: which nodes get loaded, in which order, and what happens when
# loading one fails.
# ---------------------------------------------------------------------------

class Boom(Exception):
    pass


class Jar:
    def __init__(self):
        self.states = {}
        self.log = []
        self.fail = None

    def setstate(self, obj):
        self.log.append(obj._p_oid)
        if obj._p_oid == self.fail:
            raise Boom(obj._p_oid)
        obj.__setstate__(self.states[obj._p_oid])

    def register(self, obj):
        self.log.append(('register', obj._p_oid))


def ghost_tests(cls, spec, stats, label):
    root = build(spec, cls)
    nodes = all_shadows(root)
    assert all(s.obj is not None for s in nodes)
    jar = Jar()
    # children first, so that parents' states refer to children with oids
    for n, sh in enumerate(reversed(nodes)):
        sh.oid = n.to_bytes(8, 'big')
        sh.obj._p_oid = sh.oid
        sh.obj._p_jar = jar
        jar.states[sh.oid] = sh.obj.__getstate__()

    def ghostify():
        for sh in nodes:
            sh.obj._p_deactivate()
        assert set(states(nodes)) == {-1}
        jar.log = []

    order = []

    def touch(node):
        if node.oid not in order:
            order.append(node.oid)

    want = predict_pointer(cls, root, touch)
    ghostify()
    rc = refcounts(nodes)
    got = run(lambda: root.obj._check())
    assert got == (('ok', None) if want is None else (AssertionError, want)), \
        (cls.name, label, got, want)
    assert jar.log == order, (cls.name, label, jar.log, order)
    untouched = [sh for sh in nodes if sh.oid not in order]
    assert all(sh.obj._p_state == -1 for sh in untouched)
    assert all(sh.obj._p_state == 0 for sh in nodes if sh.oid in order)
    stats.note(('ghosts', want or 'accept'))

    # a node that cannot be loaded: its error comes out, not AssertionError,
    # and nothing stays pinned
    for victim in nodes:
        if victim.oid not in order:
            continue
        ghostify()
        jar.fail = victim.oid
        got = run(lambda: root.obj._check())
        jar.fail = None
        assert got == (Boom, str(victim.oid)), (cls.name, label, got)
        assert jar.log == order[:order.index(victim.oid) + 1]
        assert victim.obj._p_state == -1
        assert set(states(nodes)) <= {0, -1}
        # and afterwards the very same objects check out as predicted
        got = run(lambda: root.obj._check())
        assert got == (('ok', None) if want is None
                       else (AssertionError, want))
        assert set(states(nodes)) <= {0, -1}
        stats.note(('ghosts', 'load failure'))
    del got
    ghostify()
    assert refcounts(nodes) == rc, (cls.name, label)


def ghost_matrix(class_list, stats):
    for cls in class_list:
        for name, spec in (('2 levels', make_spec(8, 3, 3)),
                           ('3 levels', make_spec(24, 3, 3)),
                           ('4 levels', make_spec(22, 2, 2))):
            ghost_tests(cls, spec, stats, name)
            for label, make in corruptions(spec):
                if 'next pointer' in label or 'emptied' in label \
                        or 'firstbucket' in label or 'replaced' in label:
                    ghost_tests(cls, make(), stats, name + ': ' + label)


def report(stats):
    for k in sorted(stats.by_outcome, key=repr):
        print('%6d  %s' % (stats.by_outcome[k], k))
    print('%6d  cases, all as predicted' % stats.cases)


# ---------------------------------------------------------------------------
# C18r: state cracking and message formatting in check.py
# ---------------------------------------------------------------------------

Classes.value = lambda self, key: (key % 1000 if isinstance(key, int)
                                   else len(repr(key)))


class FakeNode:
    """Anything with a __getstate__ can be cracked."""

    def __init__(self, state):
        self.state = state

    def __getstate__(self):
        return self.state


def crack_cases(stats):
    from BTrees.check import (crack_btree, crack_bucket, BTREE_EMPTY,
                              BTREE_ONE, BTREE_NORMAL)
    a, b, c, d = object(), object(), object(), object()
    fb = object()

    def same(got, want, identical=True):
        # equal, with the same container types, holding the same objects
        assert got == want and [type(x) for x in got] == [
            type(x) for x in want], (got, want)
        for g, w in zip(got, want):
            if identical and isinstance(w, (list, tuple)):
                assert len(g) == len(w) and all(
                    x is y for x, y in zip(g, w)), (got, want)

    for m in (True, False):
        same(crack_btree(FakeNode(None), m), (BTREE_EMPTY, [], []))
        inner = ((1, 2), fb)
        got = crack_btree(FakeNode(((inner,),)), m)
        same(got, (BTREE_ONE, inner, None))
        assert got[1] is inner
        same(crack_btree(FakeNode(((a,), fb)), m), (BTREE_NORMAL, [], [a]))
        same(crack_btree(FakeNode(((a, 1, b), fb)), m),
             (BTREE_NORMAL, [1], [a, b]))
        same(crack_btree(FakeNode(((a, 1, b, 2, c, 3, d), fb)), m),
             (BTREE_NORMAL, [1, 2, 3], [a, b, c, d]))
        # any sized iterable will do for the data
        same(crack_btree(FakeNode(([a, 1, b], fb)), m),
             (BTREE_NORMAL, [1], [a, b]))
        same(crack_btree(FakeNode((dict.fromkeys((a, 1, b)), fb)), m),
             (BTREE_NORMAL, [1], [a, b]))
        stats.note(('crack_btree', 'results'))
        for bad in ([(a,), fb],            # not a tuple
                    ((a,), fb, fb),        # too long
                    (),                    # too short
                    ([inner],),            # 1-tuple not holding a tuple
                    ((inner, inner),),     # 1-tuple holding a 2-tuple
                    ((a, 1), fb),          # even number of items
                    ((), fb)):
            got = run(lambda: crack_btree(FakeNode(bad), m))
            assert got[0] is AssertionError, (bad, got)
            stats.note(('crack_btree', 'AssertionError'))
        got = run(lambda: crack_btree(FakeNode((iter((a,)), fb)), m))
        assert got[0] is TypeError, got        # len() of an iterator
        got = run(lambda: crack_btree(FakeNode((a, fb)), m))
        assert got[0] is TypeError, got

    data = (1, a, 2, b, 3, c)
    same(crack_bucket(FakeNode((data,)), True), ([1, 2, 3], [a, b, c]))
    same(crack_bucket(FakeNode((data, fb)), True), ([1, 2, 3], [a, b, c]))
    same(crack_bucket(FakeNode(((),)), True), ([], []))
    same(crack_bucket(FakeNode(([1, a],)), True), ([1], [a]))
    got = crack_bucket(FakeNode((data, fb)), False)
    same(got, (data, []))
    assert got[0] is data                   # a set's keys: the very tuple
    got = crack_bucket(FakeNode(((),)), False)
    assert got == ((), [])
    stats.note(('crack_bucket', 'results'))
    for m in (True, False):
        for bad in ([data], (), (data, fb, fb)):
            got = run(lambda: crack_bucket(FakeNode(bad), m))
            assert got[0] is AssertionError, (bad, got)
            stats.note(('crack_bucket', 'AssertionError'))
    got = run(lambda: crack_bucket(FakeNode(((1, a, 2),)), True))
    assert got[0] is AssertionError, got
    got = run(lambda: crack_bucket(FakeNode((iter(data),)), True))
    assert got[0] is TypeError, got
    stats.note(('crack_bucket', 'AssertionError'))

    def real(got, want):
        same(got, want, identical=False)

    # real containers, all four kinds, C and Python
    for py in (False, True):
        for prefix in ('OO', 'LF', 'IU'):
            cm, cs = Classes(prefix, py, True), Classes(prefix, py, False)
            ks = list(range(10, 20))
            bm = cm.B(dict((k, k + 1) for k in ks))
            real(crack_bucket(bm, True), (ks, [k + 1 for k in ks]))
            real(crack_bucket(bm, False), (bm.__getstate__()[0], []))
            real(crack_bucket(cs.B(ks), False), (tuple(ks), []))
            for cls in (cm, cs):
                root = build(make_spec(24, 3, 3), cls)
                for sh in all_shadows(root):
                    if sh.kind == 'T':
                        real(crack_btree(sh.obj, cls.mapping),
                             (BTREE_NORMAL, sh.keys,
                              [k.obj for k in sh.kids]))
                    else:
                        vals = [cls.value(k) for k in sh.keys]
                        real(crack_bucket(sh.obj, cls.mapping),
                             (sh.keys, vals) if cls.mapping
                             else (tuple(sh.keys), []))
                real(crack_btree(cls.T(), cls.mapping), (BTREE_EMPTY, [], []))
                one = api_tree(cls, ks)
                real(crack_btree(one, cls.mapping),
                     (BTREE_ONE, one.__getstate__()[0][0], None))
                stats.note(('crack', 'real containers'))


def message_cases(stats):
    """Texts, with keys whose repr is hostile to careless formatting, with
    real oids, and for buckets and sets checked on their own."""
    from BTrees.check import type_and_adr, Checker
    from BTrees.utils import positive_id
    hostile = (lambda k: '%%d{%07d}%%(x)s{0!r}' % k)
    pair = (lambda k: (k, '%s{}'))
    for py in (False, True):
        for mapping in (True, False):
            cls = Classes('OO', py, mapping)
            for keyf in (hostile, pair):
                spec = make_spec(24, 3, 3)
                verify(cls, spec, stats, 'hostile keys pristine', keyf,
                       must_reject=False)
                for label, make in corruptions(spec):
                    if 'key' in label or 'separator' in label:
                        verify(cls, make(), stats, 'hostile keys: ' + label,
                               keyf, must_reject=True)
            # several complaints about one key, several keys per node,
            # several nodes: everything is listed, in walk order
            spec = make_spec(24, 3, 3)
            lv = spec.leaves()
            lv[0].keys = [130, 120, 120]
            lv[3].keys = [90, 400, 95]
            spec.kids[1].keys = [500, 100]
            spec.keys = [spec.keys[1], spec.keys[0]]
            root = verify(cls, spec, stats, 'many complaints', hostile,
                          must_reject=True)
            text = run(lambda: check(root.obj))[1]
            assert text.count('\n') >= 12, text

            # oids are shown through oid_repr
            root = build(make_spec(8, 3, 3), cls)
            bad = root.kids[1]
            root.obj._p_oid = b'\0\0\0\0\0\0\x01\x02'
            bad.obj._p_oid = b'\0' * 7 + b'\x07'
            state = bad.obj.__getstate__()
            bad.obj.__setstate__(
                (state[0][2:4] + state[0][:2] + state[0][4:]
                 if mapping else (state[0][1], state[0][0], state[0][2]),)
                + state[1:])
            bad.keys[0], bad.keys[1] = bad.keys[1], bad.keys[0]
            got = run(lambda: check(root.obj))
            assert got[0] is AssertionError
            want = expected_check_text(cls, root)
            assert norm(got[1]) == want, (got[1], want)
            assert "oid=b'0x0102')" in want and "oid=b'0x07')" in want, want
            assert ("(0x%x oid=b'0x07')" % positive_id(bad.obj)) in got[1]
            assert type_and_adr(bad.obj) == "%s (0x%x oid=b'0x07')" % (
                type(bad.obj).__name__, positive_id(bad.obj))
            assert type_and_adr(3) == 'int (0x%x oid=None)' % positive_id(3)
            stats.note(('messages', 'oids'))

            # a bucket / set on its own: order is checked, no bounds
            b = cls.B()
            items = (5, 5, 3, 3, 4, 4, 4, 4) if mapping else (5, 3, 4, 4)
            b.__setstate__((items,))
            got = run(lambda: check(b))
            tn = type(b).__name__
            assert got[0] is AssertionError and norm(got[1]) == (
                "Errors found in %s (0xADDR oid=None):\n"
                "key 5 at index 0 >= key 3 at index 1, in %s (0xADDR "
                "oid=None), path from root \n"
                "key 4 at index 2 >= key 4 at index 3, in %s (0xADDR "
                "oid=None), path from root " % (tn, tn, tn)), got
            b.__setstate__(((3, 3, 4, 4, 5, 5) if mapping else (3, 4, 5),))
            assert run(lambda: check(b)) == ('ok', None)
            assert run(lambda: check(cls.B())) == ('ok', None)
            stats.note(('messages', 'lone bucket'))

            # Checker.complain / check_sorted are usable on their own
            ck = Checker(b)
            ck.check_sorted(b, [2, 0, 1], [7, 9, 8, 1], 2, 9)
            ck.complain('free text %d {0}', b, [])
            ck.complain('x', b, (4, 5))
            adr = type_and_adr(b)
            assert ck.errors == [
                "key 9 >= upper bound 9 at index 1, in %s, "
                "path from root 2.0.1" % adr,
                "key 9 at index 1 >= key 8 at index 2, in %s, "
                "path from root 2.0.1" % adr,
                "key 8 at index 2 >= key 1 at index 3, in %s, "
                "path from root 2.0.1" % adr,
                "key 1 < lower bound 2 at index 3, in %s, "
                "path from root 2.0.1" % adr,
                "free text %%d {0}, in %s, path from root " % adr,
                "x, in %s, path from root 4.5" % adr,
            ], ck.errors
            got = run(ck.check)
            assert got == (AssertionError, "\n".join(
                ["Errors found in %s:" % adr] + ck.errors[1:])), got
            stats.note(('messages', 'Checker methods'))


def main():
    stats = Stats()
    classes = [Classes(p, py, m) for p in ('OO', 'II')
               for py in (False, True) for m in (True, False)]
    classes += [Classes('LF', False, True), Classes('LF', True, False)]
    crack_cases(stats)
    message_cases(stats)
    property_matrix(classes, stats)
    report(stats)
    print('C18r demo: OK')


if __name__ == '__main__':
    main()
