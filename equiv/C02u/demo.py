"""Differential demo for refactoring u (pure-Python minKey / maxKey).

Run as:  PYTHONPATH=<tree>/src /venv/bin/python demo.py

Covers _BucketBase.minKey/maxKey (BucketPy, SetPy) and _Tree.minKey/maxKey
(BTreePy, TreeSetPy):

  1. seeded random insert/delete histories over several families with tiny
     node sizes; at every checkpoint minKey(b)/maxKey(b) of the tree, of every
     interior node and of every leaf are compared, for every b of a dense
     domain (present keys, gaps, below/above everything), None and no
     argument, against a sorted-list model (value, or ValueError with the
     exact message).  The histories include leaves whose smallest keys were
     removed behind the tree's back, i.e. stale separators as older releases
     left them and as __setstate__ accepts them: that is what drives
     _Tree.maxKey into its "move one child to the left" branch; bounds in
     the gap behind a leaf's last key drive _Tree.minKey to the next leaf;
  2. the C classes are put through the same battery (they must agree with the
     model too);
  3. identity of the returned object (the Python classes hand back the
     converted *argument* on an exact hit and the stored key otherwise);
  4. error paths: bounds that cannot be converted (type and message),
     empty containers, comparisons that raise (each comparison position in
     turn; nothing may be compared after the failure), node activations that
     raise (ghost nodes + stand-in jar; each activation position in turn);
  5. persistence effects: which nodes are activated, in which order, by every
     query on an all-ghost tree, how many comparisons every query makes, and
     that no query marks a node as changed.  These sequences are folded into
     a digest that is compared with the value recorded on the unmodified
     tree (EXPECTED_DIGEST).

Exit status 0 means everything matched.
"""
import hashlib
import importlib
import random
import sys

EXPECTED_DIGEST = (
    '65691b4ccfe9721e85094cc56e4db546'
    '3686c9f0b77aebdfd0c1bd706842f693')

FAILURES = []
DIGEST = hashlib.sha256()


def note(*parts):
    DIGEST.update(repr(parts).encode('utf-8'))


def check(cond, *what):
    if not cond:
        FAILURES.append(what)
        if len(FAILURES) <= 25:
            print("MISMATCH:", *what)


def model_minkey(ks, b):
    for k in ks:
        if k >= b:
            return k
    return None


def model_maxkey(ks, b):
    for k in reversed(ks):
        if k <= b:
            return k
    return None


_subclass_cache = {}


def small(family, kind, py, leaf, internal):
    ident = (family, kind, py, leaf, internal)
    if ident in _subclass_cache:
        return _subclass_cache[ident]
    mod = importlib.import_module('BTrees.%sBTree' % family)
    base = getattr(mod, family + kind + ('Py' if py else ''))
    cls = type('Small_%s%s%s_%d_%d' % (family, kind, 'Py' if py else '',
                                       leaf, internal),
               (base,), {'max_leaf_size': leaf, 'max_internal_size': internal})
    _subclass_cache[ident] = cls
    return cls


def value_for(family, k):
    v = family[1]
    if v == 'O':
        return ('v', k)
    if v == 'F':
        return k * 0.5
    return (k * 7) % 1000


def nodes_of(tree):
    out = []
    ttype = type(tree)

    def walk(node):
        out.append(node)
        if type(node) is not ttype:
            return
        state = node.__getstate__()
        if state is None:
            return
        if len(state) == 1:       # single leaf stored inline
            out.append(node._firstbucket)
            return
        for child in state[0][0::2]:
            walk(child)
    walk(tree)
    return out


def separators_of(tree):
    out = []
    ttype = type(tree)

    def walk(node):
        if type(node) is not ttype:
            return
        state = node.__getstate__()
        if state is None or len(state) == 1:
            return
        data = state[0]
        deep = type(data[0]) is ttype
        for sep in data[1::2]:
            out.append((deep, sep))
        for child in data[0::2]:
            walk(child)
    walk(tree)
    return out


def behead_leaves(tree, model, is_map):
    """Remove the smallest key of every leaf holding more than one key
    through the leaf itself, so that the separators above are not adjusted
    (the shape older releases left behind after deletions)."""
    for node in nodes_of(tree):
        if type(node) is not type(tree) and len(node) > 1:
            first = node.minKey()
            if is_map:
                del node[first]
            else:
                node.remove(first)
            del model[first]


def call(f, *a, **kw):
    try:
        return ('ok', f(*a, **kw))
    except Exception as e:   # noqa
        return ('exc', type(e), str(e))


def expect(got, want, empty_msg, label, *what):
    if want is None:
        check(got == ('exc', ValueError, empty_msg), label, *(what + (got,)))
    else:
        check(got == ('ok', want), label, *(what + (got, want)))


def battery(tree, ks, domain, label, every_node):
    ttype = type(tree)
    targets = [(tree, ks, 'tree')]
    if every_node:
        # the leaves are buckets / sets in their own right (interior nodes
        # are not trees in their own right: their last leaf is chained to a
        # leaf outside of them)
        for i, node in enumerate(nodes_of(tree)[1:]):
            if type(node) is not ttype:
                targets.append((node, list(node.keys()), 'leaf%d' % i))
    for node, nks, what in targets:
        is_tree = type(node) is ttype
        none_msg = 'empty tree' if is_tree else 'empty bucket'
        for b in domain:
            msg = ('no key satisfies the conditions' if nks or not is_tree
                   else 'empty tree')
            expect(call(node.minKey, b), model_minkey(nks, b), msg,
                   label, what, 'minKey', b)
            expect(call(node.maxKey, b), model_maxkey(nks, b), msg,
                   label, what, 'maxKey', b)
        if nks:
            for args in ((), (None,)):
                check(call(node.minKey, *args) == ('ok', nks[0]),
                      label, what, 'minKey', args)
                check(call(node.maxKey, *args) == ('ok', nks[-1]),
                      label, what, 'maxKey', args)
        elif is_tree:
            for args in ((), (None,)):
                check(call(node.minKey, *args) ==
                      ('exc', ValueError, none_msg), label, what, 'minKey()')
                check(call(node.maxKey, *args) ==
                      ('exc', ValueError, none_msg), label, what, 'maxKey()')


STALE = {}


def history(family, kind, py, leaf, internal, seed, offset, nkeys):
    rng = random.Random(seed)
    cls = small(family, kind, py, leaf, internal)
    label = '%s seed=%d' % (cls.__name__, seed)
    is_map = kind == 'BTree'
    tree = cls()
    universe = [offset + 2 + 2 * i for i in range(nkeys)]
    domain = list(range(offset, offset + 2 * nkeys + 5))
    model = {}

    def put(k):
        v = value_for(family, k)
        if is_map:
            tree[k] = v
        else:
            tree.add(k)
        model[k] = v

    def drop(k):
        if is_map:
            del tree[k]
        else:
            tree.remove(k)
        del model[k]

    def verify(phase, every_node=True):
        ks = sorted(model)
        check(list(tree.keys()) == ks, label, phase, 'content')
        tree._check()
        battery(tree, ks, domain, label + ' ' + phase, every_node)
        for deep, sep in separators_of(tree):
            if sep not in model:
                key = (py, 'above nodes' if deep else 'above leaves')
                STALE[key] = STALE.get(key, 0) + 1

    verify('empty')
    order = list(universe)
    rng.shuffle(order)
    for k in order:
        put(k)
    verify('filled')
    rng.shuffle(order)
    cut = len(order) - max(3, len(order) // 5)
    for k in order[:cut // 2]:
        drop(k)
    verify('half thinned')
    for k in order[cut // 2:cut]:
        drop(k)
    verify('thinned')
    for k in sorted(model)[1:-1]:
        drop(k)
    verify('two keys left')
    for k in universe[len(universe) // 2:]:
        if k not in model:
            put(k)
    verify('regrown')
    behead_leaves(tree, model, is_map)
    verify('leaf heads removed')
    behead_leaves(tree, model, is_map)
    verify('leaf heads removed twice')
    for k in sorted(model)[::3]:
        drop(k)
    verify('thinned again')
    for k in sorted(model):
        drop(k)
    verify('emptied')


# --------------------------------------------------------------------------
# standalone buckets and sets
# --------------------------------------------------------------------------

def standalone():
    rng = random.Random(5)
    for family in ('II', 'OO', 'LF', 'UU', 'QO', 'OL'):
        mod = importlib.import_module('BTrees.%sBTree' % family)
        for kind in ('Bucket', 'Set'):
            for py in (True, False):
                cls = getattr(mod, family + kind + ('Py' if py else ''))
                for n in (0, 1, 2, 3, 7, 20):
                    ks = sorted(rng.sample(range(3, 60), n))
                    if kind == 'Bucket':
                        node = cls([(k, value_for(family, k)) for k in ks])
                    else:
                        node = cls(ks)
                    label = '%s n=%d' % (cls.__name__, n)
                    for b in range(0, 63):
                        # (an empty C bucket says 'empty bucket' even when
                        # given a bound; an empty Python one does not)
                        msg = ('no key satisfies the conditions'
                               if ks or py else 'empty bucket')
                        expect(call(node.minKey, b), model_minkey(ks, b),
                               msg, label, 'minKey', b)
                        expect(call(node.maxKey, b), model_maxkey(ks, b),
                               msg, label, 'maxKey', b)
                    for args in ((), (None,)):
                        lo = call(node.minKey, *args)
                        hi = call(node.maxKey, *args)
                        if ks:
                            check(lo == ('ok', ks[0]), label, 'minKey', args)
                            check(hi == ('ok', ks[-1]), label, 'maxKey', args)
                        elif py:
                            # current behaviour of the Python classes (the C
                            # classes raise ValueError('empty bucket'))
                            check(lo[:2] == ('exc', IndexError), label, lo)
                            check(hi[:2] == ('exc', IndexError), label, hi)
                        else:
                            check(lo == ('exc', ValueError, 'empty bucket'),
                                  label, lo)
                            check(hi == ('exc', ValueError, 'empty bucket'),
                                  label, hi)


# --------------------------------------------------------------------------
# bounds that cannot be converted
# --------------------------------------------------------------------------

class Plain:
    """Instances have the default comparison: not acceptable as O keys."""


def bad_bounds():
    for family, bads in (
            ('II', ['x', 1.5, 2 ** 40, -2 ** 40, 2 ** 70, ()]),
            ('LO', ['x', 1.5, 2 ** 70, -2 ** 70, ()]),
            ('UU', ['x', 1.5, -1, 2 ** 40, 2 ** 70]),
            ('QF', ['x', 1.5, -1, 2 ** 70]),
            ('OO', [object(), Plain()])):
        mod = importlib.import_module('BTrees.%sBTree' % family)
        for kind in ('BTree', 'TreeSet', 'Bucket', 'Set'):
            if kind in ('BTree', 'TreeSet'):
                cls = small(family, kind, True, 2, 2)
            else:
                cls = getattr(mod, family + kind + 'Py')
            node = cls()
            for k in range(3, 40, 2):
                if kind in ('BTree', 'Bucket'):
                    node[k] = value_for(family, k)
                else:
                    node.add(k)
            for bad in bads:
                for name in ('minKey', 'maxKey'):
                    got = call(getattr(node, name), bad)
                    check(got[0] == 'exc' and got[1] is TypeError,
                          cls.__name__, 'bad bound', bad, got)
                    if family != 'OO':
                        note('bad', cls.__name__, name, repr(bad), got[2])
            check(node.minKey(4) == 5 and node.maxKey(4) == 3,
                  cls.__name__, 'alive')
            # an empty tree reports emptiness only after converting the bound
            empty = cls()
            for bad in bads[:2]:
                got = call(empty.minKey, bad)
                check(got[0] == 'exc' and got[1] is TypeError,
                      cls.__name__, 'empty, bad bound', bad, got)
                got = call(empty.maxKey, bad)
                if kind in ('BTree', 'TreeSet'):
                    # _Tree.maxKey looks at the data first
                    check(got == ('exc', ValueError, 'empty tree'),
                          cls.__name__, 'empty maxKey, bad bound', bad, got)
                else:
                    check(got[0] == 'exc' and got[1] is TypeError,
                          cls.__name__, 'empty, bad bound', bad, got)


# --------------------------------------------------------------------------
# comparisons that raise; identity of the result
# --------------------------------------------------------------------------

class Boom(Exception):
    pass


class Fuse:
    countdown = None
    calls = 0

    @classmethod
    def tick(cls):
        cls.calls += 1
        if cls.countdown is not None:
            cls.countdown -= 1
            if cls.countdown <= 0:
                cls.countdown = None
                raise Boom('comparison %d' % cls.calls)


class K:
    __slots__ = ('n',)

    def __init__(self, n):
        self.n = n

    def __lt__(self, other):
        Fuse.tick()
        return self.n < other.n

    def __gt__(self, other):
        Fuse.tick()
        return self.n > other.n

    def __le__(self, other):
        Fuse.tick()
        return self.n <= other.n

    def __ge__(self, other):
        Fuse.tick()
        return self.n >= other.n

    def __eq__(self, other):
        Fuse.tick()
        return isinstance(other, K) and self.n == other.n

    def __ne__(self, other):
        Fuse.tick()
        return not (isinstance(other, K) and self.n == other.n)

    def __hash__(self):
        return hash(self.n)

    def __repr__(self):
        return 'K(%d)' % self.n


def failing_comparisons():
    rng = random.Random(20240502)
    mod = importlib.import_module('BTrees.OOBTree')
    for kind in ('BTree', 'TreeSet', 'Bucket', 'Set'):
        for leaf, internal in ((2, 2), (3, 2)):
            if kind in ('BTree', 'TreeSet'):
                cls = small('OO', kind, True, leaf, internal)
            elif leaf == 2:
                cls = getattr(mod, 'OO' + kind + 'Py')
            else:
                continue
            is_map = kind in ('BTree', 'Bucket')
            node = cls()
            stored = {n: K(n) for n in range(2, 70, 2)}
            order = list(stored)
            rng.shuffle(order)
            for n in order:
                if is_map:
                    node[stored[n]] = n
                else:
                    node.add(stored[n])
            rng.shuffle(order)
            for n in order[:len(order) // 3]:
                if is_map:
                    del node[stored[n]]
                else:
                    node.remove(stored[n])
                del stored[n]
            if kind in ('BTree', 'TreeSet'):
                byk = {k: k.n for k in stored.values()}
                behead_leaves(node, byk, is_map)
                stored = {n: k for n, k in stored.items() if k in byk}
                check(any(sep.n not in stored
                          for deep, sep in separators_of(node) if deep),
                      cls.__name__, 'no stale separator high up')
            ks = sorted(stored)
            nfail = 0
            for n in range(0, 73):
                p = K(n)
                for name, want in (('minKey', model_minkey(ks, n)),
                                   ('maxKey', model_maxkey(ks, n))):
                    meth = getattr(node, name)
                    Fuse.countdown = None
                    Fuse.calls = 0
                    got = call(meth, p)
                    total = Fuse.calls
                    note('cmp', cls.__name__, name, n, total)
                    if want is None:
                        check(got == ('exc', ValueError,
                                      'no key satisfies the conditions'),
                              cls.__name__, name, n, got)
                    else:
                        check(got[0] == 'ok' and got[1].n == want,
                              cls.__name__, name, n, got, want)
                        # identity: the argument on an exact hit, else the
                        # stored key
                        if want == n:
                            check(got[1] is p, cls.__name__, name, n,
                                  'exact hit does not return the argument')
                        else:
                            check(got[1] is stored[want], cls.__name__, name,
                                  n, 'does not return the stored key')
                    for nth in range(1, total + 1):
                        Fuse.countdown = nth
                        Fuse.calls = 0
                        got = call(meth, p)
                        check(got[0] == 'exc' and got[1] is Boom,
                              cls.__name__, name, n, 'fail at', nth, got)
                        check(Fuse.calls == nth, cls.__name__, name, n,
                              'comparisons after the failure', Fuse.calls)
                        nfail += 1
                    Fuse.countdown = None
            check(nfail > 500, cls.__name__, 'too few failures', nfail)
            check([k.n for k in node.keys()] == ks, cls.__name__, 'alive')


# --------------------------------------------------------------------------
# ghosts: activation order, activations that raise, no node gets changed
# --------------------------------------------------------------------------

class Jar:
    def __init__(self):
        self.states = {}
        self.calls = 0
        self.fail_at = None
        self.loaded = []
        self.registered = []

    def adopt(self, nodes):
        for i, node in enumerate(nodes):
            node._p_jar = self
            node._p_oid = b'%08d' % i
        for node in nodes:
            self.states[node._p_oid] = node.__getstate__()

    def setstate(self, obj):
        self.calls += 1
        if self.fail_at is not None and self.calls == self.fail_at:
            raise Boom('activation %d' % self.calls)
        self.loaded.append(int(obj._p_oid))
        obj.__setstate__(self.states[obj._p_oid])

    def readCurrent(self, obj):
        pass

    def register(self, obj):
        self.registered.append(int(obj._p_oid))


GHOST, UPTODATE = -1, 0


def ghostify(nodes):
    for node in nodes:
        node._p_invalidate()
    return all(node._p_state == GHOST for node in nodes)


def ghosts():
    rng = random.Random(78)
    for family, kind, leaf, internal in (
            ('II', 'BTree', 2, 2), ('OO', 'BTree', 2, 3),
            ('LL', 'TreeSet', 2, 2), ('OO', 'TreeSet', 3, 2),
            ('UF', 'BTree', 3, 3)):
        cls = small(family, kind, True, leaf, internal)
        is_map = kind == 'BTree'
        tree = cls()
        universe = list(range(4, 100, 3))
        rng.shuffle(universe)
        model = {}
        for k in universe:
            model[k] = value_for(family, k)
            if is_map:
                tree[k] = model[k]
            else:
                tree.add(k)
        rng.shuffle(universe)
        for k in universe[:len(universe) // 2]:
            del model[k]
            if is_map:
                del tree[k]
            else:
                tree.remove(k)
        behead_leaves(tree, model, is_map)
        ks = sorted(model)
        check(any(sep not in model for deep, sep in separators_of(tree)
                  if deep), cls.__name__, 'no stale separator high up')
        nodes = nodes_of(tree)
        check(len(nodes) > 8, cls.__name__, 'tree too small', len(nodes))
        jar = Jar()
        jar.adopt(nodes)
        check(ghostify(nodes), cls.__name__, 'cannot ghostify')
        nfail = 0
        for b in list(range(0, 104)) + [None]:
            for name in ('minKey', 'maxKey'):
                # every node is a ghost here; looking up the method
                # activates the root, so that is done inside the guarded
                # call as well
                def meth(b, name=name):
                    return getattr(tree, name)(b)
                if b is None:
                    want = ks[0] if name == 'minKey' else ks[-1]
                elif name == 'minKey':
                    want = model_minkey(ks, b)
                else:
                    want = model_maxkey(ks, b)
                jar.fail_at = None
                jar.calls = 0
                jar.loaded = []
                got = call(meth, b)
                total = jar.calls
                note('load', cls.__name__, name, b, jar.loaded)
                expect(got, want, 'no key satisfies the conditions',
                       cls.__name__, name, b)
                check(all(n._p_state in (GHOST, UPTODATE) for n in nodes),
                      cls.__name__, name, b, 'node changed or sticky')
                check(ghostify(nodes), cls.__name__, 'cannot re-ghostify')
                for nth in range(1, total + 1):
                    jar.fail_at = nth
                    jar.calls = 0
                    jar.loaded = []
                    got = call(meth, b)
                    check(got[0] == 'exc' and got[1] is Boom,
                          cls.__name__, name, b, 'fail at', nth, got)
                    check(jar.calls == nth, cls.__name__, name, b,
                          'activations after the failure', jar.calls, nth)
                    check(all(n._p_state in (GHOST, UPTODATE)
                              for n in nodes),
                          cls.__name__, name, b, 'node changed or sticky')
                    check(ghostify(nodes), cls.__name__, 'cannot re-ghostify')
                    nfail += 1
                jar.fail_at = None
        check(not jar.registered, cls.__name__, 'a query registered a node',
              jar.registered[:5])
        check(nfail > 300, cls.__name__, 'too few failures', nfail)
        check(list(tree.keys()) == ks, cls.__name__, 'alive')


# --------------------------------------------------------------------------

def main():
    runs = 0
    plan = [('II', -30), ('OO', -7), ('LO', -2 ** 40), ('UU', 0),
            ('QF', 2 ** 40), ('OL', 0)]
    sizes = [(2, 2), (3, 2), (2, 3), (4, 3)]
    seed = 2000
    for fi, (family, offset) in enumerate(plan):
        for kind in ('BTree', 'TreeSet'):
            for si, (leaf, internal) in enumerate(sizes):
                seed += 1
                nkeys = 30 if (fi + si) % 2 else 42
                history(family, kind, True, leaf, internal, seed, offset,
                        nkeys)
                runs += 1
                if (fi + si) % 2 == 0:
                    history(family, kind, False, leaf, internal, seed,
                            offset, nkeys)
                    runs += 1
    for where in ('above leaves', 'above nodes'):
        check(STALE.get((True, where), 0) > 50,
              'too few stale separators', where, STALE)
    standalone()
    bad_bounds()
    failing_comparisons()
    ghosts()
    digest = DIGEST.hexdigest()
    check(digest == EXPECTED_DIGEST,
          'digest of comparison counts / activation orders / messages',
          digest, 'expected', EXPECTED_DIGEST)
    if FAILURES:
        print('%d mismatches' % len(FAILURES))
        return 1
    print('ok: %d histories, stale separators %r, digest %s'
          % (runs, sorted(STALE.items()), digest[:16]))
    return 0


if __name__ == '__main__':
    sys.exit(main())
