
# ---------------------------------------------------------------------------
# Common part of the C01 equivalence demonstrations: a reference sorted map /
# sorted set ("the oracle"), a driver that replays random call histories
# against a BTrees container and the oracle in lock step, and helpers for
# reference-count and persistence-notification checks.
#
# The oracle is written from the property statement only (a dict / set kept
# in ascending key order, None smallest); it shares no code with BTrees.
# ---------------------------------------------------------------------------
import gc
import importlib
import pickle
import random
import sys

import persistent

import BTrees
import BTrees.check

FAMILIES = tuple(BTrees._FAMILIES)          # the 22 families
KINDS = ('BTree', 'Bucket', 'TreeSet', 'Set')
IMPLS = ('', 'Py')                          # C build, pure-Python build
# (max_leaf_size, max_internal_size); None = the family's defaults
NODE_SIZES = ((1, 2), (2, 2), (3, 2), (2, 3), (4, 4), None)

CHECKS = [0]


def check(cond, *what):
    CHECKS[0] += 1
    if not cond:
        raise AssertionError(' '.join(str(w) for w in what))


def get_class(family, kind, impl, sizes=None):
    mod = importlib.import_module('BTrees.%sBTree' % family)
    base = getattr(mod, family + kind + impl)
    if sizes is None or 'Tree' not in kind:
        return base
    leaf, internal = sizes
    return type(base)(
        '%s_%d_%d' % (base.__name__, leaf, internal), (base,),
        {'max_leaf_size': leaf, 'max_internal_size': internal})


# -- domains ----------------------------------------------------------------

INT_DOMAINS = {
    'I': (-2 ** 31, 2 ** 31 - 1),
    'U': (0, 2 ** 32 - 1),
    'L': (-2 ** 63, 2 ** 63 - 1),
    'Q': (0, 2 ** 64 - 1),
}


def key_pool(family):
    k = family[0]
    if family == 'fs':
        return [bytes([65 + i // 4, 97 + i % 4]) for i in range(16)]
    if k == 'O':
        return [None] + list(range(-3, 13))
    lo, hi = INT_DOMAINS[k]
    pool = list(range(0, 14)) + [lo, hi, hi - 1, lo + 1]
    if lo < 0:
        pool += [-1, -2, -7]
    return sorted(set(pool))


def value_pool(family):
    v = family[1]
    if family == 'fs':
        return [bytes([48 + i]) * 6 for i in range(8)]
    if v == 'O':
        return [None, 0, 1, 'a', 'b', (1, 2), 2.5, -1]
    if v == 'F':
        return [0.0, 0.25, -0.5, 1.0, 3.75, -128.0, 1024.5]
    lo, hi = INT_DOMAINS[v]
    return [0, 1, 2, 3, 7, lo, hi]


def bad_keys(family):
    """Keys outside the family's domain (recorded expectations below)."""
    if family == 'fs':
        return [b'abc', b'', 7, None]
    if family[0] == 'O':
        return []
    lo, hi = INT_DOMAINS[family[0]]
    return ['x', None, 1.5, lo - 1, hi + 1, 2 ** 70]


def sort_key(k):
    # None is the smallest object key
    return (0, 0) if k is None else (1, k)


# -- the oracle -------------------------------------------------------------

class Raised:
    def __init__(self, cls):
        self.cls = cls

    def __eq__(self, other):
        return isinstance(other, Raised) and other.cls is self.cls

    def __repr__(self):
        return 'Raised(%s)' % self.cls.__name__


class MapOracle:
    """A dict kept in ascending key order."""

    def __init__(self):
        self.d = {}

    def keys(self):
        return sorted(self.d, key=sort_key)

    def items(self):
        return [(k, self.d[k]) for k in self.keys()]

    # every method returns the expected result or Raised(cls)
    def setitem(self, k, v):
        self.d[k] = v

    def delitem(self, k):
        if k not in self.d:
            return Raised(KeyError)
        del self.d[k]

    def insert(self, k, v):
        if k in self.d:
            return 0
        self.d[k] = v
        return 1

    def setdefault(self, k, v):
        return self.d.setdefault(k, v)

    def pop(self, k, *default):
        if k in self.d:
            return self.d.pop(k)
        if default:
            return default[0]
        return Raised(KeyError)

    def popitem(self):
        if not self.d:
            return Raised(KeyError)
        k = self.keys()[0]
        return (k, self.d.pop(k))

    def update(self, pairs):
        for k, v in pairs:
            self.d[k] = v

    def clear(self):
        self.d.clear()

    def get(self, k, *default):
        return self.d.get(k, default[0] if default else None)

    def getitem(self, k):
        if k in self.d:
            return self.d[k]
        return Raised(KeyError)

    def contains(self, k):
        return k in self.d


class SetOracle:
    """A set kept in ascending order."""

    def __init__(self):
        self.s = set()

    def keys(self):
        return sorted(self.s, key=sort_key)

    def add(self, k):
        if k in self.s:
            return 0
        self.s.add(k)
        return 1

    def remove(self, k):
        if k not in self.s:
            return Raised(KeyError)
        self.s.remove(k)

    def discard(self, k):
        self.s.discard(k)

    def pop(self):
        if not self.s:
            return Raised(KeyError)
        k = self.keys()[0]
        self.s.remove(k)
        return k

    def update(self, ks):
        self.s.update(ks)

    def clear(self):
        self.s.clear()

    def contains(self, k):
        return k in self.s

    def ior(self, ks):
        self.s |= set(ks)

    def iand(self, ks):
        self.s &= set(ks)

    def isub(self, ks):
        self.s -= set(ks)

    def ixor(self, ks):
        self.s ^= set(ks)


def attempt(f, *args):
    try:
        return f(*args)
    except Exception as e:
        return Raised(type(e))


# -- the lock-step driver ---------------------------------------------------

def verify_state(t, oracle, is_set, is_tree, label):
    keys = oracle.keys()
    check(list(t) == keys, label, 'iteration', list(t), keys)
    check(list(t.keys()) == keys, label, 'keys()')
    check(len(t) == len(keys), label, 'len', len(t), len(keys))
    check(bool(t) == bool(keys), label, 'bool')
    if not is_set:
        check(list(t.items()) == oracle.items(), label, 'items()',
              list(t.items()), oracle.items())
        check(list(t.values()) == [v for _, v in oracle.items()],
              label, 'values()')
    if keys:
        check(t.minKey() == keys[0] and t.maxKey() == keys[-1],
              label, 'minKey/maxKey')
    if is_tree:
        t._check()


def drive(family, kind, impl, sizes, seed, nops):
    """Replay one random history; returns the final container."""
    rnd = random.Random(seed)
    cls = get_class(family, kind, impl, sizes)
    is_set = 'Set' in kind
    is_tree = 'Tree' in kind
    label = '%s%s%s sizes=%s seed=%s' % (family, kind, impl, sizes, seed)
    keys = key_pool(family)
    values = value_pool(family)
    bad = bad_keys(family)
    t = cls()
    o = SetOracle() if is_set else MapOracle()
    verify_state(t, o, is_set, is_tree, label)

    def K():
        return rnd.choice(keys)

    def V():
        return rnd.choice(values)

    for step in range(nops):
        where = '%s step %d' % (label, step)
        r = rnd.random()
        if bad and r < 0.06:
            # a key outside the domain: recorded exception classes; the
            # contents must stay unchanged (verified below)
            b = rnd.choice(bad)
            if is_set:
                check(attempt(t.add, b) == Raised(TypeError), where, 'add bad')
                check(attempt(t.remove, b) == Raised(TypeError), where,
                      'remove bad')
                check(attempt(t.discard, b) is None, where, 'discard bad')
                # update() is not a single-key call: the good key in
                # front of the bad one is stored before TypeError is raised
                g = K()
                check(attempt(t.update, [g, b]) == Raised(TypeError),
                      where, 'update bad')
                o.add(g)
            else:
                check(attempt(t.__setitem__, b, V()) == Raised(TypeError),
                      where, 'setitem bad')
                check(attempt(t.__getitem__, b) == Raised(KeyError), where,
                      'getitem bad')
                check(attempt(t.get, b, 5) == 5, where, 'get bad')
                check(attempt(t.__delitem__, b) == Raised(TypeError), where,
                      'delitem bad')
                check(attempt(t.pop, b) == Raised(TypeError), where,
                      'pop bad')
                check(attempt(t.pop, b, 7) == Raised(TypeError), where,
                      'pop bad default')
                check(attempt(t.setdefault, b, V()) == Raised(TypeError),
                      where, 'setdefault bad')
            check(attempt(t.__contains__, b) is False, where, 'in bad')
            check(not attempt(t.has_key, b), where, 'has_key bad')
            verify_state(t, o, is_set, is_tree, where)
            continue

        if is_set:
            op = rnd.choice((
                'add', 'add', 'add', 'insert', 'remove', 'remove', 'discard',
                'discard', 'pop', 'update', 'clear', 'contains', 'has_key',
                'ior', 'iand', 'isub', 'ixor', 'ior_set', 'isub_set',
                'ixor_self', 'isub_self'))
            if op == 'clear' and rnd.random() < 0.7:
                op = 'add'
            if op in ('add', 'insert'):
                k = K()
                got = attempt(getattr(t, op), k)
                check(int(got) == o.add(k), where, op, k, got)
            elif op == 'remove':
                k = K()
                check(attempt(t.remove, k) == o.remove(k), where, op, k)
            elif op == 'discard':
                k = K()
                check(attempt(t.discard, k) == o.discard(k), where, op, k)
            elif op == 'pop':
                check(attempt(t.pop) == o.pop(), where, op)
            elif op == 'update':
                ks = [K() for _ in range(rnd.randrange(5))]
                attempt(t.update, ks)
                o.update(ks)
            elif op == 'clear':
                check(t.clear() is None, where, op)
                o.clear()
            elif op == 'contains':
                k = K()
                check((k in t) is o.contains(k), where, op, k)
            elif op == 'has_key':
                k = K()
                check(bool(t.has_key(k)) is o.contains(k), where, op, k)
            elif op in ('ior', 'iand', 'isub', 'ixor'):
                ks = [K() for _ in range(rnd.randrange(6))]
                if op == 'iand':
                    # the operand of &= gets sorted with the plain < of its
                    # elements, which None does not support
                    ks = [k for k in ks if k is not None]
                same = t
                if op == 'ior':
                    t |= ks
                elif op == 'iand':
                    t &= ks
                elif op == 'isub':
                    t -= ks
                else:
                    t ^= ks
                check(t is same, where, op, 'returns self')
                getattr(o, op)(ks)
            elif op in ('ior_set', 'isub_set'):
                other = get_class(family, rnd.choice(('Set', 'TreeSet')),
                                  impl)([K() for _ in range(4)])
                same = t
                if op == 'ior_set':
                    t |= other
                    o.ior(list(other))
                else:
                    t -= other
                    o.isub(list(other))
                check(t is same, where, op, 'returns self')
            elif op == 'ixor_self':
                same = t
                t ^= t
                check(t is same, where, op)
                o.clear()
            elif op == 'isub_self':
                same = t
                t -= t
                check(t is same, where, op)
                o.clear()
        else:
            op = rnd.choice((
                'setitem', 'setitem', 'setitem', 'setitem', 'delitem',
                'delitem', 'insert', 'setdefault', 'pop', 'pop_default',
                'popitem', 'update', 'update_dict', 'clear', 'get',
                'get_default', 'getitem', 'contains', 'has_key'))
            if op == 'clear' and rnd.random() < 0.7:
                op = 'setitem'
            if op == 'setitem':
                k, v = K(), V()
                check(attempt(t.__setitem__, k, v) == o.setitem(k, v),
                      where, op, k, v)
            elif op == 'delitem':
                k = K()
                check(attempt(t.__delitem__, k) == o.delitem(k), where, op, k)
            elif op == 'insert':
                if not hasattr(t, 'insert'):
                    continue
                k, v = K(), V()
                got = attempt(t.insert, k, v)
                check(int(got) == o.insert(k, v), where, op, k, got)
            elif op == 'setdefault':
                k, v = K(), V()
                check(attempt(t.setdefault, k, v) == o.setdefault(k, v),
                      where, op, k, v)
            elif op == 'pop':
                k = K()
                check(attempt(t.pop, k) == o.pop(k), where, op, k)
            elif op == 'pop_default':
                k = K()
                check(attempt(t.pop, k, 'dflt') == o.pop(k, 'dflt'),
                      where, op, k)
            elif op == 'popitem':
                check(attempt(t.popitem) == o.popitem(), where, op)
            elif op == 'update':
                pairs = [(K(), V()) for _ in range(rnd.randrange(5))]
                check(attempt(t.update, pairs) is None, where, op)
                o.update(pairs)
            elif op == 'update_dict':
                pairs = dict((K(), V()) for _ in range(rnd.randrange(5)))
                check(attempt(t.update, pairs) is None, where, op)
                o.update(pairs.items())
            elif op == 'clear':
                check(t.clear() is None, where, op)
                o.clear()
            elif op == 'get':
                k = K()
                check(t.get(k) == o.get(k), where, op, k)
            elif op == 'get_default':
                k = K()
                check(t.get(k, 'dflt') == o.get(k, 'dflt'), where, op, k)
            elif op == 'getitem':
                k = K()
                check(attempt(t.__getitem__, k) == o.getitem(k), where, op, k)
            elif op == 'contains':
                k = K()
                check((k in t) is o.contains(k), where, op, k)
            elif op == 'has_key':
                k = K()
                check(bool(t.has_key(k)) is o.contains(k), where, op, k)
        verify_state(t, o, is_set, is_tree, where)
    if is_tree and sizes is None:
        BTrees.check.check(t)   # (does not know subclasses)
    return t, o


def sweep(families=FAMILIES, kinds=KINDS, impls=IMPLS, node_sizes=NODE_SIZES,
          seeds=(1,), nops=120):
    n = 0
    for family in families:
        for kind in kinds:
            for impl in impls:
                for sizes in (node_sizes if 'Tree' in kind else (None,)):
                    for seed in seeds:
                        drive(family, kind, impl, sizes, seed, nops)
                        n += 1
    return n


def shape(x):
    """The pickled state of a container with the nodes it refers to
    replaced by *their* states: the full structure (splits, separators,
    leaf chain) as nested tuples."""
    if isinstance(x, tuple):
        return tuple(shape(s) for s in x)
    if isinstance(x, persistent.Persistent):
        name = type(x).__name__
        for kind in ('TreeSet', 'BTree', 'Bucket', 'Set'):
            if kind in name:
                break
        return (kind, shape(x.__getstate__()))
    return x


DIGEST_FAMILIES = ('OO', 'II', 'fs', 'LF', 'OQ', 'UO')

# sha1 over the structures reached by fixed histories, recorded from the
# unmodified sources (C build, pure-Python build).  The two builds split
# roots at different moments, hence two constants.
RECORDED_DIGESTS = {
    '': 'a4ce0a076ce11fcae3cf1fdc230dc55e1e41178e',
    'Py': 'd009fc9ca016a89efe1e3e7f3c76ef91efc0b3a1',
}


def structure_digest(impl, nops=120, seeds=(1, 2)):
    import hashlib
    h = hashlib.sha1()
    for family in DIGEST_FAMILIES:
        for kind in KINDS:
            for sizes in (NODE_SIZES[:5] if 'Tree' in kind else (None,)):
                for seed in seeds:
                    t, _ = drive(family, kind, impl, sizes, seed, nops)
                    h.update(repr(shape(t.__getstate__())).encode())
                    h.update(pickle.dumps(t.__getstate__(), 2)
                             if 'Tree' not in kind else b'')
    return h.hexdigest()


def check_structures():
    """Same histories -> same node structure and same pickled leaf states as
    before; and leaves of the two builds have equal states."""
    for impl in IMPLS:
        got = structure_digest(impl)
        check(got == RECORDED_DIGESTS[impl], 'structure digest',
              impl or 'C', got)
    for family in DIGEST_FAMILIES:
        for kind in ('Bucket', 'Set'):
            for seed in (1, 2, 3):
                tc, _ = drive(family, kind, '', None, seed, 100)
                tp, _ = drive(family, kind, 'Py', None, seed, 100)
                check(tc.__getstate__() == tp.__getstate__(),
                      family, kind, seed, 'C/Py leaf states')


# -- persistence notifications ---------------------------------------------

class Jar:
    """Just enough of a data manager to see change registrations."""

    def __init__(self):
        self.registered = []
        self.read_current = 0

    def register(self, obj):
        self.registered.append(obj)

    def readCurrent(self, obj):
        self.read_current += 1

    def setstate(self, obj):
        raise AssertionError('no ghosts expected')


def adopt(t, jar, n=1):
    t._p_jar = jar
    t._p_oid = n.to_bytes(8, 'big')
    t._p_serial = (1).to_bytes(8, 'big')
    t._p_changed = False


def changed_after(t, f, *args):
    """Run f(*args); report whether t was marked changed by it."""
    t._p_changed = False
    result = attempt(f, *args)
    flag = bool(t._p_changed)
    t._p_changed = False
    return flag, result


def persistence_leaf(family, kind, impl, seed, nops=150):
    """A leaf container registers a change exactly when its contents (or a
    stored value) change; lookups and failed calls never do."""
    rnd = random.Random(seed)
    cls = get_class(family, kind, impl)
    is_set = 'Set' in kind
    keys = key_pool(family)[:8]
    values = value_pool(family)
    # C skips the notification when an unboxed value is replaced by itself
    same_value_is_noop = impl == '' and family[1] != 'O'
    t = cls()
    jar = Jar()
    adopt(t, jar)
    model = {}
    label = 'persistence %s%s%s' % (family, kind, impl)
    for step in range(nops):
        k, v = rnd.choice(keys), rnd.choice(values)
        if is_set:
            op = rnd.choice(('add', 'remove', 'discard', 'contains', 'pop'))
            if op == 'add':
                expect = k not in model
                flag, _ = changed_after(t, t.add, k)
                model[k] = None
            elif op in ('remove', 'discard'):
                expect = k in model
                flag, _ = changed_after(t, getattr(t, op), k)
                model.pop(k, None)
            elif op == 'pop':
                expect = bool(model)
                flag, got = changed_after(t, t.pop)
                if model:
                    model.pop(got)
            else:
                expect = False
                flag, _ = changed_after(t, t.__contains__, k)
        else:
            op = rnd.choice(('set', 'set', 'del', 'setdefault', 'get',
                             'getitem', 'pop', 'popd'))
            if op == 'set':
                expect = not (k in model and same_value_is_noop
                              and model[k] == v)
                flag, _ = changed_after(t, t.__setitem__, k, v)
                model[k] = v
            elif op == 'del':
                expect = k in model
                flag, _ = changed_after(t, t.__delitem__, k)
                model.pop(k, None)
            elif op == 'setdefault':
                expect = k not in model
                flag, _ = changed_after(t, t.setdefault, k, v)
                model.setdefault(k, v)
            elif op == 'get':
                expect = False
                flag, _ = changed_after(t, t.get, k)
            elif op == 'getitem':
                expect = False
                flag, _ = changed_after(t, t.__getitem__, k)
            elif op == 'pop':
                expect = k in model
                flag, _ = changed_after(t, t.pop, k)
                model.pop(k, None)
            else:
                expect = k in model
                flag, _ = changed_after(t, t.pop, k, None)
                model.pop(k, None)
        check(flag is expect, label, 'step', step, op, k, v, flag, expect)
        check(sorted(model, key=sort_key) == list(t), label, 'contents')
    t._p_jar = None


# -- reference counts -------------------------------------------------------

class Obj:
    """An object key/value with a total order, never interned or cached."""
    __slots__ = ('n',)

    def __init__(self, n):
        self.n = n

    def __lt__(self, other):
        return self.n < other.n

    def __eq__(self, other):
        return isinstance(other, Obj) and self.n == other.n

    def __hash__(self):
        return hash(self.n)

    def __repr__(self):
        return 'Obj(%r)' % self.n


def refcount_history(kind, impl, sizes, seed, nops=300):
    """Object keys and values: while the history runs a leaf container owns
    exactly one reference per stored key and per stored value; when the
    container is gone every reference has been given back."""
    rnd = random.Random(seed)
    cls = get_class('OO', kind, impl, sizes)
    is_set = 'Set' in kind
    is_leaf = 'Tree' not in kind
    keys = [Obj(i) for i in range(12)]
    values = [Obj(100 + i) for i in range(5)]
    gc.collect()
    def counts(objs):
        return [sys.getrefcount(objs[n]) for n in range(len(objs))]

    base_k = counts(keys)
    base_v = counts(values)
    t = cls()
    present = {}        # index of key -> index of value
    label = 'refcounts OO%s%s %s' % (kind, impl, sizes)
    for step in range(nops):
        i = rnd.randrange(len(keys))
        j = rnd.randrange(len(values))
        op = rnd.choice(('set', 'set', 'del', 'del', 'setdefault', 'pop',
                         'popmin', 'miss', 'clear'))
        if op == 'clear' and rnd.random() < 0.8:
            op = 'set'
        if is_set:
            if op in ('set', 'setdefault'):
                t.add(keys[i])
                present[i] = None
            elif op == 'del':
                if i in present:
                    t.remove(keys[i])
                    del present[i]
                else:
                    t.discard(keys[i])
            elif op in ('pop', 'popmin'):
                if present:
                    got = t.pop()
                    check(got is keys[min(present)], label, 'pop identity')
                    del got
                    del present[min(present)]
            elif op == 'miss':
                if i not in present:
                    check(attempt(t.remove, keys[i]) == Raised(KeyError),
                          label, 'remove missing')
            else:
                t.clear()
                present.clear()
        else:
            if op == 'set':
                t[keys[i]] = values[j]
                present[i] = j
            elif op == 'setdefault':
                got = t.setdefault(keys[i], values[j])
                present.setdefault(i, j)
                check(got is values[present[i]], label, 'setdefault identity')
                del got
            elif op == 'del':
                if i in present:
                    del t[keys[i]]
                    del present[i]
            elif op == 'pop':
                got = t.pop(keys[i], None)
                check(got is (values[present[i]] if i in present else None),
                      label, 'pop identity')
                del got
                present.pop(i, None)
            elif op == 'popmin':
                if present:
                    got = t.popitem()
                    m = min(present)
                    check(got[0] is keys[m] and got[1] is values[present[m]],
                          label, 'popitem identity')
                    del got
                    del present[m]
            elif op == 'miss':
                if i not in present:
                    check(attempt(t.__delitem__, keys[i]) == Raised(KeyError),
                          label, 'del missing')
            else:
                t.clear()
                present.clear()
        if is_leaf:
            now = counts(keys)
            for n in range(len(keys)):
                check(now[n] - base_k[n] == (n in present),
                      label, 'step', step, op, 'key refcount', n)
            if not is_set:
                held = list(present.values())
                now = counts(values)
                for n in range(len(values)):
                    check(now[n] - base_v[n] == held.count(n),
                          label, 'step', step, op, 'value refcount', n)
        check([k.n for k in t] == sorted(present), label, 'contents')
    del t
    gc.collect()
    check(counts(keys) == base_k, label, 'key references not balanced')
    check(counts(values) == base_v, label, 'value references not balanced')

# ---------------------------------------------------------------------------
# C01p: the slot-removal step of _bucket_set (BucketTemplate.c), now the
# helper bucket_close_gap().  Every way of deleting from a leaf, at every
# position of leaves of every small length, in every family.
# ---------------------------------------------------------------------------
import itertools
import pickle


def expected_state(keys, values, is_set):
    if is_set:
        return (tuple(keys),)
    flat = []
    for k, v in zip(keys, values):
        flat += [k, v]
    return (tuple(flat),)


def delete_at_every_position():
    deleters_map = ('delitem', 'pop', 'pop_default')
    deleters_set = ('remove', 'discard')
    for family in FAMILIES:
        keys = key_pool(family)[:7]
        vals = (value_pool(family) * 2)[:7]
        for kind in ('Bucket', 'Set'):
            is_set = kind == 'Set'
            for impl in IMPLS:
                cls = get_class(family, kind, impl)
                for n in range(1, 7):
                    for pos in range(n):
                        for how in (deleters_set if is_set else deleters_map):
                            ks, vs = keys[:n], vals[:n]
                            t = cls(ks) if is_set else cls(list(zip(ks, vs)))
                            label = 'p/%s%s%s n=%d pos=%d %s' % (
                                family, kind, impl, n, pos, how)
                            k = ks[pos]
                            if how == 'delitem':
                                del t[k]
                            elif how == 'pop':
                                check(t.pop(k) == vs[pos], label, 'value')
                            elif how == 'pop_default':
                                check(t.pop(k, 'd') == vs[pos], label, 'value')
                            elif how == 'remove':
                                check(t.remove(k) is None, label)
                            else:
                                check(t.discard(k) is None, label)
                            del ks[pos], vs[pos]
                            check(list(t) == ks, label, 'keys', list(t), ks)
                            check(len(t) == n - 1, label, 'len')
                            check(t.__getstate__() ==
                                  expected_state(ks, vs, is_set),
                                  label, 'state', t.__getstate__())
                            # the same key again: KeyError, nothing changes
                            if is_set:
                                check(attempt(t.remove, k) == Raised(KeyError),
                                      label, 'remove twice')
                                check(t.discard(k) is None, label)
                            else:
                                check(attempt(t.__delitem__, k) ==
                                      Raised(KeyError), label, 'del twice')
                                check(attempt(t.pop, k) == Raised(KeyError),
                                      label, 'pop twice')
                                check(t.pop(k, 'd') == 'd', label)
                            check(list(t) == ks, label, 'keys after failure')
                            # and the slot can be filled again
                            if is_set:
                                t.add(k)
                            else:
                                t[k] = vals[0]
                            check(list(t) == sorted(ks + [k], key=sort_key),
                                  label, 'reinsert')
                            # pickles survive a round trip
                            t2 = pickle.loads(pickle.dumps(t))
                            check(list(t2) == list(t), label, 'pickle')


def delete_in_every_order():
    """Empty a leaf in every possible order, then grow it again (the vectors
    are given back when the last slot goes, and reallocated afterwards)."""
    for family in ('OO', 'II', 'LF', 'OQ', 'UO', 'fs'):
        keys = key_pool(family)[:4]
        vals = value_pool(family)[:4]
        for kind in ('Bucket', 'Set'):
            is_set = kind == 'Set'
            for impl in IMPLS:
                cls = get_class(family, kind, impl)
                for order in itertools.permutations(range(4)):
                    t = cls(keys) if is_set else cls(list(zip(keys, vals)))
                    left = dict(zip(keys, vals))
                    label = 'p/%s%s%s order=%s' % (family, kind, impl, order)
                    for i in order:
                        if is_set:
                            t.remove(keys[i])
                        else:
                            check(t.pop(keys[i]) == vals[i], label)
                        del left[keys[i]]
                        check(list(t) == sorted(left, key=sort_key), label,
                              list(t))
                        if not is_set:
                            check(list(t.values()) ==
                                  [left[k] for k in t], label, 'values')
                    check(len(t) == 0 and not t, label, 'empty')
                    check(t.__getstate__() == ((),), label, 'empty state')
                    for i in reversed(order):
                        if is_set:
                            t.add(keys[i])
                        else:
                            t[keys[i]] = vals[i]
                    check(list(t) == keys, label, 'regrown')
                    # popping the smallest repeatedly: always slot 0
                    while t:
                        if is_set:
                            smallest = min(t, key=sort_key)
                            check(t.pop() == smallest, label, 'pop smallest')
                        else:
                            k, v = t.popitem()
                            check(v == vals[keys.index(k)], label)


def tree_leaf_deletions():
    """The same step reached through _BTree_set: leaves of 1..3 keys that
    shrink and are unlinked when the last slot goes."""
    for family in ('OO', 'LL', 'IF', 'fs'):
        keys = key_pool(family)[:9]
        vals = (value_pool(family) * 2)[:9]
        for kind in ('BTree', 'TreeSet'):
            is_set = kind == 'TreeSet'
            for impl in IMPLS:
                for sizes in ((1, 2), (2, 2), (3, 2)):
                    cls = get_class(family, kind, impl, sizes)
                    for seed in range(6):
                        order = list(range(9))
                        random.Random(seed).shuffle(order)
                        t = cls(keys) if is_set else cls(list(zip(keys, vals)))
                        left = dict(zip(keys, vals))
                        label = 'p/%s%s%s %s seed=%d' % (
                            family, kind, impl, sizes, seed)
                        for i in order:
                            if is_set:
                                t.remove(keys[i])
                            else:
                                del t[keys[i]]
                            del left[keys[i]]
                            t._check()
                            check(list(t) == sorted(left, key=sort_key),
                                  label, list(t))
                            check(len(t) == len(left), label, 'len')
                        check(t.__getstate__() is None, label, 'empty state')


class Watcher:
    """A value whose finalizer looks at the bucket it is being removed
    from (C build: the bucket must already be consistent by then)."""
    log = []
    bucket = None       # the bucket under observation

    def __init__(self, name):
        self.name = name

    def __del__(self):
        b = Watcher.bucket
        Watcher.log.append((self.name, list(b.items()) if b is not None
                            else None))


def finalizer_sees_consistent_bucket():
    from BTrees.OOBTree import OOBucket
    b = Watcher.bucket = OOBucket()
    b[1] = 'one'
    b[2] = Watcher('w2')
    b[3] = 'three'
    del Watcher.log[:]
    del b[2]                          # delete: slot closed before release
    check(Watcher.log == [('w2', [(1, 'one'), (3, 'three')])],
          'p/finalizer on delete', Watcher.log)
    b[3] = Watcher('w3')
    del Watcher.log[:]
    del b[3]                          # last slot
    del b[1]
    b[5] = Watcher('w5')
    del Watcher.log[:]
    check(isinstance(b.pop(5), Watcher), 'p/pop returns the value')
    gc.collect()
    check(Watcher.log == [('w5', [])], 'p/finalizer after emptying',
          Watcher.log)
    check(list(b) == [] and b.__getstate__() == ((),), 'p/emptied')
    Watcher.bucket = None


def main():
    delete_at_every_position()
    delete_in_every_order()
    tree_leaf_deletions()
    finalizer_sees_consistent_bucket()
    # reference counts of object keys/values through every deletion path
    for kind in KINDS:
        for impl in IMPLS:
            for sizes in (((1, 2), (2, 2), None) if 'Tree' in kind
                          else (None,)):
                for seed in (5, 6):
                    refcount_history(kind, impl, sizes, seed)
    # persistence notifications of leaves
    for family in ('OO', 'II', 'IF', 'OI', 'fs'):
        for kind in ('Bucket', 'Set'):
            for impl in IMPLS:
                if family == 'fs' and kind == 'Bucket':
                    continue
                persistence_leaf(family, kind, impl, 3)
    # random histories against the oracle: all families, kinds, both builds
    n = sweep(nops=100)
    check_structures()
    print('C01p demo: %d histories, %d checks, all passed' % (n, CHECKS[0]))


if __name__ == '__main__':
    main()
