"""Equivalence demonstration for refactoring C14s
(BTREE_SEARCH / BUCKET_SEARCH macros (for -> while) and _bucket_get's result branch).

Run:  PYTHONPATH=<worktree>/src /venv/bin/python demo.py
Exit status 0 = every check passed (must be so with and without the patch).
"--record" prints the constants (comparison totals and a SHA-256 over every
observation) instead of comparing them; they were recorded from the unpatched
code.
"""
# ---------------------------------------------------------------------------
# Shared fault-injection harness (property C14: an exception raised by a key
# comparison leaves the container intact).
# ---------------------------------------------------------------------------
import gc
import sys

FAILURES = []


def check(cond, msg):
    if not cond:
        FAILURES.append(msg)
        print("FAIL:", msg)


class Boom(Exception):
    """Raised by the n-th key comparison."""


class Ctl:
    remaining = None    # the comparison that makes this reach 0 raises
    count = 0           # comparisons performed so far
    log = None          # optional list of (operator, left, right)


def arm(n):
    Ctl.remaining = n
    Ctl.count = 0


def disarm():
    Ctl.remaining = None


def tick(a, b, op):
    Ctl.count += 1
    if Ctl.log is not None:
        Ctl.log.append((op, a.v, b.v))
    if Ctl.remaining is not None:
        Ctl.remaining -= 1
        if Ctl.remaining == 0:
            Ctl.remaining = None
            raise Boom(Ctl.count)


class K:
    """Key whose every rich comparison is counted and can be made to fail."""
    __slots__ = ('v',)

    def __init__(self, v):
        self.v = v

    def __lt__(self, o):
        tick(self, o, '<')
        return self.v < o.v

    def __gt__(self, o):
        tick(self, o, '>')
        return self.v > o.v

    def __le__(self, o):
        tick(self, o, '<=')
        return self.v <= o.v

    def __ge__(self, o):
        tick(self, o, '>=')
        return self.v >= o.v

    def __eq__(self, o):
        tick(self, o, '==')
        return self.v == o.v

    def __ne__(self, o):
        tick(self, o, '!=')
        return self.v != o.v

    def __hash__(self):
        return hash(self.v)

    def __repr__(self):
        return 'K(%r)' % (self.v,)


class V:
    """A value object (distinct instances, so reference counts are exact)."""
    __slots__ = ('v',)

    def __init__(self, v):
        self.v = v

    def __repr__(self):
        return 'V(%r)' % (self.v,)


class Jar:
    """Stand-in data manager recording persistence notifications."""

    def __init__(self):
        self.events = []
        self.index = {}

    def adopt(self, nodes):
        for n, node in enumerate(nodes):
            node._p_jar = self
            node._p_oid = n.to_bytes(8, 'big')
            node._p_serial = b'\0' * 7 + b'\1'
            self.index[id(node)] = n

    def register(self, obj):
        self.events.append(('register', self.index.get(id(obj), -1)))

    def readCurrent(self, obj):
        self.events.append(('readCurrent', self.index.get(id(obj), -1)))

    def setstate(self, obj):    # never a ghost here
        raise AssertionError("setstate called")


def is_tree(obj):
    return hasattr(obj, '_check')


def tree_nodes(t, acc=None):
    """All persistent nodes of a tree (or the lone bucket), pre-order."""
    if acc is None:
        acc = []
    acc.append(t)
    if not is_tree(t):
        return acc
    state = t.__getstate__()
    if state is None:
        return acc
    for x in state[0]:
        if hasattr(x, '_p_oid'):
            tree_nodes(x, acc)
    return acc


def raw(x):
    return x.v if isinstance(x, (K, V)) else x


def contents(c):
    """Contents as plain data; identity of stored objects is included so a
    replaced-by-equal object would be noticed.  Never compares K objects."""
    if hasattr(c, 'items'):
        return [(raw(k), id(k), raw(v), id(v)) for k, v in c.items()]
    return [(raw(k), id(k)) for k in c.keys()]


def plain(c):
    if hasattr(c, 'items'):
        return [(raw(k), raw(v)) for k, v in c.items()]
    return [raw(k) for k in c.keys()]


def refcounts(objs):
    return [sys.getrefcount(objs[i]) for i in range(len(objs))]


def structure(t):
    """Shape of a tree: nested tuple of separator keys / bucket key lists."""
    if not is_tree(t):
        return ('B', tuple(raw(k) for k in t.keys()))
    state = t.__getstate__()
    if state is None:
        return ('T',)
    out = ['T']
    for x in state[0]:
        if hasattr(x, '_p_oid'):
            out.append(structure(x))
        elif isinstance(x, tuple):      # inlined state of a lone bucket
            out.append(('b', len(x)))
        else:
            out.append(raw(x))
    return tuple(out)


def sound(c, label):
    if is_tree(c):
        try:
            c._check()
        except Exception as e:      # noqa
            check(False, "%s: _check() failed: %r" % (label, e))
        if type(c).__module__.startswith('BTrees.'):
            from BTrees.check import check as deep_check
            try:
                deep_check(c)
            except Exception as e:      # noqa
                check(False, "%s: BTrees.check.check failed: %r" % (label, e))
    ks = [raw(k) for k in c.keys()]
    check(ks == sorted(set(ks)), "%s: keys not strictly increasing" % label)
    check(len(c) == len(ks), "%s: len() disagrees with iteration" % label)


class Objs(list):
    """Every K/V object a scenario creates; .named gives the probes."""

    def __init__(self):
        list.__init__(self)
        self.named = {}

    def new(self, name, obj):
        self.append(obj)
        self.named[name] = obj
        return obj


import hashlib

# Digest of everything observed in every run (faulted or not) and of the full
# comparison log of every unfaulted run; compared with a recorded constant.
DIGEST = hashlib.sha256()
RUNS = [0]


def note(*what):
    DIGEST.update(repr(what).encode())


class Scenario:
    """One operation on one freshly built container.

    build(objs) -> container; every K/V object it creates is appended to objs
    op(container, objs) -> result (plain data)
    model_before / model_after: plain contents expected (independent model)
    """

    def __init__(self, label, build, op, model_before, model_after,
                 result=None, raises=None, persistent=False,
                 comparisons=None, events=None, after=None):
        self.label = label
        self.build = build
        self.op = op
        self.model_before = model_before
        self.model_after = model_after
        self.result = result
        self.raises = raises
        self.persistent = persistent
        self.comparisons = comparisons
        self.events = events
        self.after = after      # extra "later operations behave normally"


def run_once(sc, n):
    """Build a fresh container, fail the n-th comparison (n=None: none).

    Returns a dict of observations.
    """
    objs = Objs()
    disarm()
    c = sc.build(objs)
    jar = None
    nodes = tree_nodes(c)
    if sc.persistent:
        jar = Jar()
        jar.adopt(nodes)
    before = contents(c)
    shape_before = structure(c)
    check(plain(c) == sc.model_before,
          "%s: built container differs from the model" % sc.label)
    gc.collect()
    rc_before = refcounts(objs)
    n_objs = len(objs)
    outcome = None
    result = None
    Ctl.count = 0
    Ctl.log = [] if n is None else None
    if n is not None:
        arm(n)
    try:
        try:
            result = sc.op(c, objs)
            outcome = 'ok'
        except Boom:
            outcome = 'boom'
        except Exception as e:      # noqa
            outcome = type(e)
    finally:
        fired = n is not None and Ctl.remaining is None
        disarm()
    ncmp = Ctl.count
    if n is None:
        RUNS[0] += 1
        note('trace', sc.label, ncmp, Ctl.log)
    Ctl.log = None
    gc.collect()
    rc_after = refcounts(objs)[:n_objs]
    note('outcome', sc.label, n, repr(outcome), plain(c), structure(c),
         [a - b for a, b in zip(rc_after, rc_before)],
         list(jar.events) if jar else None,
         [bool(x._p_changed) for x in nodes] if jar else None)
    obs = dict(c=c, objs=objs, outcome=outcome, result=result, ncmp=ncmp,
               fired=fired, before=before, after=contents(c),
               shape_before=shape_before, shape_after=structure(c),
               rc_delta=[a - b for a, b in zip(rc_after, rc_before)],
               events=list(jar.events) if jar else None,
               changed=[bool(x._p_changed) for x in nodes] if jar else None,
               n_objs=n_objs)
    return obs


def later_operations(sc, obs, label):
    """After the operation (failed or not) the container must behave normally."""
    c = obs['c']
    sound(c, label)
    model = dict(plain(c)) if hasattr(c, 'items') else set(plain(c))
    probe = K(10 ** 6)
    if hasattr(c, 'items'):
        val = V('late')
        c[probe] = val
        check(c[probe] is val, "%s: late insert not found" % label)
        check(c.get(K(10 ** 6 + 1)) is None, "%s: phantom key" % label)
        check(c.maxKey() is probe, "%s: maxKey after late insert" % label)
        del c[probe]
        check(dict(plain(c)) == model, "%s: late insert/delete changed "
                                         "other items" % label)
    else:
        c.add(probe)
        check(probe in c, "%s: late add not found" % label)
        c.remove(probe)
        check(set(plain(c)) == model, "%s: late add/remove changed other "
                                      "keys" % label)
    for key in list(model)[:7]:
        check(K(key) in c, "%s: stored key %r not found later" % (label, key))
    sound(c, label + " (after later operations)")
    if sc.after is not None:
        sc.after(c, label)


def release_and_check(obs, label):
    """Dropping the container must return every tracked object to exactly the
    references we hold ourselves (no leak, no double release)."""
    objs = obs['objs']
    objs.named.clear()
    obs['c'] = None
    obs['result'] = None
    gc.collect()
    base = sys.getrefcount(objs[0]) if objs else None
    for i in range(len(objs)):
        rc = sys.getrefcount(objs[i])
        # one reference from the list 'objs', one from getrefcount's argument
        if rc != 2:
            check(False, "%s: object %r ends with refcount %d (expected 2)"
                  % (label, objs[i], rc))
            break
    return base


def sweep(sc):
    """Fail comparison 1, 2, 3, ... of the operation until it runs to the end.

    Returns the number of comparisons the unfaulted operation performs.
    """
    ref = run_once(sc, None)
    label = sc.label
    if sc.raises is not None:
        check(ref['outcome'] is sc.raises,
              "%s: expected %r, got %r" % (label, sc.raises, ref['outcome']))
    else:
        check(ref['outcome'] == 'ok',
              "%s: unfaulted run raised %r" % (label, ref['outcome']))
        if sc.result is not None:
            check(raw(ref['result']) == sc.result,
                  "%s: result %r != expected %r"
                  % (label, ref['result'], sc.result))
    check(plain(ref['c']) == sc.model_after,
          "%s: unfaulted contents %r differ from the model %r"
          % (label, plain(ref['c']), sc.model_after))
    total = ref['ncmp']
    if sc.comparisons is not None:
        check(total == sc.comparisons,
              "%s: %d comparisons, recorded constant is %d"
              % (label, total, sc.comparisons))
    if sc.events is not None:
        check(ref['events'] == sc.events,
              "%s: persistence events %r, recorded %r"
              % (label, ref['events'], sc.events))
    ref_delta = ref['rc_delta']
    ref_events = ref['events']
    later_operations(sc, ref, label + " [no fault]")
    release_and_check(ref, label + " [no fault]")

    for n in range(1, total + 1):
        obs = run_once(sc, n)
        tag = "%s [fail cmp %d/%d]" % (label, n, total)
        check(obs['fired'], "%s: fault never fired" % tag)
        check(obs['outcome'] == 'boom',
              "%s: exception did not reach the caller (outcome %r)"
              % (tag, obs['outcome']))
        check(obs['ncmp'] == n,
              "%s: %d comparisons performed, expected to stop at the failing "
              "one" % (tag, obs['ncmp']))
        unchanged = plain(obs['c']) == sc.model_before
        completed = plain(obs['c']) == sc.model_after
        check(unchanged or completed,
              "%s: partial change: %r" % (tag, plain(obs['c'])))
        if unchanged:
            check(obs['after'] == obs['before'],
                  "%s: stored objects were exchanged" % tag)
            check(obs['shape_after'] == obs['shape_before'],
                  "%s: tree shape changed by a failed operation" % tag)
            check(all(d == 0 for d in obs['rc_delta']),
                  "%s: reference counts moved: %r" % (tag, obs['rc_delta']))
            if obs['events'] is not None:
                check(not [e for e in obs['events'] if e[0] == 'register'],
                      "%s: change notification from a failed operation: %r"
                      % (tag, obs['events']))
                check(not any(obs['changed']),
                      "%s: _p_changed set by a failed operation" % tag)
                check(obs['events'] == ref_events[:len(obs['events'])],
                      "%s: events %r are not a prefix of %r"
                      % (tag, obs['events'], ref_events))
        else:
            # The change was completed before the failing comparison (e.g.
            # the separator-key fix-up after a delete).  Soundness, later
            # operations and the final reference counts are checked below;
            # the exact shape / counts go into the recorded digest.
            for d, r in zip(obs['rc_delta'], ref_delta):
                check(d >= min(r, 0) and d <= max(r, 0) + 1,
                      "%s: completed change, reference count delta %d vs %d"
                      % (tag, d, r))
        later_operations(sc, obs, tag)
        release_and_check(obs, tag)
    return total


def trace_digest():
    return DIGEST.hexdigest()


def finish(name):
    if FAILURES:
        print("%s: %d FAILURES" % (name, len(FAILURES)))
        sys.exit(1)
    print("%s: all checks passed" % name)
    sys.exit(0)
# ---------------------------------------------------------------------------
# Scenario generators (independent model: plain dict / set of ints)
# ---------------------------------------------------------------------------

def builder(cls, values, mapping, probes=(), deletions=()):
    def build(objs):
        c = cls()
        for x in values:
            k = K(x)
            objs.append(k)
            if mapping:
                v = V(x)
                objs.append(v)
                c[k] = v
            else:
                c.add(k)
        for x in deletions:         # carve the shape by deleting
            if mapping:
                del c[K(x)]
            else:
                c.remove(K(x))
        for name, x in probes:
            objs.new(name, K(x) if name.startswith('k') else V(x))
        return c
    return build


def model_of(values, mapping, deletions=()):
    live = sorted(set(values) - set(deletions))
    if mapping:
        return [(x, x) for x in live]
    return live


def with_item(model, mapping, x, val):
    if mapping:
        d = dict(model)
        d[x] = val
        return sorted(d.items())
    return sorted(set(model) | {x})


def without_item(model, mapping, x):
    if mapping:
        return [(k, v) for k, v in model if k != x]
    return [k for k in model if k != x]


def mapping_ops(x, live):
    """(name, probes, op, after(model), result, raises) for probe key x."""
    present = x in live
    ops = []
    ops.append(('get', [('k', x)],
                lambda c, o: raw(c.get(o.named['k'])),
                None, x if present else None, None))
    ops.append(('getitem', [('k', x)],
                lambda c, o: raw(c[o.named['k']]),
                None, x if present else None,
                None if present else KeyError))
    ops.append(('contains', [('k', x)],
                lambda c, o: o.named['k'] in c,
                None, present, None))
    ops.append(('has_key', [('k', x)],
                lambda c, o: bool(c.has_key(o.named['k'])),
                None, present, None))

    def setitem(c, o):
        c[o.named['k']] = o.named['v']
    ops.append(('setitem', [('k', x), ('v', 'new')], setitem,
                lambda m: with_item(m, True, x, 'new'), None, None))

    def delitem(c, o):
        del c[o.named['k']]
    ops.append(('delitem', [('k', x)], delitem,
                (lambda m: without_item(m, True, x)) if present else None,
                None, None if present else KeyError))
    ops.append(('setdefault', [('k', x), ('v', 'dflt')],
                lambda c, o: raw(c.setdefault(o.named['k'], o.named['v'])),
                None if present else
                (lambda m: with_item(m, True, x, 'dflt')),
                x if present else 'dflt', None))
    ops.append(('pop', [('k', x), ('v', 'dflt')],
                lambda c, o: raw(c.pop(o.named['k'], o.named['v'])),
                (lambda m: without_item(m, True, x)) if present else None,
                x if present else 'dflt', None))
    return ops


def tree_only_mapping_ops(x, live):
    present = x in live
    return [('insert', [('k', x), ('v', 'ins')],
             lambda c, o: c.insert(o.named['k'], o.named['v']),
             None if present else (lambda m: with_item(m, True, x, 'ins')),
             0 if present else 1, None)]


def set_ops(x, live):
    present = x in live
    ops = []
    ops.append(('contains', [('k', x)],
                lambda c, o: o.named['k'] in c, None, present, None))
    ops.append(('has_key', [('k', x)],
                lambda c, o: bool(c.has_key(o.named['k'])),
                None, present, None))
    ops.append(('add', [('k', x)],
                lambda c, o: c.add(o.named['k']),
                None if present else (lambda m: with_item(m, False, x, None)),
                0 if present else 1, None))

    def remove(c, o):
        c.remove(o.named['k'])
    ops.append(('remove', [('k', x)], remove,
                (lambda m: without_item(m, False, x)) if present else None,
                None, None if present else KeyError))

    def discard(c, o):
        c.discard(o.named['k'])
    ops.append(('discard', [('k', x)], discard,
                (lambda m: without_item(m, False, x)) if present else None,
                None, None))
    return ops


def range_ops(x, y, live, mapping):
    """Range searches with endpoints x <= y (plain ints)."""
    srt = sorted(live)
    ops = []
    ops.append(('keys(min)', [('k', x)],
                lambda c, o: [k.v for k in c.keys(o.named['k'])],
                None, [k for k in srt if k >= x], None))
    ops.append(('keys(None,max)', [('k', y)],
                lambda c, o: [k.v for k in c.keys(None, o.named['k'])],
                None, [k for k in srt if k <= y], None))
    ops.append(('keys(min,max)', [('k', x), ('k2', y)],
                lambda c, o: [k.v for k in c.keys(o.named['k'],
                                                  o.named['k2'])],
                None, [k for k in srt if x <= k <= y], None))
    ops.append(('keys(min,max,excl)', [('k', x), ('k2', y)],
                lambda c, o: [k.v for k in c.keys(o.named['k'], o.named['k2'],
                                                  True, True)],
                None, [k for k in srt if x < k < y], None))
    ge = [k for k in srt if k >= x]
    ops.append(('minKey', [('k', x)],
                lambda c, o: raw(c.minKey(o.named['k'])),
                None, ge[0] if ge else None, None if ge else ValueError))
    le = [k for k in srt if k <= y]
    ops.append(('maxKey', [('k', y)],
                lambda c, o: raw(c.maxKey(o.named['k'])),
                None, le[-1] if le else None, None if le else ValueError))
    if mapping:
        ops.append(('items(min,max)', [('k', x), ('k2', y)],
                    lambda c, o: [(k.v, v.v) for k, v in
                                  c.items(o.named['k'], o.named['k2'])],
                    None, [(k, k) for k in srt if x <= k <= y], None))
        ops.append(('values(min)', [('k', x)],
                    lambda c, o: [v.v for v in c.values(o.named['k'])],
                    None, [k for k in srt if k >= x], None))
    return ops


def scenarios_for(cls, tag, values, mapping, oplist, deletions=(),
                  persistent=False):
    before = model_of(values, mapping, deletions)
    out = []
    for name, probes, op, after, result, raises in oplist:
        out.append(Scenario(
            "%s %s%r" % (tag, name, tuple(p[1] for p in probes)),
            builder(cls, values, mapping, probes, deletions), op,
            before, after(before) if after else before,
            result=result, raises=raises, persistent=persistent))
    return out


def run_all(scenarios, recorded=None, name=''):
    """Sweep every scenario; compare the comparison counts and the digest of
    the full comparison log with the constants recorded from the unmodified
    code."""
    gc.collect()
    gc.freeze()     # keeps the many gc.collect() calls below cheap
    counts = [sweep(sc) for sc in scenarios]
    digest = trace_digest()
    if '--record' in sys.argv:
        print("RECORDED = %r" % ((sum(counts), RUNS[0], digest),))
    elif recorded is not None:
        check((sum(counts), RUNS[0], digest) == recorded,
              "%s: comparison trace (total %d over %d runs, digest %s) differs"
              " from the recorded one %r"
              % (name, sum(counts), RUNS[0], digest, recorded))
    return counts
# ---------------------------------------------------------------------------
# C14s: BUCKET_SEARCH (BucketTemplate.c) and BTREE_SEARCH
# (BTreeModuleTemplate.c) - every user of the two binary searches (lookup,
# insert, replace, delete, range search) on object-keyed buckets, sets and
# trees, every comparison failed in turn; the exact sequence of comparisons is
# part of the recorded digest.  Integer-keyed instantiations of the same macros
# are checked against a dict model.
# ---------------------------------------------------------------------------
from BTrees.OOBTree import OOBTree, OOBucket, OOSet, OOTreeSet
import BTrees.IIBTree as II
import BTrees.LOBTree as LO
import BTrees.OIBTree as OI
import BTrees.fsBTree as FS


class SmallMap(OOBTree):
    max_leaf_size = 4
    max_internal_size = 3


class SmallSet(OOTreeSet):
    max_leaf_size = 4
    max_internal_size = 3


class WideMap(OOBTree):
    max_leaf_size = 3
    max_internal_size = 9       # wide interior nodes: longer BTREE_SEARCHes


def main():
    scenarios = []
    shapes = [
        # buckets and sets: BUCKET_SEARCH alone
        ('bucket0', OOBucket, [], True, ()),
        ('bucket1', OOBucket, [10], True, ()),
        ('bucket2', OOBucket, [10, 20], True, ()),
        ('bucket3', OOBucket, [10, 20, 30], True, ()),
        ('bucket7', OOBucket, list(range(10, 80, 10)), True, ()),
        ('bucket8', OOBucket, list(range(10, 90, 10)), True, ()),
        ('bucket21', OOBucket, list(range(10, 220, 10)), True, ()),
        ('set0', OOSet, [], False, ()),
        ('set6', OOSet, list(range(10, 70, 10)), False, ()),
        ('set13', OOSet, list(range(10, 140, 10)), False, ()),
        # trees: BTREE_SEARCH at every level, then BUCKET_SEARCH in the leaf
        ('tree1', SmallMap, [10], True, ()),
        ('tree5', SmallMap, [10, 20, 30, 40, 50], True, ()),
        ('tree30', SmallMap, list(range(0, 300, 10)), True,
         (20, 30, 40, 130)),
        ('wide40', WideMap, list(range(0, 400, 10)), True, ()),
        ('treeset30', SmallSet, list(range(0, 300, 10)), False,
         (20, 30, 40, 130)),
        ('big', OOBTree, list(range(0, 900, 10)), True, ()),
    ]
    for tag, cls, values, mapping, deletions in shapes:
        live = set(values) - set(deletions)
        if len(values) > 50:
            probes = [-5, 0, 295, 455, 890, 900]
        elif len(values) > 25:
            probes = sorted(set([-5] + values[::4]
                                + [v + 5 for v in values[::3]]
                                + [50, 60, 140, 150]))
        elif len(values) > 10:
            probes = sorted(set([5] + values[::2]
                                + [v + 5 for v in values[::2]]))
        else:
            probes = sorted(set([5] + values + [v + 5 for v in values]))
        tree = cls not in (OOBucket, OOSet)
        for x in probes:
            if mapping:
                ops = mapping_ops(x, live)
                if tree:
                    ops += tree_only_mapping_ops(x, live)
            else:
                ops = set_ops(x, live)
                if not tree:
                    ops = [o for o in ops if o[0] != 'discard'
                           or hasattr(cls, 'discard')]
            scenarios += scenarios_for(cls, tag, values, mapping, ops,
                                       deletions)
        pairs = [(probes[i], probes[j])
                 for i in range(0, len(probes), 2)
                 for j in range(i, len(probes), 3)]
        for x, y in pairs[:10]:
            scenarios += scenarios_for(cls, tag, values, mapping,
                                       range_ops(x, y, live, mapping),
                                       deletions)
    live = set(range(0, 300, 10)) - {20, 30, 40, 130}
    for x in (-5, 10, 45, 60, 135, 150, 290, 295):
        ops = [o for o in mapping_ops(x, live)
               if o[0] in ('get', 'setitem', 'delitem')]
        scenarios += scenarios_for(SmallMap, 'tree30/jar',
                                   list(range(0, 300, 10)), True, ops,
                                   (20, 30, 40, 130), persistent=True)
        scenarios += scenarios_for(OOBucket, 'bucket8/jar',
                                   list(range(0, 300, 40)), True,
                                   [o for o in mapping_ops(x, set(range(0, 300, 40)))
                                    if o[0] in ('get', 'setitem', 'delitem')],
                                   (), persistent=True)
    run_all(scenarios, RECORDED, 'C14s')
    other_key_types()


def other_key_types():
    """The same macros with scalar / bytes keys (no comparison can fail there):
    random histories against a dict model."""
    import random
    rnd = random.Random(140)
    for name, mod, keyconv in (
            ('II', II, int), ('LO', LO, int),
            ('OI', OI, lambda x: 'k%05d' % x),
            ('fs', FS, lambda x: ('%02d' % (x % 100)).encode())):
        for kind in ('BTree', 'Bucket', 'TreeSet', 'Set'):
            cls = getattr(mod, kind)
            if kind in ('BTree', 'TreeSet'):
                class cls(cls):     # noqa
                    max_leaf_size = 5
                    max_internal_size = 4
            mapping = kind in ('BTree', 'Bucket')
            if name == 'fs':
                val = lambda x: ('%06d' % x).encode()   # noqa
            elif name == 'LO':
                val = lambda x: 'v%d' % x               # noqa
            else:
                val = int
            c = cls()
            model = {}
            for step in range(2500):
                x = rnd.randrange(150)
                k = keyconv(x)
                what = rnd.choice(['set', 'set', 'del', 'get', 'in', 'range',
                                   'min', 'max'])
                if what == 'set':
                    if mapping:
                        c[k] = val(x)
                    else:
                        c.add(k)
                    model[k] = val(x)
                elif what == 'del':
                    try:
                        if mapping:
                            del c[k]
                        else:
                            c.remove(k)
                        check(k in model, "%s%s: deleted a phantom" % (name, kind))
                    except KeyError:
                        check(k not in model, "%s%s: KeyError for a stored "
                                              "key" % (name, kind))
                    model.pop(k, None)
                elif what == 'get':
                    if mapping:
                        check(c.get(k) == model.get(k),
                              "%s%s: get(%r)" % (name, kind, k))
                    else:
                        check(bool(c.has_key(k)) == (k in model),
                              "%s%s: has_key(%r)" % (name, kind, k))
                elif what == 'in':
                    check((k in c) == (k in model),
                          "%s%s: %r in" % (name, kind, k))
                elif what == 'range':
                    k2 = keyconv(min(x + rnd.randrange(40), 149))
                    lo, hi = min(k, k2), max(k, k2)
                    ex1, ex2 = rnd.random() < .3, rnd.random() < .3
                    want = [q for q in sorted(model)
                            if (lo < q if ex1 else lo <= q)
                            and (q < hi if ex2 else q <= hi)]
                    check(list(c.keys(lo, hi, ex1, ex2)) == want,
                          "%s%s: keys(%r, %r, %r, %r)"
                          % (name, kind, lo, hi, ex1, ex2))
                else:
                    srt = sorted(model)
                    if what == 'min':
                        cand = [q for q in srt if q >= k]
                        fn = c.minKey
                        want = cand[0] if cand else None
                    else:
                        cand = [q for q in srt if q <= k]
                        fn = c.maxKey
                        want = cand[-1] if cand else None
                    try:
                        got = fn(k)
                    except ValueError:
                        got = None
                    check(got == want, "%s%s: %sKey(%r) -> %r, model %r"
                          % (name, kind, what, k, got, want))
                if step % 100 == 0:
                    check(list(c.keys()) == sorted(model),
                          "%s%s: contents differ from the model"
                          % (name, kind))
                    if mapping:
                        check(list(c.values()) == [model[q] for q in
                                                   sorted(model)],
                              "%s%s: values differ" % (name, kind))
                    if hasattr(c, '_check'):
                        c._check()
            check(list(c.keys()) == sorted(model),
                  "%s%s: final contents differ from the model" % (name, kind))


RECORDED = (18582, 2358, '9313c2cb87f42fb9d3e819ee514683d9d612b5432fb3f57e9a895b071ae534a2')

if __name__ == '__main__':
    main()
    finish('C14s')
