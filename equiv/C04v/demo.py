#!/usr/bin/env python
"""Differential demo for refactoring C04/v (_base.py: _Tree._set, _Tree._del,
_Tree.__getstate__ and the new module function _note_dependency).

Run as:  PYTHONPATH=<tree>/src /venv/bin/python demo.py

A tiny stand-in data manager ("jar") plays the role of a ZODB connection:
objects register themselves as changed; commit() writes exactly the
registered objects plus the objects newly reachable from them; a fresh
reader loads the written records and must see what the writer saw, in a sound
tree; abort() invalidates the registered objects and the writer must see the
last committed contents again.  Histories are random (fixed seed) and are
checked against a plain dict/set model after every operation.

Everything observable is appended to a trace (results, exception types,
register() calls, loads, written pickles); the sha256 of the trace is compared
with the value recorded on the unmodified tree, so any change of behaviour -
even one the model would tolerate - makes the demo fail.
"""
import gc
import hashlib
import io
import pickle
import random
import sys
import time

from persistent import Persistent
from persistent import PickleCache

import BTrees  # noqa: F401
import BTrees.OOBTree
import BTrees.IOBTree
import BTrees.OIBTree
import BTrees.IIBTree
import BTrees.LLBTree
import BTrees.LFBTree
import BTrees.OLBTree
import BTrees.UUBTree
import BTrees.QOBTree
import BTrees.fsBTree

# ---------------------------------------------------------------------------
# configuration of this demo
# ---------------------------------------------------------------------------
DEMO = 'v'
IMPLS = ('Py',)             # '' = C implementation, 'Py' = pure Python
KINDS = ('BTree', 'TreeSet')
FAMILIES = ('OO', 'IO', 'OI', 'II', 'LL', 'LF', 'OL', 'UU', 'QO', 'fs')
# (leaf, internal); None=default
SIZES = ((2, 2), (3, 2), (2, 4), (4, 3), (6, 4), (None, None))
STEPS = 220
SWEEP = 0.4
BOMB_STEPS = 220
EXPECTED_DIGEST = (
    'bdd4ccefcae6c7e3e9cb96fe287dcad49840d1dc45fda31b550b94fc884f190d')
SEED = 0xC04

START = time.time()


class CheckFailed(Exception):
    pass


def require(cond, *msg):
    if not cond:
        raise CheckFailed(' '.join(str(m) for m in msg))


# ---------------------------------------------------------------------------
# keys whose comparisons can be made to fail at a chosen moment
# ---------------------------------------------------------------------------
class Boom(Exception):
    pass


class Fuse:
    left = -1       # < 0: never fails
    fired = False
    hook = None     # called instead of raising Boom
    benign = False  # the hook does not doom the transaction

    @classmethod
    def tick(cls):
        if cls.left > 0:
            cls.left -= 1
        elif cls.left == 0:
            cls.left = -1
            cls.fired = not (cls.benign and cls.hook is not None)
            if cls.hook is not None:
                hook, cls.hook = cls.hook, None
                hook()
                return
            raise Boom()


class K:
    """Totally ordered key; each rich comparison burns the fuse."""
    __slots__ = ('n',)

    def __init__(self, n):
        self.n = n

    def _n(self, other):
        Fuse.tick()
        if type(other) is not K:
            raise TypeError('K against %s' % type(other).__name__)
        return other.n

    def __lt__(self, other):
        return self.n < self._n(other)

    def __le__(self, other):
        return self.n <= self._n(other)

    def __gt__(self, other):
        return self.n > self._n(other)

    def __ge__(self, other):
        return self.n >= self._n(other)

    def __eq__(self, other):
        if type(other) is not K:
            return NotImplemented
        Fuse.tick()
        return self.n == other.n

    def __ne__(self, other):
        if type(other) is not K:
            return NotImplemented
        Fuse.tick()
        return self.n != other.n

    def __hash__(self):
        return hash(self.n)

    def __reduce__(self):
        return (K, (self.n,))

    def __repr__(self):
        return 'K(%d)' % self.n


# ---------------------------------------------------------------------------
# stand-in storage / data manager
# ---------------------------------------------------------------------------
class InjectedLoadError(Exception):
    pass


class Storage:
    def __init__(self):
        self.records = {}
        self.classes = {}
        self.counter = 0

    def new_oid(self):
        self.counter += 1
        return self.counter.to_bytes(8, 'big')


class Jar:
    def __init__(self, storage, trace):
        self.storage = storage
        self.trace = trace
        self.cache = PickleCache(self)
        self.registered = []
        self.fail = ()
        self.fail_register = 0  # n > 0: the n-th register() call fails
        self.two_phase = True

    # -- the interface persistent objects talk to
    def register(self, obj):
        if self.fail_register > 0:
            self.fail_register -= 1
            if self.fail_register == 0:
                self.trace.append(('registerfail', type(obj).__name__,
                                   obj._p_oid))
                Fuse.fired = True
                raise InjectedLoadError('register')
        self.trace.append(('register', type(obj).__name__, obj._p_oid))
        self.registered.append(obj)

    def readCurrent(self, obj):
        self.trace.append(('readCurrent', obj._p_oid))

    def setstate(self, obj):
        oid = obj._p_oid
        if oid in self.fail:
            self.trace.append(('loadfail', oid))
            Fuse.fired = True
            raise InjectedLoadError(oid)
        self.trace.append(('load', oid))
        obj.__setstate__(self._loads(self.storage.records[oid]))

    # -- helpers
    def _adopt(self, obj):
        oid = self.storage.new_oid()
        obj._p_jar = self
        obj._p_oid = oid
        self.cache[oid] = obj
        return oid

    def add(self, obj):
        self._adopt(obj)
        self.registered.append(obj)

    def get(self, oid):
        obj = self.cache.get(oid)
        if obj is None:
            cls = self.storage.classes[oid]
            obj = cls.__new__(cls)
            self.cache.new_ghost(oid, obj)
        return obj

    def _dumps(self, state, queue):
        f = io.BytesIO()
        p = pickle.Pickler(f, 3)

        def persistent_id(sub):
            if isinstance(sub, Persistent):
                if sub._p_oid is None:
                    self._adopt(sub)
                    queue.append(sub)
                require(sub._p_jar is self, 'foreign jar')
                return sub._p_oid
            return None
        p.persistent_id = persistent_id
        p.dump(state)
        return f.getvalue()

    def _loads(self, data):
        u = pickle.Unpickler(io.BytesIO(data))
        u.persistent_load = self.get
        return u.load()

    def commit(self):
        """Write the registered objects and what is newly reachable.

        Like a real connection, an object first seen while pickling gets its
        oid on the spot.  With ``two_phase`` every newly reachable object is
        given its oid before any record is written, so that the records do
        not depend on the order in which the objects are pickled.
        """
        queue = list(self.registered)
        self.registered = []
        if self.two_phase:
            i = 0
            while i < len(queue):
                self._dumps(queue[i].__getstate__(), queue)
                i += 1
        done = set()
        i = 0
        while i < len(queue):
            obj = queue[i]
            i += 1
            if id(obj) in done:
                continue
            done.add(id(obj))
            n = len(queue)
            data = self._dumps(obj.__getstate__(), queue)
            require(not self.two_phase or n == len(queue), 'late new object')
            self.storage.records[obj._p_oid] = data
            self.storage.classes[obj._p_oid] = type(obj)
            self.trace.append(('store', obj._p_oid, type(obj).__name__, data))
        for obj in queue:
            obj._p_changed = False
        require(not self.registered, 'register() during commit')

    def abort(self, doomed=False):
        registered = self.registered
        self.registered = []
        if doomed:
            # after a failure in the middle of an operation an object may
            # have been modified without having been registered (that is
            # what a failing register() means): drop everything loaded
            registered = [obj for oid, obj in sorted(self.cache.items())]
        for obj in registered:
            require(obj._p_oid in self.storage.records, 'unsaved registered')
            obj._p_invalidate()
        require(not self.registered, 'register() during abort')

    def shrink(self):
        """Turn every unmodified object into a ghost."""
        self.cache.minimize()


# ---------------------------------------------------------------------------
# soundness of a stored tree, through the public state
# ---------------------------------------------------------------------------
def leaf_keys(bucket, is_map):
    state = bucket.__getstate__()
    data = state[0]
    return list(data[::2]) if is_map else list(data)


def check_sound(root, is_map, is_tree, cmpkey):
    """Walk the structure; return the list of keys (in chain order)."""
    if not is_tree:
        keys = leaf_keys(root, is_map)
        for a, b in zip(keys, keys[1:]):
            require(cmpkey(a) < cmpkey(b), 'unsorted leaf')
        require(len(root.__getstate__()) == 1, 'root leaf has next')
        return keys
    treetype = type(root)
    leaves = []

    def walk(node, lo, hi):
        state = node.__getstate__()
        if state is None:
            require(node is root, 'empty interior node')
            return None
        if len(state) == 1:
            require(node is root, 'embedded leaf below root')
            ((bstate,),) = state
            require(len(bstate) == 1, 'embedded leaf has next')
            data = bstate[0]
            keys = list(data[::2]) if is_map else list(data)
            require(keys, 'embedded leaf empty')
            leaves.append((None, keys, lo, hi))
            return None
        items, first = state
        require(len(items) % 2 == 1, 'even items')
        children = items[::2]
        seps = items[1::2]
        bounds = [lo] + list(seps) + [hi]
        for a, b in zip(seps, seps[1:]):
            require(cmpkey(a) < cmpkey(b), 'unsorted separators')
        myfirst = None
        for i, child in enumerate(children):
            if type(child) is treetype:
                f = walk(child, bounds[i], bounds[i + 1])
            else:
                keys = leaf_keys(child, is_map)
                require(keys, 'empty leaf in tree')
                leaves.append((child, keys, bounds[i], bounds[i + 1]))
                f = child
            if i == 0:
                myfirst = f
        require(first is myfirst, 'firstbucket wrong')
        return first

    walk(root, None, None)
    allkeys = []
    for n, (leaf, keys, lo, hi) in enumerate(leaves):
        for a, b in zip(keys, keys[1:]):
            require(cmpkey(a) < cmpkey(b), 'unsorted leaf')
        if lo is not None:
            require(cmpkey(lo) <= cmpkey(keys[0]), 'key below separator')
        if hi is not None:
            require(cmpkey(keys[-1]) < cmpkey(hi), 'key above separator')
        if leaf is not None:
            st = leaf.__getstate__()
            if n + 1 < len(leaves):
                require(len(st) == 2 and st[1] is leaves[n + 1][0],
                        'broken leaf chain')
            else:
                require(len(st) == 1, 'last leaf has next')
        allkeys.extend(keys)
    if hasattr(root, '_check'):
        root._check()
    return allkeys


# ---------------------------------------------------------------------------
# families
# ---------------------------------------------------------------------------
def fs_key(n):
    return bytes([65 + n // 26 % 26, 65 + n % 26])


def fs_val(n):
    return (b'%06d' % (n % 1000000))


class Family:
    def __init__(self, prefix, rng):
        self.prefix = prefix
        self.rng = rng
        self.module = getattr(BTrees, prefix + 'BTree')
        kt, vt = prefix[0], prefix[1]
        self.kt, self.vt = kt, vt
        self.objkeys = kt == 'O'
        # shared key/value objects, to watch their reference counts
        self.kpool = [K(n) for n in range(80)]
        self.vpool = [('v', n) for n in range(101)]

    def pooled(self):
        return self.kpool + self.vpool

    def cmpkey(self, k):
        return k.n if type(k) is K else k

    def key(self, n, bomb=False):
        if self.prefix == 'fs':
            return fs_key(n)
        if self.kt == 'O':
            return self.kpool[n] if bomb else n * 3 - 40
        if self.kt in 'UQ':
            return n * 7
        return n * 5 - 60

    def value(self, n):
        if self.prefix == 'fs':
            return fs_val(n)
        if self.vt == 'O':
            return self.vpool[n] if n % 3 else None
        if self.vt == 'F':
            return n * 0.5 - 8
        if self.vt in 'UQ':
            return n
        return n - 50

    def bad_keys(self):
        if self.prefix == 'fs':
            return [(b'abc', TypeError), (7, TypeError), ('ab', TypeError)]
        if self.kt == 'O':
            return [(object(), TypeError)]
        if self.kt == 'I':
            return [('x', TypeError), (2 ** 40, (TypeError, OverflowError)),
                    (1.5, TypeError)]
        if self.kt == 'L':
            return [('x', TypeError), (2 ** 70, (TypeError, OverflowError))]
        if self.kt == 'U':
            return [('x', TypeError), (-1, (TypeError, OverflowError)),
                    (2 ** 33, (TypeError, OverflowError))]
        if self.kt == 'Q':
            return [('x', TypeError), (-1, (TypeError, OverflowError))]
        raise AssertionError(self.kt)

    def bad_values(self):
        if self.prefix == 'fs':
            return [(b'abc', TypeError), (7, TypeError)]
        if self.vt == 'O':
            return []
        if self.vt == 'I':
            return [('x', TypeError), (2 ** 40, (TypeError, OverflowError))]
        if self.vt == 'L':
            return [('x', TypeError), (2 ** 70, (TypeError, OverflowError))]
        if self.vt == 'F':
            return [('x', TypeError), (None, TypeError)]
        if self.vt == 'U':
            return [('x', TypeError), (-1, (TypeError, OverflowError))]
        raise AssertionError(self.vt)


# ---------------------------------------------------------------------------
# one history
# ---------------------------------------------------------------------------
class History:
    def __init__(self, fam, kind, impl, sizes, rng, trace, bomb):
        self.fam = fam
        self.kind = kind
        self.rng = rng
        self.trace = trace
        self.bomb = bomb
        self.impl = impl
        self.is_map = kind in ('Bucket', 'BTree')
        self.is_tree = kind in ('BTree', 'TreeSet')
        name = fam.prefix + kind + impl
        base = getattr(fam.module, name)
        leaf, internal = sizes
        if self.is_tree and leaf is not None:
            cls = type(base)('Small_%s_%d_%d' % (name, leaf, internal),
                             (base,), {'max_leaf_size': leaf,
                                       'max_internal_size': internal})
        else:
            cls = base
        self.cls = cls
        self.label = '%s%s' % (name, sizes if self.is_tree else '')
        self.storage = Storage()
        self.jar = Jar(self.storage, trace)
        self.obj = cls()
        self.jar.add(self.obj)
        self.root_oid = self.obj._p_oid
        self.model = {}
        self.jar.commit()
        self.committed = {}
        self.nkeys = 48 if self.is_tree else 40
        self.grow = True

    # -- observation
    def contents(self, obj):
        if self.is_map:
            return list(obj.items())
        return list(obj.keys())

    def expected(self, model):
        ks = sorted(model, key=self.fam.cmpkey)
        if self.is_map:
            return [(k, model[k]) for k in ks]
        return ks

    def same(self, got, model, what):
        exp = self.expected(model)
        ck = self.fam.cmpkey
        if self.is_map:
            g = [(ck(k), v) for k, v in got]
            e = [(ck(k), v) for k, v in exp]
        else:
            g = [ck(k) for k in got]
            e = [ck(k) for k in exp]
        require(g == e, self.label, what, 'got', g, 'expected', e)

    def check_writer(self, what):
        self.same(self.contents(self.obj), self.model, what)
        require(len(self.obj) == len(self.model), self.label, what, 'len')

    def check_reader(self):
        jar = Jar(self.storage, [])
        root = jar.get(self.root_oid)
        self.same(self.contents(root), self.committed, 'reader')
        keys = check_sound(root, self.is_map, self.is_tree, self.fam.cmpkey)
        ck = self.fam.cmpkey
        require([ck(k) for k in keys] ==
                sorted(ck(k) for k in self.committed),
                self.label, 'reader chain keys')
        require(not jar.registered, 'reader registered something')

    # -- transactions
    def commit(self):
        self.trace.append(('commit',))
        self.jar.commit()
        self.committed = dict(self.model)
        self.check_reader()
        self.check_writer('after commit')

    def abort(self, doomed=False):
        self.trace.append(('abort', doomed))
        self.disarm()
        self.jar.abort(doomed)
        self.model = dict(self.committed)
        self.check_writer('after abort')

    # -- operations
    def find(self, k):
        ck = self.fam.cmpkey(k)
        for mk in self.model:
            if self.fam.cmpkey(mk) == ck:
                return mk
        return None

    def op(self):
        rng = self.rng
        fam = self.fam
        obj = self.obj
        n = rng.randrange(self.nkeys)
        k = fam.key(n, self.bomb)
        mk = self.find(k)
        present = mk is not None
        v = fam.value(rng.randrange(100))
        r = rng.random()
        if self.grow and rng.random() < 0.6:
            r *= 0.3            # an insertion
        keyerror = False
        if self.is_map:
            if r < 0.34:
                name, call = 'setitem', lambda: obj.__setitem__(k, v)

                def apply(res):
                    require(res is None, 'setitem result')
                    self.model[mk if present else k] = v
            elif r < 0.58:
                name, call = 'delitem', lambda: obj.__delitem__(k)
                keyerror = not present

                def apply(res):
                    require(present and res is None, 'delitem result')
                    del self.model[mk]
            elif r < 0.66:
                name, call = 'pop', lambda: obj.pop(k, 'dflt')

                def apply(res):
                    if present:
                        require(res == self.model.pop(mk), 'pop result')
                    else:
                        require(res == 'dflt', 'pop default')
            elif r < 0.74:
                name, call = 'setdefault', lambda: obj.setdefault(k, v)

                def apply(res):
                    if present:
                        require(res == self.model[mk], 'setdefault old')
                    else:
                        require(res == v, 'setdefault new')
                        self.model[k] = v
            elif r < 0.80 and self.is_tree:
                name, call = 'insert', lambda: obj.insert(k, v)

                def apply(res):
                    require(res == (0 if present else 1), 'insert result')
                    if not present:
                        self.model[k] = v
            elif r < 0.88:
                ns = [rng.randrange(self.nkeys) for _ in range(4)]
                pairs = [(fam.key(i, self.bomb), fam.value(i + 1))
                         for i in ns]
                name, call = 'update', lambda: obj.update(pairs)

                def apply(res):
                    require(res is None, 'update result')
                    for pk, pv in pairs:
                        old = self.find(pk)
                        self.model[pk if old is None else old] = pv
            elif r < 0.93:
                name, call = 'same-value', None
                if present:
                    same = self.model[mk]
                    call = lambda: obj.__setitem__(k, same)  # noqa: E731

                    def apply(res):
                        require(res is None, 'setitem result')
                else:
                    return
            elif r < 0.94:
                name, call = 'clear', lambda: obj.clear()

                def apply(res):
                    require(res is None, 'clear result')
                    self.model.clear()
            else:
                name, call = 'popitem', lambda: obj.popitem()
                keyerror = not self.model

                def apply(res):
                    require(self.model, 'popitem on empty succeeded')
                    first = min(self.model, key=fam.cmpkey)
                    require(fam.cmpkey(res[0]) == fam.cmpkey(first) and
                            res[1] == self.model.pop(first), 'popitem')
        else:
            if r < 0.40:
                meth = 'insert' if rng.random() < 0.5 else 'add'
                name, call = meth, lambda: getattr(obj, meth)(k)

                def apply(res):
                    require(res == (0 if present else 1), 'add result', res)
                    if not present:
                        self.model[k] = None
            elif r < 0.70:
                name, call = 'remove', lambda: obj.remove(k)
                keyerror = not present

                def apply(res):
                    require(present and res is None, 'remove result')
                    del self.model[mk]
            elif r < 0.80:
                name, call = 'discard', lambda: obj.discard(k)

                def apply(res):
                    require(res is None, 'discard result')
                    if present:
                        del self.model[mk]
            elif r < 0.90:
                ns = [rng.randrange(self.nkeys) for _ in range(4)]
                ks = [fam.key(i, self.bomb) for i in ns]
                name, call = 'update', lambda: obj.update(ks)

                def apply(res):
                    added = 0
                    for pk in ks:
                        if self.find(pk) is None:
                            self.model[pk] = None
                            added += 1
                    require(res in (None, added), 'update result', res)
            elif r < 0.99:
                name, call = 'pop', lambda: obj.pop()
                keyerror = not self.model

                def apply(res):
                    require(self.model, 'pop on empty succeeded')
                    first = min(self.model, key=fam.cmpkey)
                    require(fam.cmpkey(res) == fam.cmpkey(first), 'pop')
                    del self.model[first]
            else:
                name, call = 'clear', lambda: obj.clear()

                def apply(res):
                    require(res is None, 'clear result')
                    self.model.clear()
        self.run(name, call, apply, keyerror)

    def disarm(self):
        fired = Fuse.fired
        Fuse.fired = False
        Fuse.left = -1
        Fuse.hook = None
        Fuse.benign = False
        self.jar.fail = ()
        self.jar.fail_register = 0
        return fired

    def run(self, name, call, apply, keyerror=False):
        """Run one operation; *keyerror* says whether the model expects a
        KeyError (nothing may change then)."""
        Fuse.fired = False
        try:
            res = call()
        except BaseException as e:
            outcome = (type(e).__name__,)
            exc = e
        else:
            outcome = ('ok', repr(res))
            exc = None
        self.trace.append((name,) + outcome)
        if self.disarm():
            # An injected failure (comparison or load) happened inside the
            # operation.  Whatever came out of it (some callers replace the
            # error by another one), the in-memory structure may be
            # half-modified: the transaction is doomed, as in a real
            # application.
            self.abort(True)
            return
        if exc is not None:
            if not (isinstance(exc, KeyError) and keyerror):
                raise exc
            self.check_writer(name + ' KeyError')
            return
        require(not keyerror, self.label, name, 'expected KeyError')
        try:
            apply(res)
        except CheckFailed as e:
            raise CheckFailed(self.label, name, *e.args)
        self.check_writer(name)

    def bad_op(self):
        """Operations that must fail without changing anything."""
        rng = self.rng
        fam = self.fam
        obj = self.obj
        cases = []
        for bk, exc in fam.bad_keys():
            if self.is_map:
                v = fam.value(1)
                cases.append(('badkey-set', exc,
                              lambda bk=bk: obj.__setitem__(bk, v)))
                cases.append(('badkey-del', (KeyError,) + (
                    exc if isinstance(exc, tuple) else (exc,)),
                    lambda bk=bk: obj.__delitem__(bk)))
            else:
                cases.append(('badkey-add', exc,
                              lambda bk=bk: obj.add(bk)))
                cases.append(('badkey-remove', (KeyError,) + (
                    exc if isinstance(exc, tuple) else (exc,)),
                    lambda bk=bk: obj.remove(bk)))
        if self.is_map:
            for bv, exc in fam.bad_values():
                k_new = fam.key(self.nkeys + 5)
                cases.append(('badvalue-new', exc,
                              lambda bv=bv: obj.__setitem__(k_new, bv)))
                if self.model and not self.bomb:
                    k_old = rng.choice(sorted(self.model,
                                              key=fam.cmpkey))
                    cases.append(('badvalue-old', exc,
                                  lambda bv=bv: obj.__setitem__(k_old, bv)))
            missing = fam.key(self.nkeys + 7, self.bomb)
            cases.append(('del-missing', KeyError,
                          lambda: obj.__delitem__(missing)))
        else:
            missing = fam.key(self.nkeys + 7, self.bomb)
            cases.append(('remove-missing', KeyError,
                          lambda: obj.remove(missing)))
        name, exc, call = rng.choice(cases)
        nreg = len(self.jar.registered)
        Fuse.fired = False
        try:
            call()
        except BaseException as e:
            err = e
        else:
            err = None
        self.trace.append((name, type(err).__name__))
        if self.disarm():
            self.abort(True)
            return
        if err is None:
            raise CheckFailed(self.label, name, 'did not fail')
        if not isinstance(err, exc):
            raise err
        self.check_writer(name)
        self.trace.append(('registered', len(self.jar.registered) - nreg))

    def step(self, i):
        rng = self.rng
        r = rng.random()
        self.grow = (i // 30) % 2 == 0
        if self.bomb and rng.random() < 0.35:
            Fuse.left = rng.randrange(0, 14)
            if rng.random() < SWEEP:
                # not a failure: the comparison sweeps the object cache, so
                # that every unmodified object that is not in use becomes a
                # ghost in the middle of the operation
                # (The C nodes in use are pinned and the operation must
                # simply succeed.  The pure-Python nodes are not pinned and
                # the unmodified _Tree._set is known to lose the update
                # then, so there the transaction is given up, like after
                # any other injected failure.)
                Fuse.hook = self.jar.shrink
                Fuse.benign = self.impl == ''
        if rng.random() < 0.10 and self.storage.counter > 1:
            # a record that cannot be loaded, while everything is a ghost
            self.jar.shrink()
            oid = rng.randrange(1, self.storage.counter + 1)
            self.jar.fail = (oid.to_bytes(8, 'big'),)
        if rng.random() < 0.06:
            # the data manager refuses a registration
            self.jar.fail_register = rng.randrange(1, 4)
        if r < 0.12:
            self.bad_op()
        else:
            self.op()
        self.disarm()
        r = rng.random()
        if r < 0.30:
            self.commit()
            if rng.random() < 0.5:
                self.jar.shrink()
        elif r < 0.40:
            self.abort()
        elif r < 0.45:
            self.jar.shrink()
            self.check_writer('after shrink')

    def play(self, steps):
        self.trace.append(('history', self.label, self.bomb))
        for i in range(steps):
            self.step(i)
        self.commit()
        # drain: delete everything (from the front, from the back, or in
        # random order), committing now and then
        order = sorted(self.model, key=self.fam.cmpkey)
        how = self.rng.randrange(3)
        if how == 1:
            order.reverse()
        elif how == 2:
            self.rng.shuffle(order)
        for mk in order:
            if self.is_map:
                self.run('drain', lambda: self.obj.__delitem__(mk),
                         lambda res: self.model.pop(mk))
            else:
                self.run('drain', lambda: self.obj.remove(mk),
                         lambda res: self.model.pop(mk))
            if self.rng.random() < 0.5:
                self.commit()
        self.commit()
        require(not self.model, 'drained')


def sabotage(trace, rng):
    """C trees cache the node sizes of their class.  Clear the caches and
    spoil the class attribute in the middle of an insertion (from a key
    comparison): depending on the moment, the insertion fails before or
    after the leaf was modified.  Whatever happens, an abort must bring the
    committed contents back.
    """
    n = 0
    for prefix, kind in (('OO', 'BTree'), ('OO', 'TreeSet'), ('OI', 'BTree')):
        fam = Family(prefix, rng)
        for attr in ('max_leaf_size', 'max_internal_size'):
            for fuse in range(14):
                h = History(fam, kind, '', (3, 3), rng, trace, True)
                trace.append(('sabotage', h.label, attr, fuse))
                for i in range(0, 44, 2):
                    k = fam.key(i, True)
                    if h.is_map:
                        h.obj[k] = fam.value(i)
                    else:
                        h.obj.add(k)
                    h.model[k] = fam.value(i) if h.is_map else None
                h.commit()
                k = fam.key(rng.randrange(1, 44, 2), True)
                v = fam.value(7)
                cls, jar = h.cls, h.jar
                good = getattr(cls, attr)

                def hook():
                    setattr(cls, attr, 0)
                    for oid, o in sorted(jar.cache.items()):
                        o._p_deactivate()

                Fuse.hook = hook
                Fuse.left = fuse
                try:
                    if h.is_map:
                        h.run('sabotaged', lambda: h.obj.__setitem__(k, v),
                              lambda res: h.model.__setitem__(k, v))
                    else:
                        h.run('sabotaged', lambda: h.obj.add(k),
                              lambda res: h.model.__setitem__(k, None))
                finally:
                    setattr(cls, attr, good)
                h.commit()
                n += 1
    return n


def main():
    rng = random.Random(SEED)
    trace = []
    nhist = 0
    if DEMO == 'u':
        nhist += sabotage(trace, rng)
    for prefix in FAMILIES:
        fam = Family(prefix, rng)
        for impl in IMPLS:
            for kind in KINDS:
                sizes = SIZES if kind in ('BTree', 'TreeSet') else ((0, 0),)
                for sz in sizes:
                    for bomb in (False, True) if fam.objkeys else (False,):
                        gc.collect()
                        before = [sys.getrefcount(o) for o in fam.pooled()]
                        h = History(fam, kind, impl, sz, rng, trace, bomb)
                        h.play(BOMB_STEPS if bomb else STEPS)
                        label = h.label
                        del h
                        gc.collect()
                        after = [sys.getrefcount(o) for o in fam.pooled()]
                        require(before == after, label,
                                'reference counts of keys/values changed',
                                [(o, a - b) for o, a, b in
                                 zip(fam.pooled(), after, before) if a != b])
                        nhist += 1
    digest = hashlib.sha256(repr(trace).encode()).hexdigest()
    print('BTrees from', BTrees.__file__)
    print('histories', nhist, 'trace events', len(trace),
          'seconds %.1f' % (time.time() - START))
    kinds = {}
    for ev in trace:
        if ev[0] in ('loadfail', 'registerfail', 'register', 'store',
                     'commit', 'abort', 'load'):
            kinds[ev[0]] = kinds.get(ev[0], 0) + 1
        elif len(ev) > 1 and ev[1] in ('Boom', 'KeyError', 'TypeError',
                                       'OverflowError'):
            kinds[ev[1]] = kinds.get(ev[1], 0) + 1
    print('events', sorted(kinds.items()))
    print('trace digest', digest)
    if EXPECTED_DIGEST is not None and digest != EXPECTED_DIGEST:
        print('FAIL: trace differs from the one recorded on the '
              'unmodified tree', EXPECTED_DIGEST)
        return 1
    print('OK')
    return 0


if __name__ == '__main__':
    try:
        sys.exit(main())
    except CheckFailed as e:
        print('FAIL:', *e.args)
        sys.exit(1)
