"""C10q - demo for "single clean-up exit / while loop in the sort-a-copy path of
initSetIteration; negated tests in nextGenericKeyIter; merged None test in
union_m / intersection_m" (src/BTrees/SetOpTemplate.c).

Touched paths and how they are exercised here:
 * initSetIteration, arbitrary-iterable branch: every list / tuple /
   generator / frozenset / dict operand of union, intersection, difference,
   multiunion and of the binary operators; `extra_checks` below enumerates
   *all* lists over a 4-letter alphabet up to length 6 (every layout of
   duplicates: none, leading, trailing, runs in the middle, all equal), so
   the k / last bookkeeping of the duplicate-squeezing loop is covered
   exhaustively on small inputs, with int and with object keys;
 * its error exits: PySequence_List failure (iterable raising at start and
   midway), PyList_Sort failure (unorderable items, `<` raising),
   PyObject_RichCompareBool failure (`==` raising), each also in the
   reference-count section (the temporary list must be released and the
   caller's keys left with their original counts);
 * nextGenericKeyIter: end of iteration, key of the wrong type at the
   first / a middle / the last position (C, non-object keys), out-of-range
   integers, and normal advance with object keys (INCREF/DECREF_KEY);
 * union_m / intersection_m: None in either or both positions, identity
   and reference count of the returned operand.

Equivalence demonstration for property C10 (set operations).

Run as:  PYTHONPATH=<worktree>/src /venv/bin/python demo.py

Checks union / intersection / difference (module functions, the |, &, -, ^
operators and their in-place forms, plus the weighted and multiunion
relatives that share the same C merge loop) against a reference model built
on Python's builtin ``set`` / ``dict``, for every BTrees family, for the C and
the pure-Python implementation, for every operand kind (Set, TreeSet, Bucket,
BTree, unsorted list with duplicates, tuple, generator, frozenset, dict) and
for a collection of key patterns (empty, single, multi-leaf, disjoint,
overlapping, equal, nested, random interleavings, key extremes).

Beyond the mathematical result it checks: exact result class, sortedness,
pickled state, that non-target operands are unchanged (contents, pickled
state and no persistence ``register`` notification), identity of in-place
results, None handling, the error paths (exception classes) and that
reference counts of keys/operands return to their initial value.

Exit status 0 iff every check passed.
"""
import gc
import itertools
import pickle
import random
import sys

import BTrees
from BTrees import _base

FAILURES = []
NCHECKS = [0]


def check(cond, *msg):
    NCHECKS[0] += 1
    if not cond:
        FAILURES.append(' '.join(str(m) for m in msg))
        if len(FAILURES) > 40:
            finish()


def finish():
    for f in FAILURES[:40]:
        print('FAIL:', f)
    print('%d checks, %d failures' % (NCHECKS[0], len(FAILURES)))
    sys.exit(1 if FAILURES else 0)


# --------------------------------------------------------------------------
# families
# --------------------------------------------------------------------------

FAMILIES = ['OO', 'OI', 'OL', 'OU', 'OQ',
            'IO', 'II', 'IF', 'IU',
            'LO', 'LL', 'LF', 'LQ',
            'UO', 'UU', 'UF', 'UI',
            'QO', 'QQ', 'QF', 'QL',
            'fs']

INT_RANGES = {
    'I': (-2 ** 31, 2 ** 31 - 1),
    'L': (-2 ** 63, 2 ** 63 - 1),
    'U': (0, 2 ** 32 - 1),
    'Q': (0, 2 ** 64 - 1),
}


class Jar:
    """Minimal data manager: records persistence notifications."""

    def __init__(self):
        self.registered = []

    def register(self, obj):
        self.registered.append(obj)

    def readCurrent(self, obj):
        pass

    def setstate(self, obj):  # pragma: no cover - never ghosts
        raise AssertionError('unexpected ghost load')


_oid_counter = itertools.count(1)


def attach_jar(obj):
    jar = Jar()
    obj._p_jar = jar
    obj._p_oid = next(_oid_counter).to_bytes(8, 'big')
    return jar


class Family:
    def __init__(self, prefix, impl):
        self.prefix = prefix
        self.impl = impl
        self.mod = getattr(BTrees, prefix + 'BTree')
        sfx = 'Py' if impl == 'py' else ''
        self.Set = getattr(self.mod, prefix + 'Set' + sfx)
        self.TreeSet = getattr(self.mod, prefix + 'TreeSet' + sfx)
        self.Bucket = getattr(self.mod, prefix + 'Bucket' + sfx)
        self.BTree = getattr(self.mod, prefix + 'BTree' + sfx)
        if impl == 'c':
            assert self.Set is not getattr(self.mod, prefix + 'SetPy'), \
                'C extension for %s not importable' % prefix
            cmod = __import__('BTrees._%sBTree' % prefix, fromlist=['x'])
            get = lambda n: getattr(cmod, n, None)
        else:
            get = lambda n: getattr(self.mod, n + 'Py', None)
        self.union = get('union')
        self.intersection = get('intersection')
        self.difference = get('difference')
        self.weightedUnion = get('weightedUnion')
        self.weightedIntersection = get('weightedIntersection')
        self.multiunion = get('multiunion')
        self.ktype = prefix[0]
        self.vtype = prefix[1]

    def __repr__(self):
        return '%s/%s' % (self.prefix, self.impl)

    # key universe: a sorted list of distinct keys; patterns index into it.
    def universe(self, n):
        k = self.ktype
        if k == 'O':
            return list(range(-n // 2, n - n // 2))
        if k == 'f':
            assert n <= 256 * 256
            return sorted(bytes([i // 200 + 65, i % 200 + 33])
                          for i in range(n))
        lo, hi = INT_RANGES[k]
        mid = list(range(max(lo, -n // 2), max(lo, -n // 2) + n - 6))
        ext = [lo, lo + 1, lo + 2, hi - 2, hi - 1, hi]
        return sorted(set(mid + ext))

    def value(self, key, salt=0):
        v = self.vtype
        h = (hash(key) * 7 + salt) % 1000
        if v == 'O':
            return ('v', h)
        if v == 's':
            return (b'%06d' % h)
        if v == 'F':
            return float(h) / 4
        return h  # integer values, all ranges admit 0..999


def all_families():
    for prefix in FAMILIES:
        for impl in ('c', 'py'):
            yield Family(prefix, impl)


# --------------------------------------------------------------------------
# operand construction
# --------------------------------------------------------------------------

BT_KINDS = ('Set', 'TreeSet', 'Bucket', 'BTree')
IT_KINDS = ('list', 'tuple', 'gen', 'frozenset', 'dict')
ALL_KINDS = BT_KINDS + IT_KINDS


def make(fam, kind, keys, rng, salt=0):
    """Return (operand, model) where model is a dict key->value (value None
    for value-less operands)."""
    keys = list(keys)
    if kind in ('Set', 'TreeSet'):
        shuffled = keys[:]
        rng.shuffle(shuffled)
        return getattr(fam, kind)(shuffled), dict.fromkeys(keys)
    if kind in ('Bucket', 'BTree'):
        model = {k: fam.value(k, salt) for k in keys}
        obj = getattr(fam, kind)()
        items = list(model.items())
        rng.shuffle(items)
        for k, v in items:
            obj[k] = v
        return obj, model
    # arbitrary iterables: unsorted, with duplicates
    noisy = keys + [k for k in keys if rng.random() < 0.4]
    rng.shuffle(noisy)
    model = dict.fromkeys(keys)
    if kind == 'list':
        return noisy, model
    if kind == 'tuple':
        return tuple(noisy), model
    if kind == 'gen':
        return (k for k in noisy), model
    if kind == 'frozenset':
        return frozenset(noisy), model
    if kind == 'dict':
        return {k: 'ignored' for k in noisy}, model
    raise AssertionError(kind)


def snapshot(obj, kind):
    """Everything observable about an operand that must not change."""
    if kind in BT_KINDS:
        return (type(obj), list(obj.keys()),
                list(obj.values()) if kind in ('Bucket', 'BTree') else None,
                obj.__getstate__() if kind in ('Set', 'Bucket') else
                pickle.dumps(obj.__getstate__(), 2),
                len(obj))
    if kind == 'gen':
        return None  # consumed by design
    if kind == 'dict':
        return (type(obj), list(obj.items()))
    return (type(obj), list(obj) if kind != 'frozenset' else obj)


def expect_set(fam, res, keys, what):
    keys = sorted(keys)
    check(type(res) is fam.Set, what, 'result type', type(res))
    check(list(res) == keys, what, 'keys', list(res)[:8], 'expected',
          keys[:8], len(res), len(keys))
    check(len(res) == len(keys), what, 'len')
    if type(res) is fam.Set:
        state = res.__getstate__()
        check(state == ((tuple(keys),) if keys else None) or
              state == (tuple(keys),), what, 'state', state)
        check(pickle.dumps(res, 2) == pickle.dumps(fam.Set(keys), 2),
              what, 'pickle')
        check(res._p_changed in (False, None, 0) and res._p_jar is None,
              what, 'fresh result persistence state')


def expect_bucket(fam, res, model, what):
    keys = sorted(model)
    check(type(res) is fam.Bucket, what, 'result type', type(res))
    check(list(res.keys()) == keys, what, 'keys')
    check(list(res.values()) == [model[k] for k in keys], what, 'values',
          list(res.values())[:5], [model[k] for k in keys][:5])
    if type(res) is fam.Bucket:
        ref = fam.Bucket()
        for k in keys:
            ref[k] = model[k]
        check(res.__getstate__() == ref.__getstate__(), what, 'state')
        check(pickle.dumps(res, 2) == pickle.dumps(ref, 2), what, 'pickle')


# --------------------------------------------------------------------------
# key patterns
# --------------------------------------------------------------------------

def patterns(fam, rng, big):
    """Yield (name, keysA, keysB) over a key universe."""
    u = fam.universe(big)
    n = len(u)
    small = u[n // 2 - 5:n // 2 + 5]
    yield 'empty-empty', [], []
    yield 'empty-single', [], [u[3]]
    yield 'single-empty', [u[3]], []
    yield 'single-same', [u[4]], [u[4]]
    yield 'single-diff', [u[4]], [u[5]]
    yield 'empty-multi', [], u
    yield 'multi-empty', u, []
    yield 'equal-multi', u, u
    yield 'disjoint-lohi', u[:n // 2], u[n // 2:]
    yield 'disjoint-hilo', u[n // 2:], u[:n // 2]
    yield 'interleaved', u[0::2], u[1::2]
    yield 'overlap', u[:2 * n // 3], u[n // 3:]
    yield 'nested', u, u[n // 4: n // 2]
    yield 'nested-rev', u[n // 4: n // 2], u
    yield 'extremes', [u[0], u[-1]], [u[0], u[1], u[-2], u[-1]]
    yield 'small-overlap', small[:7], small[3:]
    for r in range(3):
        a = [k for k in u if rng.random() < 0.5]
        b = [k for k in u if rng.random() < 0.3]
        yield 'random%d' % r, a, b


# --------------------------------------------------------------------------
# the checks
# --------------------------------------------------------------------------

def operand_guard(fam, kinds_objs):
    """Attach jars and take snapshots; returns a verifier callable."""
    guards = []
    for obj, kind in kinds_objs:
        jar = attach_jar(obj) if kind in BT_KINDS else None
        guards.append((obj, kind, snapshot(obj, kind), jar))

    def verify(what):
        for obj, kind, snap, jar in guards:
            check(snapshot(obj, kind) == snap, what, kind,
                  'operand was modified')
            if jar is not None:
                check(jar.registered == [], what, kind,
                      'operand was registered as changed')
                check(not obj._p_changed, what, kind, 'operand _p_changed')
    return verify


def check_module_functions(fam, rng, big, kinds_a, kinds_b):
    for pname, ka, kb in patterns(fam, rng, big):
        sa, sb = set(ka), set(kb)
        for kind_a in kinds_a:
            for kind_b in kinds_b:
                what = '%r %s %s(%s,%s)' % (fam, pname, '%s', kind_a, kind_b)
                for opname, keys in (('union', sa | sb),
                                     ('intersection', sa & sb)):
                    a, ma = make(fam, kind_a, ka, rng, 1)
                    b, mb = make(fam, kind_b, kb, rng, 2)
                    verify = operand_guard(fam, [(a, kind_a), (b, kind_b)])
                    res = getattr(fam, opname)(a, b)
                    expect_set(fam, res, keys, what % opname)
                    verify(what % opname)
                # difference: first operand must be a BTrees container
                if kind_a in BT_KINDS:
                    a, ma = make(fam, kind_a, ka, rng, 1)
                    b, mb = make(fam, kind_b, kb, rng, 2)
                    verify = operand_guard(fam, [(a, kind_a), (b, kind_b)])
                    res = fam.difference(a, b)
                    if kind_a in ('Bucket', 'BTree'):
                        expect_bucket(fam, res,
                                      {k: ma[k] for k in sa - sb},
                                      what % 'difference')
                    else:
                        expect_set(fam, res, sa - sb, what % 'difference')
                    verify(what % 'difference')


def check_operators(fam, rng, big, kinds_b):
    import operator
    for pname, ka, kb in patterns(fam, rng, big):
        sa, sb = set(ka), set(kb)
        for kind_a in BT_KINDS:
            for kind_b in kinds_b:
                ops = [('|', operator.or_, sa | sb),
                       ('&', operator.and_, sa & sb),
                       ('-', operator.sub, sa - sb)]
                if kind_a in ('Set', 'TreeSet') and kind_b != 'gen':
                    ops.append(('^', operator.xor, sa ^ sb))
                for sym, op, keys in ops:
                    what = '%r %s %s %s %s' % (fam, pname, kind_a, sym, kind_b)
                    a, ma = make(fam, kind_a, ka, rng, 1)
                    b, mb = make(fam, kind_b, kb, rng, 2)
                    verify = operand_guard(fam, [(a, kind_a), (b, kind_b)])
                    res = op(a, b)
                    if sym == '-' and kind_a in ('Bucket', 'BTree'):
                        expect_bucket(fam, res, {k: ma[k] for k in keys},
                                      what)
                    elif sym == '^':
                        # C: xor yields the first operand's own class;
                        # Python: (a - b) | (b - a) is always a Set
                        check(type(res) is (type(a) if fam.impl == 'c'
                                            else fam.Set), what, 'xor type',
                              type(res))
                        check(list(res) == sorted(keys), what, 'xor keys')
                    else:
                        expect_set(fam, res, keys, what)
                    verify(what)
                # reflected forms with a plain iterable on the left
                if kind_b in ('list', 'tuple', 'frozenset') and \
                        kind_a in ('Set', 'TreeSet'):
                    for sym, op, keys in (('|', operator.or_, sa | sb),
                                          ('&', operator.and_, sa & sb)):
                        what = '%r %s %s %s %s (reflected)' % (
                            fam, pname, kind_b, sym, kind_a)
                        a, ma = make(fam, kind_a, ka, rng, 1)
                        b, mb = make(fam, kind_b, kb, rng, 2)
                        if kind_b == 'frozenset':
                            # frozenset implements | and & itself
                            continue
                        verify = operand_guard(fam,
                                               [(a, kind_a), (b, kind_b)])
                        res = op(b, a)
                        expect_set(fam, res, keys, what)
                        verify(what)


def check_inplace(fam, rng, big, kinds_b):
    import operator
    for pname, ka, kb in patterns(fam, rng, big):
        sa, sb = set(ka), set(kb)
        for kind_a in ('Set', 'TreeSet'):
            for kind_b in kinds_b:
                for sym, op, keys in (('|=', operator.ior, sa | sb),
                                      ('&=', operator.iand, sa & sb),
                                      ('-=', operator.isub, sa - sb),
                                      ('^=', operator.ixor, sa ^ sb)):
                    what = '%r %s %s %s %s' % (fam, pname, kind_a, sym, kind_b)
                    a, ma = make(fam, kind_a, ka, rng, 1)
                    b, mb = make(fam, kind_b, kb, rng, 2)
                    verify = operand_guard(fam, [(b, kind_b)])
                    jar = attach_jar(a)
                    res = op(a, b)
                    check(res is a, what, 'in-place result identity')
                    check(type(a) is getattr(fam, kind_a), what, 'type')
                    check(list(a) == sorted(keys), what, 'contents',
                          list(a)[:6], sorted(keys)[:6])
                    check(len(a) == len(keys), what, 'len')
                    if kind_a == 'Set':
                        # (a TreeSet notifies through its child buckets)
                        # The C `&=` clears and refills the target, which
                        # notifies whenever the target was not empty.
                        exp_reg = (keys != sa) or (
                            sym == '&=' and fam.impl == 'c' and bool(sa))
                        check(bool(jar.registered) == exp_reg and
                              bool(a._p_changed) == exp_reg,
                              what, 'target registered iff contents changed',
                              len(jar.registered), a._p_changed)
                    if kind_a == 'Set':
                        check(a.__getstate__() ==
                              fam.Set(sorted(keys)).__getstate__(),
                              what, 'state')
                    if hasattr(a, '_check'):
                        a._check()
                    verify(what)
            # aliasing: the operand *is* the target
            for sym, op, keys in (('|=', operator.ior, sa),
                                  ('&=', operator.iand, sa),
                                  ('-=', operator.isub, set()),
                                  ('^=', operator.ixor, set())):
                what = '%r %s %s %s self' % (fam, pname, kind_a, sym)
                a, ma = make(fam, kind_a, ka, rng, 1)
                res = op(a, a)
                check(res is a, what, 'identity')
                check(list(a) == sorted(keys), what, 'contents', list(a)[:6])


def check_none(fam, rng):
    u = fam.universe(40)
    for kind in BT_KINDS:
        x, mx = make(fam, kind, u[:9], rng)
        what = '%r None handling %s' % (fam, kind)
        verify = operand_guard(fam, [(x, kind)])
        check(fam.union(None, x) is x, what, 'union(None,x)')
        check(fam.union(x, None) is x, what, 'union(x,None)')
        check(fam.union(None, None) is None, what, 'union(None,None)')
        check(fam.intersection(None, x) is x, what, 'intersection(None,x)')
        check(fam.intersection(x, None) is x, what, 'intersection(x,None)')
        check(fam.intersection(None, None) is None, what, 'inter(None,None)')
        check(fam.difference(None, x) is None, what, 'difference(None,x)')
        check(fam.difference(x, None) is x, what, 'difference(x,None)')
        check(fam.difference(None, None) is None, what, 'diff(None,None)')
        check((x | None) is x, what, 'x | None')
        check((x & None) is x, what, 'x & None')
        check((x - None) is x, what, 'x - None')
        rc = sys.getrefcount(x)
        for _ in range(50):
            fam.union(None, x)
            fam.union(x, None)
            fam.intersection(None, x)
            fam.intersection(x, None)
            fam.difference(x, None)
            fam.difference(None, x)
            x | None
            x & None
            x - None
        check(sys.getrefcount(x) == rc, what, 'refcount of x',
              rc, sys.getrefcount(x))
        verify(what)
    # a list is returned as is, too
    lst = [u[2], u[1]]
    check(fam.union(None, lst) is lst, fam, 'union(None, list)')
    check(fam.intersection(lst, None) is lst, fam, 'inter(list, None)')


def outcome(func, *args):
    try:
        res = func(*args)
    except BaseException as e:  # noqa
        return type(e)
    return ('ok', type(res).__name__, list(res) if res is not None else None)


class Boom(Exception):
    pass


class RaisingIterable:
    def __iter__(self):
        raise Boom('iter')


def raising_gen(keys):
    for k in keys:
        yield k
    raise Boom('mid')


class NotIterable:
    pass


def check_errors(fam, rng):
    """Error paths: exception classes, operands intact, nothing leaks."""
    import operator
    u = fam.universe(60)
    good = u[10:30]
    bad_key = object() if fam.ktype != 'O' else None
    for kind in BT_KINDS:
        x, mx = make(fam, kind, good, rng)
        verify = operand_guard(fam, [(x, kind)])
        what = '%r errors %s' % (fam, kind)
        for opname in ('union', 'intersection', 'difference'):
            f = getattr(fam, opname)
            # iterable whose __iter__ raises / that raises midway
            check(outcome(f, x, RaisingIterable()) is Boom, what, opname,
                  'RaisingIterable', outcome(f, x, RaisingIterable()))
            check(outcome(f, x, raising_gen(good[:3])) is Boom, what, opname,
                  'raising_gen')
            # non-iterable second operand
            check(outcome(f, x, NotIterable()) is TypeError, what, opname,
                  'NotIterable', outcome(f, x, NotIterable()))
            check(outcome(f, x, 3.5) is TypeError, what, opname, 'float')
            if fam.ktype != 'O':
                # keys of the wrong type are detected while merging
                o = outcome(f, x, [good[0], bad_key])
                check(o is TypeError, what, opname, 'bad key', o)
                o = outcome(f, x, [good[0], 'a string'])
                check(o is TypeError, what, opname, 'str key', o)
                # (the Python merge functions do not range-check the keys
                # of plain iterables; only the C ones are checked here)
                if fam.ktype in INT_RANGES and fam.impl == 'c':
                    lo, hi = INT_RANGES[fam.ktype]
                    for oor in (hi + 1, lo - 1):
                        o = outcome(f, x, [oor])
                        check(o in (TypeError, OverflowError), what, opname,
                              'out of range', o)
            else:
                # unorderable mix cannot be sorted
                o = outcome(f, x, [1, 'a', 2])
                check(o is TypeError, what, opname, 'unorderable', o)
        # binary operators with a non-iterable
        for op in (operator.or_, operator.and_, operator.sub):
            o = outcome(op, x, NotIterable())
            check(o is TypeError, what, op.__name__, 'NotIterable', o)
        verify(what)

    # in-place error paths: target keeps a consistent state
    for kind in ('Set', 'TreeSet'):
        for op in (operator.ior, operator.iand, operator.isub,
                   operator.ixor):
            what = '%r inplace errors %s %s' % (fam, kind, op.__name__)
            x, mx = make(fam, kind, good, rng)
            o = outcome(op, x, NotIterable())
            check(o is TypeError, what, 'NotIterable', o)
            check(list(x) == good, what, 'unchanged after TypeError')
            o = outcome(op, x, RaisingIterable())
            # a failing __iter__ is reported as "not supported" -> TypeError
            # by the C slots, and propagates from the Python versions.
            check(o in (TypeError, Boom), what, 'RaisingIterable', o)
            check(list(x) == good, what, 'unchanged after failing iter')
            x, mx = make(fam, kind, good, rng)
            if op is operator.ior and fam.impl == 'c':
                # Known pre-existing defect, outside this property: the C
                # _Set_update/_TreeSet_update return a count with the
                # iterator's exception still set (SystemError from
                # .update()).  Not exercised here.
                continue
            o = outcome(op, x, raising_gen([good[0], u[0]]))
            check(o is Boom, what, 'raising_gen', o)
            check(set(x) <= set(good) | {u[0]}, what, 'sane after Boom')
            if hasattr(x, '_check'):
                x._check()
        # removing absent keys in-place is not an error
        x, mx = make(fam, kind, good, rng)
        x -= [u[0], u[1], good[0], u[0]]
        check(list(x) == good[1:], fam, kind, 'isub absent keys', list(x)[:4])
        x, mx = make(fam, kind, good, rng)
        x ^= [u[0], u[0], good[0], good[0], good[0]]
        check(list(x) == sorted(set(good[1:]) | {u[0]}), fam, kind,
              'ixor duplicates')
        x, mx = make(fam, kind, good, rng)
        x &= [u[0], good[3], good[3], good[1]]
        check(list(x) == [good[1], good[3]], fam, kind, 'iand duplicates')
        x, mx = make(fam, kind, good, rng)
        x |= [u[0], good[3], u[0], u[1]]
        check(list(x) == sorted(set(good) | {u[0], u[1]}), fam, kind,
              'ior duplicates')


class Key:
    """Totally ordered key object with observable reference counts."""
    __slots__ = ('n',)

    def __init__(self, n):
        self.n = n

    def __lt__(self, o):
        return self.n < o.n

    def __gt__(self, o):
        return self.n > o.n

    def __le__(self, o):
        return self.n <= o.n

    def __ge__(self, o):
        return self.n >= o.n

    def __eq__(self, o):
        return self.n == o.n

    def __ne__(self, o):
        return self.n != o.n

    def __hash__(self):
        return hash(self.n)


class EqBomb(Key):
    """Sorts fine, but == raises (used on the duplicate-squeezing path)."""
    __slots__ = ()

    def __eq__(self, o):
        raise Boom('eq')

    __hash__ = Key.__hash__


class LtBomb(Key):
    __slots__ = ()

    def __lt__(self, o):
        raise Boom('lt')

    def __gt__(self, o):
        raise Boom('gt')


def check_refcounts(impl):
    """Object keys: nothing leaks, nothing is over-released."""
    import operator
    fam = Family('OO', impl)
    keys = [Key(i) for i in range(80)]
    dup = Key(5)  # equal to keys[5] but a distinct object
    rng = random.Random(7)

    vals = [Key(1000 + i) for i in range(80)]  # values of the mappings

    def counts():
        gc.collect()
        return ([sys.getrefcount(k) for k in keys] + [sys.getrefcount(dup)]
                + [sys.getrefcount(v) for v in vals])

    operands = {}
    for kind in BT_KINDS:
        operands[kind] = make(fam, kind, keys[10:60], rng)[0]
        if kind in ('Bucket', 'BTree'):
            for k in keys[10:60]:
                operands[kind][k] = vals[k.n]
    del k
    operands['list'] = [keys[3], keys[70], keys[20], dup, keys[20], keys[5],
                        keys[33]]
    operands['tuple'] = tuple(keys[50:75]) + tuple(keys[55:58])
    base = counts()
    for rounds in range(3):
        for ka, a in operands.items():
            for kb, b in operands.items():
                for f in (fam.union, fam.intersection):
                    r = f(a, b)
                    del r
                if ka in BT_KINDS:
                    r = fam.difference(a, b)
                    if ka in ('Bucket', 'BTree'):
                        check(all(v is vals[k.n] for k, v in r.items()),
                              'OO/%s difference keeps value objects' % impl)
                    del r
                    for op in (operator.or_, operator.and_, operator.sub):
                        r = op(a, b)
                        del r
                    if ka in ('Set', 'TreeSet'):
                        r = a ^ b
                        del r
        # error paths must release everything as well
        for kb in ('Set', 'TreeSet', 'Bucket', 'BTree'):
            a = operands[kb]
            for bad in ([keys[1], EqBomb(2), EqBomb(2), keys[4]],
                        [keys[1], LtBomb(2), keys[4]]):
                for f in (fam.union, fam.intersection, fam.difference):
                    o = outcome(f, a, bad)
                    check(o is Boom or (impl == 'py' and o is not Boom
                                        and isinstance(bad[1], EqBomb)),
                          'OO/%s' % impl, f.__name__, 'bomb', o)
            for f in (fam.union, fam.intersection, fam.difference):
                check(outcome(f, a, raising_gen(keys[:5])) is Boom,
                      'OO/%s raising_gen' % impl)
        # in-place forms on throw-away targets
        for kind in ('Set', 'TreeSet'):
            for op in (operator.ior, operator.iand, operator.isub,
                       operator.ixor):
                for kb, b in operands.items():
                    t = getattr(fam, kind)(keys[0:40:3])
                    op(t, b)
                    del t
                t = getattr(fam, kind)(keys[0:40:3])
                if not (op is operator.ior and impl == 'c'):
                    outcome(op, t, raising_gen(keys[:5]))
                outcome(op, t, [keys[1], LtBomb(2), keys[4]])
                outcome(op, t, NotIterable())
                del t
    del bad, a, b, kb, ka
    try:
        del k, v
    except NameError:
        pass
    after = counts()
    check(after == base, 'OO/%s' % impl, 'key reference counts drifted',
          [(i, b, a) for i, (b, a) in enumerate(zip(base, after)) if a != b])
    # which of two equal key objects ends up in the result is observable
    s = fam.Set([keys[5], keys[6]])
    r = fam.union(s, [dup])
    check(r[0] is keys[5], 'union keeps first operand key object')
    r = fam.union([dup], s)
    check(r[0] is dup, 'union keeps first operand key object (2)')
    r = fam.intersection([dup, keys[6]], s)
    check(r[0] is dup and r[1] is keys[6], 'intersection key identity')
    r = fam.union(s, [Key(6), keys[6], Key(7)])
    check([k.n for k in r] == [5, 6, 7] and r[1] is keys[6],
          'dedupe then merge identity')


def check_weighted(fam, rng):
    if fam.weightedUnion is None:
        return
    u = fam.universe(150)
    n = len(u)
    cases = [(u[:n // 2], u[n // 3:]), ([], u[:5]), (u[:5], []),
             (u[::2], u[1::2]), (u, u), (u[5:9], u)]
    for ka, kb in cases:
        for kind_a in BT_KINDS:
            for kind_b in BT_KINDS:
                for w1, w2 in ((1, 1), (2, 3)):
                    what = '%r weighted %s %s w=%s,%s' % (
                        fam, kind_a, kind_b, w1, w2)
                    a, ma = make(fam, kind_a, ka, rng, 1)
                    b, mb = make(fam, kind_b, kb, rng, 2)
                    verify = operand_guard(fam, [(a, kind_a), (b, kind_b)])
                    va = kind_a in ('Bucket', 'BTree')
                    vb = kind_b in ('Bucket', 'BTree')

                    def val(m, k, hasv, w):
                        return (m[k] if hasv else 1) * w

                    exp_u = {}
                    for k in set(ka) | set(kb):
                        if k in ma and k in mb:
                            exp_u[k] = val(ma, k, va, w1) + val(mb, k, vb, w2)
                        elif k in ma:
                            exp_u[k] = val(ma, k, va, w1)
                        else:
                            exp_u[k] = val(mb, k, vb, w2)
                    exp_i = {k: exp_u[k] for k in set(ka) & set(kb)}
                    w, res = fam.weightedUnion(a, b, w1, w2)
                    if va or vb:
                        check(w == 1, what, 'wu weight', w)
                        expect_bucket(fam, res, exp_u, what + ' wunion')
                    else:
                        check(w == 1, what, 'wu weight', w)
                        expect_set(fam, res, exp_u, what + ' wunion')
                    w, res = fam.weightedIntersection(a, b, w1, w2)
                    if va or vb:
                        check(w == 1, what, 'wi weight', w)
                        expect_bucket(fam, res, exp_i, what + ' winter')
                    else:
                        check(w == w1 + w2, what, 'wi weight', w)
                        expect_set(fam, res, exp_i, what + ' winter')
                    verify(what)
    x = fam.Bucket()
    x[u[1]] = fam.value(u[1])
    check(fam.weightedUnion(None, None) == (0, None), fam, 'wu None None')
    check(fam.weightedUnion(None, x, 4, 5)[1] is x, fam, 'wu None x')
    check(fam.weightedUnion(None, x, 4, 5)[0] == 5, fam, 'wu None x w')
    check(fam.weightedIntersection(x, None, 4, 5)[0] == 4, fam, 'wi x None')


def check_multiunion(fam, rng):
    if fam.multiunion is None:
        return
    u = fam.universe(300)
    n = len(u)
    parts = [u[:50], u[30:90], u[n - 40:], u[100:260], [], [u[7]]]
    for kinds in itertools.product(ALL_KINDS, repeat=2):
        seqs = []
        guards = []
        exp = set()
        for i, part in enumerate(parts):
            kind = kinds[i % 2]
            o, m = make(fam, kind, part, rng)
            seqs.append(o)
            guards.append((o, kind))
            exp |= set(part)
        verify = operand_guard(fam, guards)
        what = '%r multiunion %s' % (fam, kinds)
        res = fam.multiunion(seqs)
        expect_set(fam, res, exp, what)
        verify(what)
    check(outcome(fam.multiunion, [fam.Set(u[:3]), RaisingIterable()])
          is Boom, fam, 'multiunion RaisingIterable')
    check(outcome(fam.multiunion, [fam.TreeSet(u[:3]), ['x']])
          is TypeError, fam, 'multiunion bad key')
    # single integers are accepted as one-element sets
    res = fam.multiunion([u[3], fam.Set([u[1]]), u[3]])
    expect_set(fam, res, {u[1], u[3]}, '%r multiunion ints' % fam)


def check_object_key_varieties(impl):
    """Object keys other than ints: strings, tuples, None mixes."""
    fam = Family('OO', impl)
    rng = random.Random(11)
    universes = [
        ['k%03d' % i for i in range(120)],
        [(i // 7, 'x%d' % (i % 7)) for i in range(120)],
        [float(i) / 3 for i in range(120)],
    ]
    for u in universes:
        u = sorted(u)
        a_keys, b_keys = u[:80], u[40:]
        for kind_a in BT_KINDS:
            for kind_b in ALL_KINDS:
                a, ma = make(fam, kind_a, a_keys, rng, 1)
                b, mb = make(fam, kind_b, b_keys, rng, 2)
                what = 'OO/%s varieties %s %s' % (impl, kind_a, kind_b)
                verify = operand_guard(fam, [(a, kind_a), (b, kind_b)])
                expect_set(fam, fam.union(a, b), set(u), what)
                if kind_b != 'gen':
                    expect_set(fam, fam.intersection(a, b), set(u[40:80]),
                               what)
                    d = fam.difference(a, b)
                    check(list(d.keys()) == u[:40], what, 'difference')
                verify(what)


def main(quick=False):
    rng = random.Random(20240917)
    for fam in all_families():
        full = fam.prefix in ('OO', 'II', 'LF', 'fs', 'QQ', 'IO')
        big = 150 if fam.impl == 'c' else 70
        if full:
            check_module_functions(fam, rng, big, ALL_KINDS, ALL_KINDS)
            check_operators(fam, rng, big, ALL_KINDS)
            check_inplace(fam, rng, big, ALL_KINDS)
        else:
            check_module_functions(fam, rng, big, BT_KINDS,
                                   ('Set', 'BTree', 'list', 'gen'))
            check_module_functions(fam, rng, 40, ('list', 'gen', 'dict'),
                                   ('TreeSet', 'Bucket', 'tuple'))
            check_operators(fam, rng, 40, ('TreeSet', 'Bucket', 'list'))
            check_inplace(fam, rng, 40, ('Set', 'BTree', 'list', 'gen'))
        check_none(fam, rng)
        check_errors(fam, rng)
        check_weighted(fam, rng)
        check_multiunion(fam, rng)
    for impl in ('c', 'py'):
        check_refcounts(impl)
        check_object_key_varieties(impl)


def extra_checks():
    """Exhaustive small-input check of the sort-and-squeeze path."""
    alphabet = (0, 1, 2, 3)
    for prefix, impl in (('II', 'c'), ('OO', 'c'), ('LL', 'c'), ('OO', 'py'),
                         ('II', 'py')):
        fam = Family(prefix, impl)
        fixed = {1, 2, 5}
        containers = [fam.Set(sorted(fixed)), fam.TreeSet(sorted(fixed))]
        mapping = fam.BTree({k: 7 for k in fixed})
        for length in range(0, 7):
            for lst in itertools.product(alphabet, repeat=length):
                lst = list(lst)
                before = lst[:]
                s = set(lst)
                what = '%r exhaustive %r' % (fam, lst)
                for c in containers:
                    check(list(fam.union(c, lst)) == sorted(fixed | s),
                          what, 'union(c, lst)')
                    check(list(fam.union(lst, c)) == sorted(fixed | s),
                          what, 'union(lst, c)')
                    check(list(fam.intersection(lst, c)) == sorted(fixed & s),
                          what, 'intersection(lst, c)')
                    check(list(fam.difference(c, lst)) == sorted(fixed - s),
                          what, 'difference(c, lst)')
                check(list(fam.union(lst, tuple(lst))) == sorted(s), what,
                      'union(lst, tuple)')
                check(list(fam.intersection(iter(lst), lst)) == sorted(s),
                      what, 'intersection(iter, lst)')
                d = fam.difference(mapping, lst)
                check(type(d) is fam.Bucket and
                      list(d.items()) == [(k, 7) for k in sorted(fixed - s)],
                      what, 'difference(mapping, lst)')
                check(lst == before, what, 'list operand modified')
        if fam.multiunion is not None:
            for lst in itertools.product(alphabet, repeat=4):
                check(list(fam.multiunion([list(lst), lst[:2], lst[0]]))
                      == sorted(set(lst)), fam, 'multiunion', lst)

    # Equal-but-distinct objects: which object survives the squeeze is
    # observable through the result.
    for impl in ('c', 'py'):
        fam = Family('OO', impl)
        ks = [Key(0), Key(0), Key(1), Key(1), Key(1), Key(2)]
        rc = [sys.getrefcount(k) for k in ks]
        r = fam.union(fam.Set(), ks)
        check([k.n for k in r] == [0, 1, 2], impl, 'squeeze distinct objs')
        # sorted() is stable, so the first of each run is the one kept
        check(r[0] is ks[0] and r[1] is ks[2] and r[2] is ks[5], impl,
              'first of each run of equal keys is kept')
        del r
        gc.collect()
        check([sys.getrefcount(k) for k in ks] == rc, impl,
              'refcounts after squeeze', rc)
        # error while squeezing / sorting: counts restored, operand intact
        for bad in ([ks[0], EqBomb(0), ks[2]], [ks[0], LtBomb(3), ks[2]]):
            lst = list(bad)
            o = outcome(fam.union, fam.Set([ks[5]]), lst)
            check(o is Boom or impl == 'py', impl, 'bomb outcome', o)
            check(all(a is b for a, b in zip(lst, bad)) and
                  len(lst) == len(bad), impl, 'operand list intact')
            del lst, bad
        gc.collect()
        check([sys.getrefcount(k) for k in ks] == rc, impl,
              'refcounts after failed squeeze', rc,
              [sys.getrefcount(k) for k in ks])

    # Wrong key type reported from nextGenericKeyIter at every position
    for prefix in ('II', 'LO', 'UU', 'QF', 'fs'):
        fam = Family(prefix, 'c')
        u = fam.universe(30)
        good = u[8:14]
        bad = 1.5 if prefix != 'fs' else b'toolong'
        for pos in range(len(good) + 1):
            lst = good[:pos] + [bad] + good[pos:]
            if prefix != 'fs':
                # keep it sortable: floats sort among ints
                pass
            for f in (fam.union, fam.intersection, fam.difference):
                o = outcome(f, fam.Set(good), lst)
                check(o is TypeError, fam, f.__name__, 'bad key at', pos, o)
            if fam.multiunion is not None:
                o = outcome(fam.multiunion, [lst])
                check(o is TypeError, fam, 'multiunion bad key at', pos, o)


if __name__ == '__main__':
    main()
    extra = globals().get('extra_checks')
    if extra is not None:
        extra()
    finish()
