"""Differential demo for refactoring v (C06): the pure-Python state
methods in ``_base.py`` (``_Base.__reduce__`` / ``__class__``,
``Bucket`` / ``Set`` / ``_Tree`` ``__getstate__`` and ``__setstate__``).

Run as:  PYTHONPATH=<tree>/src /venv/bin/python demo.py

Exits 0 iff every check holds.  Everything is seeded; no network, no ZODB.

Part 1  randomized histories on small-node C and pure-Python trees of all
        22 families, both kinds, compared with a dict/set model: states,
        __setstate__, pickles (protocols 0..5), copies, byte-identical
        pickles and cross-loading C<->Python.
Part 2  the Python leaves and trees on their own, all 22 families: exact
        states, every accepted variant of a state, every refusal with its
        exact exception, message and what is left in the object, order of
        effects (subclass clear(), firstbucket before validation, children
        checked last to first), persistence registration, __reduce__ /
        __class__ for stock classes and subclasses, and a seeded corpus of
        1500 x 5 random states folded into a digest recorded on the
        unmodified tree.
Part 3  ghosts: a stand-in jar reloads trees and leaves via __setstate__.
"""
import copy
import gc
import io
import pickle
import random
import sys

import BTrees
from BTrees import check as btcheck

FAMILIES = (
    'OO', 'OI', 'OU', 'OL', 'OQ',
    'II', 'IO', 'IF', 'IU',
    'LL', 'LO', 'LF', 'LQ',
    'UU', 'UO', 'UF', 'UI',
    'QQ', 'QO', 'QF', 'QL',
    'fs',
)

CHECKS = [0]


def ok(cond, *what):
    CHECKS[0] += 1
    if not cond:
        raise AssertionError(' '.join(str(w) for w in what))


def mod(fam):
    return getattr(__import__('BTrees.%sBTree' % fam), '%sBTree' % fam)


# --------------------------------------------------------------------------
# key / value generators per family letter
# --------------------------------------------------------------------------

def gen_key(fam, rnd, span):
    c = fam[0]
    if fam == 'fs':
        n = rnd.randrange(span)
        return bytes((65 + n // 26 % 26, 65 + n % 26))
    if c == 'O':
        return rnd.randrange(-span, span)
    if c in 'IL':
        return rnd.randrange(-span, span)
    return rnd.randrange(0, 2 * span)      # U, Q


def gen_value(fam, rnd):
    c = fam[1]
    if fam == 'fs':
        return bytes(rnd.randrange(97, 123) for _ in range(6))
    if c == 'O':
        return rnd.choice((None, 'v%d' % rnd.randrange(50), rnd.randrange(9),
                           (1, 2), 2.5))
    if c == 'F':
        return rnd.randrange(-64, 64) * 0.25    # exact in a C float
    if c in 'IL':
        return rnd.randrange(-1000, 1000)
    return rnd.randrange(0, 2000)


def bad_key(fam):
    """A key the family's native conversion must refuse (None: no such)."""
    if fam == 'fs':
        return b'abc'
    if fam[0] == 'O':
        return None
    return 'not-an-int'


# --------------------------------------------------------------------------
# small-node subclasses, importable from __main__ so that they pickle
# --------------------------------------------------------------------------

SMALL = {}
SAVED_SIZES = []


def shrink_nodes():
    """Small nodes on the stock classes (both implementations read the sizes
    from the class), so that a few dozen keys give three-level trees that
    still pickle under the stock names.  Undone by restore_nodes()."""
    for fam in FAMILIES:
        m = mod(fam)
        for kind in ('BTree', 'TreeSet'):
            for suffix in ('', 'Py'):
                cls = getattr(m, fam + kind + suffix)
                SAVED_SIZES.append(
                    (cls, cls.max_leaf_size, cls.max_internal_size))
                cls.max_leaf_size = 4
                cls.max_internal_size = 3


def restore_nodes():
    while SAVED_SIZES:
        cls, leaf, internal = SAVED_SIZES.pop()
        cls.max_leaf_size = leaf
        cls.max_internal_size = internal


def small(fam, kind, impl):
    """impl 'C' (stock C class), 'P' (stock Python class) or 'S' (a subclass
    of the C class); kind 'BTree' or 'TreeSet'.  Needs shrink_nodes()."""
    m = mod(fam)
    if impl == 'C':
        return getattr(m, fam + kind)
    if impl == 'P':
        return getattr(m, fam + kind + 'Py')
    key = (fam, kind)
    if key not in SMALL:
        name = 'Sub_%s%s' % (fam, kind)
        cls = type(name, (getattr(m, fam + kind),), {})
        globals()[name] = cls
        SMALL[key] = cls
    return SMALL[key]


class CrossUnpickler(pickle.Unpickler):
    """Loads a pickle that names the C classes into the Python classes."""

    def find_class(self, module, name):
        if module.startswith('BTrees.') and not name.endswith('Py'):
            return getattr(sys.modules[module], name + 'Py')
        return super().find_class(module, name)


def loads_as_python(data):
    return CrossUnpickler(io.BytesIO(data)).load()


# --------------------------------------------------------------------------
# observations
# --------------------------------------------------------------------------

def contents(t, is_map):
    return list(t.items()) if is_map else list(t.keys())


def model_contents(model, is_map):
    if is_map:
        return sorted(model.items())
    return sorted(model)


def is_tree(o):
    return hasattr(o, '_check') and hasattr(o, '_firstbucket') or \
        type(o).__name__.endswith(('BTree', 'TreeSet', 'BTreePy',
                                   'TreeSetPy'))


def shape(o, is_map, seen=None):
    """Implementation-independent description of a node and all below it."""
    s = o.__getstate__()
    tn = type(o).__name__
    if tn.endswith('Py'):
        tn = tn[:-2]
    if tn.endswith(('Bucket', 'Set')) and not tn.endswith('TreeSet'):
        return (tn, s[0], len(s))
    if s is None:
        return (tn, None)
    if len(s) == 1:
        ok(type(s[0]) is tuple and len(s[0]) == 1, 'embedded form', s)
        leaf = s[0][0]
        # (an interior node with a single leaf embeds it too, next included)
        ok(type(leaf) is tuple and len(leaf) in (1, 2), 'embedded leaf', s)
        return (tn, 'embedded', leaf[0], len(leaf))
    ok(len(s) == 2 and len(s[0]) % 2 == 1, 'normal form', s)
    kids = [shape(c, is_map) for c in s[0][0::2]]
    return (tn, s[0][1::2], kids)


def interior_embedded(sh, top=True):
    """Does some node below the root use the embedded form?  Pickled outside
    a database such a tree reloads with two copies of that leaf (one in the
    leaf chain, one under the node), see notes.md; the demo then only
    compares contents and shapes of reloaded copies."""
    if len(sh) == 4 and sh[1] == 'embedded':
        return not top
    if len(sh) == 3 and type(sh[2]) is list:
        return any(interior_embedded(k, False) for k in sh[2])
    return False


def first_leaf(t):
    s = t.__getstate__()
    while True:
        if s is None or len(s) == 1:
            return None
        c = s[0][0]
        cs = c.__getstate__()
        tn = type(c).__name__
        if 'Bucket' in tn or (tn.endswith(('Set', 'SetPy'))
                              and 'TreeSet' not in tn):
            return c
        if cs is None or len(cs) == 1:
            return None
        s = cs


def check_state_form(t, model):
    s = t.__getstate__()
    if not model:
        ok(s is None, 'empty tree state', s)
        return 'none'
    ok(type(s) is tuple, 'state type', s)
    if len(s) == 1:
        return 'embedded'
    ok(len(s) == 2, 'state length', s)
    items, fb = s
    ok(type(items) is tuple and len(items) % 2 == 1, 'items', items)
    leaf = first_leaf(t)
    if leaf is not None:
        ok(fb is leaf, 'firstbucket is the leftmost leaf')
    return 'normal'


def sound(t, base_check):
    t._check()
    if base_check or type(t) in btcheck._type2kind:
        btcheck.check(t)


def apply_ops(t, model, is_map, fam, rnd, n, span):
    for _ in range(n):
        k = gen_key(fam, rnd, span)
        r = rnd.random()
        if r < 0.6:
            if is_map:
                v = gen_value(fam, rnd)
                t[k] = v
                model[k] = v
            else:
                t.add(k)
                model.add(k)
        else:
            if is_map:
                if k in model:
                    del t[k]
                    del model[k]
                else:
                    ok(k not in t, 'absent', k)
            else:
                if k in model:
                    t.remove(k)
                    model.discard(k)
                else:
                    ok(k not in t, 'absent', k)


FORMS_SEEN = {}
TWINS = [0]


def checkpoint(fam, kind, trees, model, is_map, rnd, span):
    want = model_contents(model, is_map)
    shapes = {}
    pickles = {}
    for impl, t in trees.items():
        cls = type(t)
        ok(contents(t, is_map) == want, fam, kind, impl, 'contents')
        sound(t, False)
        form = check_state_form(t, model)
        FORMS_SEEN[(kind, impl, form)] = FORMS_SEEN.get(
            (kind, impl, form), 0) + 1
        shapes[impl] = shape(t, is_map)
        twin_leaf = interior_embedded(shapes[impl])
        TWINS[0] += twin_leaf
        state = t.__getstate__()

        # __setstate__ on a fresh tree and on a populated one
        fresh = cls()
        ok(fresh.__setstate__(state) is None, '__setstate__ returns None')
        ok(contents(fresh, is_map) == want, fam, kind, impl, 'fresh')
        ok(len(fresh) == len(want), 'len')
        sound(fresh, False)
        used = cls()
        apply_ops(used, set() if not is_map else {}, is_map, fam,
                  random.Random(5), 30, span)
        used.__setstate__(state)
        ok(contents(used, is_map) == want, fam, kind, impl, 'populated')
        sound(used, False)
        ok(shape(used, is_map) == shapes[impl], 'state reproduced')
        used.__setstate__(None)
        ok(len(used) == 0 and used.__getstate__() is None, 'None state')
        # (fresh shares its children with t unless embedded: drop it now)
        del fresh, used

        # pickles, all protocols
        per_proto = []
        for proto in range(0, pickle.HIGHEST_PROTOCOL + 1):
            data = pickle.dumps(t, proto)
            per_proto.append(data)
            t2 = pickle.loads(data)
            ok(type(t2) is (cls if impl != 'P' else type(trees['C'])),
               'class kept (Python pickles load as C)')
            ok(contents(t2, is_map) == want, fam, kind, impl, proto)
            if not twin_leaf:
                sound(t2, False)
            ok(shape(t2, is_map) == shapes[impl], 'shape kept', proto)
            if not twin_leaf and impl != 'P':
                ok(pickle.dumps(t2, proto) == data, 'pickle stable', proto)
        pickles[impl] = per_proto
        # a loaded copy is fully usable
        t3 = pickle.loads(per_proto[rnd.randrange(len(per_proto))])
        m3 = copy.copy(model)
        r3 = random.Random(rnd.random())
        if not twin_leaf:
            apply_ops(t3, m3, is_map, fam, r3, 40, span)
            ok(contents(t3, is_map) == model_contents(m3, is_map), 'usable')
            sound(t3, False)
        ok(contents(t, is_map) == want, 'original untouched')

        # copies
        # (copy.copy of a multi-bucket Python tree is not attempted: it
        # builds a C tree around the Python children, see notes.md)
        if impl != 'P' or form != 'normal':
            cp = copy.copy(t)
            ok(contents(cp, is_map) == want, 'copy.copy')
            ok(shape(cp, is_map)[1:] == shapes[impl][1:], 'copy.copy shape')
            del cp
        d = copy.deepcopy(t)
        ok(contents(d, is_map) == want and shape(d, is_map) == shapes[impl],
           'copy.deepcopy')
        if not twin_leaf:
            sound(d, False)

    # the two implementations agree
    ok(shapes['C'] == shapes['P'], fam, kind, 'same shape C / Python')
    twin = interior_embedded(shapes['C'])
    for proto, (a, b) in enumerate(zip(pickles['C'], pickles['P'])):
        # (fs: the Python tree shares one bytes object between a separator
        # and the leaf key it was copied from, which pickle memoizes; the C
        # tree makes new bytes objects.  See notes.md.)
        if fam != 'fs' or len(shapes['C']) != 3:
            ok(a == b, fam, kind, 'byte-identical pickles', proto)
        # Python loads C's pickle, C loads Python's
        p = loads_as_python(a)
        ok(type(p) is type(trees['P']), 'loaded as Python', type(p))
        ok(contents(p, is_map) == want, 'C -> Python', proto)
        if not twin:
            sound(p, False)
        c = pickle.loads(b)
        ok(type(c) is type(trees['C']), 'loaded as C', type(c))
        ok(contents(c, is_map) == want, 'Python -> C', proto)
        if not twin:
            sound(c, False)


def part1():
    for fi, fam in enumerate(FAMILIES):
        for kind in ('BTree', 'TreeSet'):
            is_map = kind == 'BTree'
            rnd = random.Random(1000 * fi + len(kind))
            span = 40 if fam != 'fs' else 120
            trees = dict((i, small(fam, kind, i)()) for i in 'CPS')
            models = dict((i, {} if is_map else set()) for i in 'CPS')
            checkpoint(fam, kind, trees, models['C'], is_map, rnd, span)
            # grow through the three forms, then shrink back through them
            for phase, (n, bias) in enumerate(
                    ((3, 1.0), (6, 1.0), (40, 0.8), (60, 0.6),
                     (60, 0.15), (60, 0.05))):
                seed = rnd.random()
                for impl in 'CPS':
                    r2 = random.Random(seed)
                    t, model = trees[impl], models[impl]
                    for _ in range(n):
                        k = gen_key(fam, r2, span)
                        if r2.random() < bias:
                            if is_map:
                                v = gen_value(fam, r2)
                                t[k] = v
                                model[k] = v
                            else:
                                t.add(k)
                                model.add(k)
                        elif k in model:
                            if is_map:
                                del t[k]
                                del model[k]
                            else:
                                t.remove(k)
                                model.discard(k)
                ok(models['C'] == models['P'] == models['S'], 'same history')
                checkpoint(fam, kind, trees, models['C'], is_map, rnd, span)
            # drain completely: back to the None form
            for impl in 'CPS':
                for k in list(models[impl]):
                    if is_map:
                        del trees[impl][k]
                    else:
                        trees[impl].remove(k)
                models[impl].clear()
            checkpoint(fam, kind, trees, models['C'], is_map, rnd, span)



def part1_stock_sizes():
    for fam in ('OO', 'IO', 'LF', 'QQ', 'fs'):
        m = mod(fam)
        for kind in ('BTree', 'TreeSet'):
            is_map = kind == 'BTree'
            rnd = random.Random(fam + kind)
            c = getattr(m, fam + kind)()
            p = getattr(m, fam + kind + 'Py')()
            model = {} if is_map else set()
            for _ in range(700):
                k = gen_key(fam, rnd, 2000)
                if is_map:
                    v = gen_value(fam, rnd)
                    c[k] = v
                    p[k] = v
                    model[k] = v
                else:
                    c.add(k)
                    p.add(k)
                    model.add(k)
            want = model_contents(model, is_map)
            for proto in range(pickle.HIGHEST_PROTOCOL + 1):
                a = pickle.dumps(c, proto)
                b = pickle.dumps(p, proto)
                ok(a == b, fam, kind, 'base classes: identical pickles')
                for t in (pickle.loads(a), loads_as_python(a)):
                    ok(contents(t, is_map) == want, 'base reload')
                    sound(t, True)
            s = c.__getstate__()
            ok(len(s) == (2 if fam != 'fs' else 1), 'multi-bucket base tree')
            again = type(c)()
            again.__setstate__(s)
            sound(again, True)
            ok(contents(again, is_map) == want, 'base setstate')


# --------------------------------------------------------------------------
# Part 2: hand-built states for the C tree __setstate__
# --------------------------------------------------------------------------

def raises(exc, msg, f, *a):
    try:
        f(*a)
    except exc as e:
        ok(type(e) is exc, 'exact exception type', type(e), exc)
        if msg is not None:
            ok(str(e) == msg, 'message', repr(str(e)), 'expected', repr(msg))
        return e
    raise AssertionError('%r not raised by %r%r' % (exc, f, a))


def rc(o):
    return sys.getrefcount(o)


def empty_and_usable(t, fam, is_map):
    ok(len(t) == 0 and not t and t.__getstate__() is None, 'left empty')
    ok(contents(t, is_map) == [], 'left empty (iteration)')
    k = gen_key(fam, random.Random(3), 10)
    if is_map:
        v = gen_value(fam, random.Random(4))
        t[k] = v
        ok(list(t.items()) == [(k, v)], 'usable after failure')
    else:
        t.add(k)
        ok(list(t.keys()) == [k], 'usable after failure')
    t._check()
    t.clear()


def keys3(fam):
    if fam == 'fs':
        return b'aa', b'mm', b'zz'
    if fam[0] in 'UQ':
        return 1, 50, 90
    return -7, 50, 90


import copyreg
import hashlib


def py(fam, name):
    return getattr(mod(fam), fam + name + 'Py')


def leaf_snapshot(b):
    return (list(b._keys), list(getattr(b, '_values', ())), b._next)


def tree_snapshot(t):
    return ([(i.key, i.child) for i in t._data], t._firstbucket)


def same(a, b):
    """Equality with identity for anything that is not plain data."""
    if type(a) is not type(b):
        return False
    if isinstance(a, (list, tuple)):
        return len(a) == len(b) and all(same(x, y) for x, y in zip(a, b))
    if isinstance(a, (int, float, str, bytes, type(None))):
        return a == b
    return a is b


def expect_raise(exc, msg, f, arg):
    try:
        f(arg)
    except Exception as e:
        ok(type(e) is exc, 'exception type', type(e), e, 'expected', exc)
        ok(str(e) == msg, 'message', repr(str(e)), 'expected', repr(msg))
        return
    raise AssertionError('%s not raised' % exc.__name__)


class DictState(dict):
    """len() 2, [0] gives a tuple, but unpacking gives the *keys* 0 and 1:
    tells whether the state is indexed or unpacked, and when."""


def part2_leaves():
    for fam in FAMILIES:
        for kind in ('Bucket', 'Set'):
            is_map = kind == 'Bucket'
            L = py(fam, kind)
            rnd = random.Random(fam + kind)
            ks = []
            while len(ks) < 5:
                k = gen_key(fam, rnd, 300)
                if k not in ks:
                    ks.append(k)
            ks.sort()
            vs = [gen_value(fam, rnd) for _ in ks]
            items = []
            for k, v in zip(ks, vs):
                items.append(k)
                if is_map:
                    items.append(v)
            items = tuple(items)

            def fresh():
                b = L()
                for k, v in zip(ks[:2], vs[:2]):
                    if is_map:
                        b[k] = v
                    else:
                        b.add(k)
                b._next = marker
                return b
            marker = L()
            before = leaf_snapshot(fresh())
            nxt = L()

            # --- getstate
            b = L()
            ok(b.__getstate__() == ((),), 'empty leaf state')
            b.__setstate__((items,))
            s = b.__getstate__()
            ok(type(s) is tuple and len(s) == 1 and type(s[0]) is tuple
               and same(s[0], items), 'state without next', s)
            ok(all(x is y for x, y in zip(s[0], items)), 'same objects')
            b._next = nxt
            s = b.__getstate__()
            ok(len(s) == 2 and same(s[0], items) and s[1] is nxt, 'with next')
            if is_map:
                # keys without values (left by a failed load): IndexError
                b._keys.append(ks[0])
                expect_raise(IndexError, 'list index out of range',
                             lambda _: b.__getstate__(), None)
                b._keys.pop()
                b._values.append('extra value, ignored')
                ok(same(b.__getstate__()[0], items), 'surplus values ignored')

            # --- accepted states
            for state, want_next in (
                    ((items,), None),
                    ((items, nxt), nxt),
                    ((items, None), None),
                    ([items], None),
                    ([items, nxt], nxt),
                    ((items, nxt, 'ignored'), None),
                    ((items, nxt, 'ignored', 'too'), None),
                    (((),), None),
                    (((), nxt), nxt)):
                b = fresh()
                ok(b.__setstate__(state) is None, 'returns None')
                want = state[0]
                ok(same(leaf_snapshot(b),
                        (list(want[0::2 if is_map else 1]),
                         list(want[1::2]) if is_map else [],
                         want_next)), 'loaded', fam, kind, state)
                ok(type(b._keys) is list, 'a list of keys')
                if len(state) == 2 and type(state) is tuple:
                    ok(same(b.__getstate__(), state if want_next is not None
                            else (state[0],)), 'state reproduced')

            # --- refused before anything is touched
            for state, exc, msg in (
                    (None, TypeError, "'NoneType' object is not subscriptable"),
                    (5, TypeError, "'int' object is not subscriptable"),
                    ((), IndexError, 'tuple index out of range'),
                    ([], IndexError, 'list index out of range'),
                    ({}, KeyError, '0'),
                    ((5,), TypeError,
                     'tuple required for first state element'),
                    ((None, nxt), TypeError,
                     'tuple required for first state element'),
                    ((list(items),), TypeError,
                     'tuple required for first state element'),
                    (('ab', nxt), TypeError,
                     'tuple required for first state element'),
                    ([L()], TypeError,
                     'tuple required for first state element')):
                b = fresh()
                expect_raise(exc, msg, b.__setstate__, state)
                ok(same(leaf_snapshot(b), before), 'untouched', state)

            # --- failing after the contents were dropped
            b = fresh()
            if is_map:
                expect_raise(TypeError, "object of type 'int' has no len()",
                             b.__setstate__, DictState({0: items, 1: 'x'}))
            else:
                expect_raise(TypeError, "'int' object is not iterable",
                             b.__setstate__, DictState({0: items, 1: 'x'}))
            ok(same(leaf_snapshot(b), ([], [], 1)),
               'unpacked, not indexed: next is the second *key*')
            if is_map:
                odd = items + (ks[0],)
                b = fresh()
                expect_raise(IndexError, 'tuple index out of range',
                             b.__setstate__, (odd, nxt))
                ok(same(leaf_snapshot(b),
                        (list(odd[0::2]), list(odd[1::2]), nxt)),
                   'key appended before its missing value is looked up')
                b = fresh()
                expect_raise(IndexError, 'tuple index out of range',
                             b.__setstate__, ((ks[0],),))
                ok(same(leaf_snapshot(b), ([ks[0]], [], None)), 'one key')

            # --- a subclass's clear() is what drops the contents
            calls = []

            class Sub(L):
                def clear(self):
                    calls.append(leaf_snapshot(self)
                                 if hasattr(self, '_keys') else None)
                    L.clear(self)
            b = Sub()
            del calls[:]
            b.__setstate__((items, nxt))
            ok(len(calls) == 1 and same(calls[0], ([], [], None)),
               'clear() called once, before loading')
            b.__setstate__((items[:2 if is_map else 1],))
            ok(len(calls) == 2 and same(
                calls[1], (list(items[0::2 if is_map else 1]),
                           list(items[1::2]) if is_map else [], nxt)),
               'clear() sees the old contents')
            expect_raise(TypeError, 'tuple required for first state element',
                         b.__setstate__, (5,))
            ok(len(calls) == 2, 'no clear() for a refused state')

            # --- persistence: loading marks a stored object as changed
            jar = Jar()
            b = fresh()
            jar.add(b)
            jar.save(b)
            ok(b._p_changed is False and not jar.registered, 'clean')
            b.__setstate__((items, nxt))
            ok(b._p_changed is True and len(jar.registered) == 1
               and jar.registered[0] is b, 'registered once')
            s = b.__getstate__()
            ok(b._p_changed is True and len(jar.registered) == 1, 'no more')
            jar.save(b)
            b.__getstate__()
            ok(b._p_changed is False and len(jar.registered) == 1,
               '__getstate__ does not dirty')


def part2_trees():
    for fam in FAMILIES:
        for kind, leafkind in (('BTree', 'Bucket'), ('TreeSet', 'Set')):
            is_map = kind == 'BTree'
            T = py(fam, kind)
            L = py(fam, leafkind)
            CL = getattr(mod(fam), fam + leafkind)
            CT = getattr(mod(fam), fam + kind)
            WrongLeaf = py(fam, 'Set' if is_map else 'Bucket')
            tname = 'BTrees.%sBTree.%s%sPy' % (fam, fam, kind)
            lname = 'BTrees.%sBTree.%s%sPy' % (fam, fam, leafkind)
            k1, k2, k3 = keys3(fam)
            rnd = random.Random(fam + kind)

            def leaf(*keys):
                b = L()
                for k in keys:
                    if is_map:
                        b[k] = gen_value(fam, rnd)
                    else:
                        b.add(k)
                return b
            b1, b2, b3 = leaf(k1), leaf(k2), leaf(k3)
            b1._next, b2._next = b2, b3

            def fresh():
                t = T()
                t.__setstate__(((b1, k2, b2), b1))
                return t
            before = tree_snapshot(fresh())
            ok(same(before, ([(None, b1), (k2, b2)], b1)), 'loaded')
            cleared = ([], None)

            def neither(x):
                return 'tree child %s is neither %s nor %s' % (x, tname, lname)

            # --- getstate
            t = T()
            ok(t.__getstate__() is None, 'empty tree state')
            t.__setstate__(((b1, k2, b2, k3, b3), b1))
            s = t.__getstate__()
            ok(type(s) is tuple and type(s[0]) is tuple and
               same(s, ((b1, k2, b2, k3, b3), b1)), 'normal form')
            ok(list(t.keys()) == [k1, k2, k3], 'contents')
            t._check()
            t.__setstate__(((b3,), b3))
            ok(same(tree_snapshot(t), ([(None, b3)], b3)), 'one leaf')
            s = t.__getstate__()
            ok(type(s) is tuple and len(s) == 1 and type(s[0]) is tuple and
               len(s[0]) == 1 and same(s[0][0], b3.__getstate__()),
               'embedded form: the leaf has no oid', s)
            jar = Jar()
            jar.add(b3)
            ok(same(t.__getstate__(), ((b3,), b3)), 'the leaf has an oid')
            b3._p_jar = None
            b3._p_oid = None
            d1, d2 = leaf(k1), leaf(k2)
            d1._next = d2
            inner = T()
            inner.__setstate__(((d1, k2, d2), d1))
            t.__setstate__(((inner,), d1))
            ok(same(t.__getstate__(), ((inner,), d1)),
               'an only child that is a tree is not embedded')
            ok(list(t.keys()) == [k1, k2], 'two levels')
            t._check()

            # --- accepted states
            ls = leaf(k1, k2).__getstate__()
            for state, want in (
                    (None, cleared),
                    (((b1,), b1), ([(None, b1)], b1)),
                    ([(b1,), b1], ([(None, b1)], b1)),
                    (([b1],), None),          # see below
                    (((b1, k2, b2), b1), before),
                    (((b1, k2, b2), None), ([(None, b1), (k2, b2)], None)),
                    (((b1, k2, b2), 'anything'),
                     ([(None, b1), (k2, b2)], 'anything')),
                    (((b1, 'any key', b2), b1),
                     ([(None, b1), ('any key', b2)], b1)),
                    (((inner,), b1), ([(None, inner)], b1))):
                if want is None:
                    continue
                t = fresh()
                ok(t.__setstate__(state) is None, 'returns None')
                ok(same(tree_snapshot(t), want), 'loaded', fam, kind, state)
            t = fresh()
            t.__setstate__(((ls,),))
            snap = tree_snapshot(t)
            ok(len(snap[0]) == 1 and snap[0][0][0] is None and
               snap[0][0][1] is snap[1] and type(snap[1]) is L and
               same(snap[1].__getstate__(), ls), 'embedded leaf state')
            ok(same(t.__getstate__(), ((ls,),)), 'embedded again')
            ok(list(t.keys()) == [k1, k2], 'contents')
            t._check()

            class SubLeaf(L):
                pass
            sl = SubLeaf()
            t.__setstate__(((sl,), sl))
            ok(same(tree_snapshot(t), ([(None, sl)], sl)), 'leaf subclass')

            # --- refused before anything is touched
            for state, exc, msg in (
                    (5, TypeError, "'int' object is not subscriptable"),
                    ((5,), TypeError,
                     'tuple required for first state element'),
                    ((None, b1), TypeError,
                     'tuple required for first state element'),
                    (([b1], b1), TypeError,
                     'tuple required for first state element'),
                    ([[b1], b1], TypeError,
                     'tuple required for first state element'),
                    ({1: 2}, KeyError, '0')):
                t = fresh()
                expect_raise(exc, msg, t.__setstate__, state)
                ok(same(tree_snapshot(t), before), 'untouched', state)

            # --- failing later: what is left behind
            for state, exc, msg, left in (
                    ((), ValueError,
                     'not enough values to unpack (expected 2, got 0)',
                     cleared),
                    ([], ValueError,
                     'not enough values to unpack (expected 2, got 0)',
                     cleared),
                    (0, TypeError, "object of type 'int' has no len()",
                     cleared),
                    (((b1,), b1, 3), ValueError,
                     'too many values to unpack (expected 2)', cleared),
                    (((),), IndexError, 'tuple index out of range', cleared),
                    (((5,),), TypeError, "'int' object is not subscriptable",
                     cleared),
                    ((((5,),),), TypeError,
                     'tuple required for first state element', cleared),
                    (((), None), IndexError, 'pop from empty list', cleared),
                    (((), b2), IndexError, 'pop from empty list', ([], b2)),
                    # the firstbucket is installed before the children are
                    # looked at; children are checked last to first
                    (((5,), b2), TypeError, neither('builtins.int'),
                     ([], b2)),
                    (((b1, k2, 5), b2), TypeError, neither('builtins.int'),
                     ([], b2)),
                    ((('x', k2, 5.0), b2), TypeError,
                     neither('builtins.float'), ([], b2)),
                    (((b1, k2, None, k3, b3), b2), TypeError,
                     neither('builtins.NoneType'), ([], b2)),
                    (((WrongLeaf(),), b2), TypeError,
                     neither('BTrees.%sBTree.%s' % (
                         fam, WrongLeaf.__name__)), ([], b2)),
                    (((CL(),), b2), TypeError,
                     neither('BTrees.%sBTree.%s%s' % (fam, fam, leafkind)),
                     ([], b2)),
                    (((CT(),), b2), TypeError,
                     neither('BTrees.%sBTree.%s%s' % (fam, fam, kind)),
                     ([], b2)),
                    # an even number of elements: what is checked are the
                    # odd positions, and the last separator has no child
                    (((b1, 7), b2), TypeError, neither('builtins.int'),
                     ([], b2)),
                    (((7, b1), b2), IndexError, 'pop from empty list',
                     ([(None, 7)], b2)),
                    (((b1, b2), b3), IndexError, 'pop from empty list',
                     ([(None, b1)], b3)),
                    (((b1, k2, b2, b3), b1), TypeError,
                     neither('builtins.' + type(k2).__name__), ([], b1))):
                t = fresh()
                expect_raise(exc, msg, t.__setstate__, state)
                ok(same(tree_snapshot(t), left), 'left behind', fam, kind,
                   state, tree_snapshot(t))

            # a subclass of the tree is not a valid child; its own are
            class SubTree(T):
                pass
            sub_inner = SubTree()
            sub_inner.__setstate__(((b1, k2, b2), b1))
            t = fresh()
            expect_raise(TypeError, neither('%s.SubTree' % __name__),
                         t.__setstate__, ((sub_inner,), b1))
            st = SubTree()
            st.__setstate__(((sub_inner,), b1))
            ok(same(tree_snapshot(st), ([(None, sub_inner)], b1)), 'subclass')
            expect_raise(
                TypeError, 'tree child %s is neither %s.SubTree nor %s' % (
                    tname, __name__, lname),
                st.__setstate__, ((inner,), b1))

            # a failing leaf factory: nothing but the clear() has happened
            class Odd(T):
                def _bucket_type(self=None):
                    raise RuntimeError('no bucket today')
            o = Odd()
            expect_raise(RuntimeError, 'no bucket today', o.__setstate__,
                         ((ls,),))
            ok(same(tree_snapshot(o), cleared), 'cleared only')

            # --- a subclass's clear() is what drops the contents
            calls = []

            class Cleared(T):
                def clear(self):
                    calls.append(tree_snapshot(self))
                    T.clear(self)
            c = Cleared()
            del calls[:]
            c.__setstate__(((b1,), b1))
            c.__setstate__(None)
            expect_raise(TypeError, 'tuple required for first state element',
                         c.__setstate__, (5,))
            ok(len(calls) == 2 and same(calls[0], cleared) and
               same(calls[1], ([(None, b1)], b1)), 'clear() calls')

            # --- persistence
            jar = Jar()
            t = fresh()
            jar.add(t)
            jar.save(t)
            ok(t._p_changed is False and not jar.registered, 'clean')
            s = t.__getstate__()
            ok(t._p_changed is False and not jar.registered, 'still clean')
            t.__setstate__(((b1,), b1))
            ok(t._p_changed is True and len(jar.registered) == 1
               and jar.registered[0] is t, 'registered once')


def part2_reduce():
    for fam in FAMILIES:
        m = mod(fam)
        for name in ('BTree', 'Bucket', 'TreeSet', 'Set'):
            P = py(fam, name)
            C = getattr(m, fam + name)
            is_map = name in ('BTree', 'Bucket')
            rnd = random.Random(fam + name)
            p = P()
            ok(p.__class__ is C and type(p) is P, '__class__ is the C class')
            ok(isinstance(p, C) and isinstance(p, P), 'isinstance both ways')
            r = p.__reduce__()
            ok(type(r) is tuple and len(r) == 3 and
               r[0] is copyreg.__newobj__ and type(r[1]) is tuple and
               r[1] == (C,) and r[1][0] is C, '__reduce__ of empty', r)
            ok(r[2] == p.__getstate__(), 'state of empty')
            for _ in range(3):
                k = gen_key(fam, rnd, 50)
                if is_map:
                    p[k] = gen_value(fam, rnd)
                else:
                    p.add(k)
            r = p.__reduce__()
            ok(r[0] is copyreg.__newobj__ and r[1] == (C,) and
               same(r[2], p.__getstate__()), '__reduce__', r)
            for proto in range(pickle.HIGHEST_PROTOCOL + 1):
                rx = p.__reduce_ex__(proto)
                if proto >= 2:
                    ok(rx[1] == (C,) and same(rx[2], p.__getstate__()),
                       '__reduce_ex__', proto, rx)
                else:
                    ok(C in rx[1], '__reduce_ex__', proto, rx)

            # subclasses keep their own class
            class Sub(P):
                pass
            sp = Sub()
            ok(sp.__class__ is Sub, 'subclass __class__')
            ok(sp.__reduce__()[1] == (Sub,), 'subclass __reduce__')

            class SubSub(Sub):
                pass
            ok(SubSub().__class__ is SubSub and
               SubSub().__reduce__()[1] == (SubSub,), 'sub-subclass')

            # __getnewargs__ are passed on behind the class
            class WithArgs(P):
                def __new__(cls, *args):
                    return P.__new__(cls)

                def __init__(self, *args):
                    P.__init__(self)

                def __getnewargs__(self):
                    return (1, 'two')
            w = WithArgs(1, 'two')
            r = w.__reduce__()
            ok(r[0] is copyreg.__newobj__ and r[1] == (WithArgs, 1, 'two')
               and type(r[1]) is tuple and r[2] == w.__getstate__(),
               'new args kept', r)

            # a __getstate__ that fails: nothing else is consulted
            class Failing(P):
                looked = []

                def __getstate__(self):
                    raise RuntimeError('no state')

                @property
                def __class__(self):
                    Failing.looked.append(1)
                    return P.__class__.fget(self)
            f = Failing()
            expect_raise(RuntimeError, 'no state',
                         lambda _: f.__reduce__(), None)
            ok(Failing.looked == [], 'class looked up after the state')


EXPECTED_DIGEST = (
    '5a3a94f77eb71aadf915ce2b706489a39adb32452ed486b5a84baa556e38b0ac')


def part2_corpus():
    """A seeded corpus of well- and ill-formed states, thrown at the Python
    leaves and trees: exception type, message and what is left in the object
    are folded into a digest that was recorded on the unmodified tree."""
    h = hashlib.sha256()
    rnd = random.Random(20260930)
    for fam in ('OO', 'IO', 'LL', 'fs', 'UF'):
        Ls = [py(fam, 'Bucket'), py(fam, 'Set')]
        Ts = [py(fam, 'BTree'), py(fam, 'TreeSet')]
        pool = [None, 0, 1, -3, 2.5, 'a', 'zz', b'ab', (), (1,), (1, 2),
                (1, 2, 3), ((1, 2),), (((1, 2),),), [], [1, 2], ((),),
                (('a', 'b', 'c', 'd'),), ((), None)]
        objs = []
        for cls in Ls + Ts + [getattr(mod(fam), fam + 'Bucket'),
                              getattr(mod(fam), fam + 'Set')]:
            objs.append(cls())
            objs.append(cls())
        labels = dict((id(o), 'obj%d' % i) for i, o in enumerate(objs))

        def label(x, depth=0):
            if id(x) in labels:
                return labels[id(x)]
            if isinstance(x, (tuple, list)):
                return [type(x).__name__] + [label(y) for y in x]
            if isinstance(x, (int, float, str, bytes, type(None))):
                return repr(x)
            return '<%s>' % type(x).__name__

        def pick(depth=0):
            r = rnd.random()
            if r < 0.35:
                return rnd.choice(objs)
            if r < 0.7 or depth > 2:
                return rnd.choice(pool)
            n = rnd.randrange(0, 5)
            seq = [pick(depth + 1) for _ in range(n)]
            return tuple(seq) if rnd.random() < 0.8 else seq

        for _ in range(1500):
            cls = rnd.choice(Ls + Ts)
            target = cls()
            shape_ = rnd.randrange(6)
            if shape_ == 0:
                state = pick()
            elif shape_ == 1:
                state = (pick(1),)
            elif shape_ == 2:
                state = (pick(1), pick(2))
            elif shape_ == 3:
                state = (tuple(pick(2) for _ in range(rnd.randrange(6))),
                         rnd.choice(objs))
            elif shape_ == 4:
                state = ((tuple(pick(2) for _ in range(rnd.randrange(5))),),)
            else:
                state = (tuple(rnd.choice(objs)
                               if i % 2 == 0 else rnd.choice(pool[1:8])
                               for i in range(rnd.randrange(1, 6))),
                         rnd.choice(objs))
            try:
                target.__setstate__(state)
                outcome = 'ok'
            except Exception as e:
                outcome = '%s: %s' % (type(e).__name__, e)
            if cls in Ls:
                snap = leaf_snapshot(target)
            else:
                snap = tree_snapshot(target)
                # an embedded leaf is a new object: describe it by contents
                fb = snap[1]
                if type(fb) in Ls and id(fb) not in labels:
                    snap = (snap[0], ('new leaf', leaf_snapshot(fb)))
                    snap = ([(k, 'new leaf' if c is fb else c)
                             for k, c in snap[0]], snap[1])
            line = repr((cls.__name__, label(state), outcome, label(snap)))
            ok('0x' not in line, 'no addresses in the record', line)
            h.update(line.encode('utf-8'))
            h.update(b'\n')
    digest = h.hexdigest()
    if EXPECTED_DIGEST is None:
        print('corpus digest:', digest)
    else:
        ok(digest == EXPECTED_DIGEST, 'corpus digest', digest)


def part2():
    part2_leaves()
    part2_trees()
    part2_reduce()
    part2_corpus()



LEAKS = {}


# --------------------------------------------------------------------------
# Part 3: ghosts
# --------------------------------------------------------------------------

class Jar(object):
    """Just enough of a ZODB connection to revive ghosts."""

    def __init__(self):
        self.states = {}
        self.loads = 0
        self.registered = []

    def add(self, obj):
        oid = ('%08d' % (len(self.states) + 1)).encode('ascii')
        obj._p_jar = self
        obj._p_oid = oid
        self.states[oid] = None
        return oid

    def save(self, obj):
        self.states[obj._p_oid] = obj.__getstate__()
        obj._p_changed = False

    def setstate(self, obj):
        self.loads += 1
        obj.__setstate__(self.states[obj._p_oid])

    def register(self, obj):
        self.registered.append(obj)

    def readCurrent(self, obj):
        pass


def nodes(t):
    """All persistent nodes of a multi-bucket tree: the tree nodes depth
    first through their states, then the leaves along the leaf chain (an
    interior node with a single leaf embeds it as long as it has no oid)."""
    out = []

    def walk(n):
        out.append(n)
        s = n.__getstate__()
        if s is not None and len(s) == 2:
            for c in s[0][0::2]:
                if 'Tree' in type(c).__name__:
                    walk(c)
    walk(t)
    leaf = t.__getstate__()[1]
    while leaf is not None:
        out.append(leaf)
        s = leaf.__getstate__()
        leaf = s[1] if len(s) == 2 else None
    return out


def leafless(sh):
    """A shape with interior nodes holding one leaf normalized: such a node
    embeds the leaf while it has no oid and refers to it once it has."""
    if len(sh) == 4 and sh[1] == 'embedded':
        return ('leaf', sh[2])
    if len(sh) == 3 and type(sh[2]) is list:
        kids = [leafless(k) for k in sh[2]]
        if len(kids) == 1 and kids[0][0] == 'leaf':
            return kids[0]
        return (sh[0], sh[1], kids)
    if len(sh) == 3:
        return ('leaf', sh[1])
    return sh


def part3():
    for fam in ('OO', 'IO', 'LL', 'UF', 'QO', 'fs', 'OI'):
        for kind in ('BTree', 'TreeSet'):
            is_map = kind == 'BTree'
            for impl in 'CP':
                rnd = random.Random(fam + kind)
                t = small(fam, kind, impl)()
                model = {} if is_map else set()
                apply_ops(t, model, is_map, fam, rnd, 120, 60)
                want = model_contents(model, is_map)
                jar = Jar()
                all_nodes = nodes(t)
                ok(len(all_nodes) > 5, 'several nodes')
                for n in all_nodes:
                    jar.add(n)
                for n in all_nodes:
                    jar.save(n)
                before = shape(t, is_map)
                for n in all_nodes:
                    n._p_deactivate()
                    ok(n._p_changed is None, 'ghost', impl, type(n))
                ok(jar.loads == 0, 'nothing loaded yet')
                ok(contents(t, is_map) == want, 'revived', fam, kind, impl)
                ok(0 < jar.loads <= len(all_nodes), 'loaded on demand')
                after = shape(t, is_map)
                ok(jar.loads == len(all_nodes), 'each node loaded once',
                   jar.loads, len(all_nodes))
                ok(after[0] == before[0] and after[1] == before[1],
                   'same root after reload')
                ok(leafless(after) == leafless(before), 'same shape')
                t._check()
                ok(not jar.registered, 'loading does not dirty anything')
                # a second cycle, loading only what a lookup needs
                for n in all_nodes:
                    n._p_deactivate()
                jar.loads = 0
                if want:
                    k = want[0][0] if is_map else want[0]
                    ok(k in t, 'lookup in ghost tree')
                    ok(0 < jar.loads < len(all_nodes), 'partial load')
                # usable and registers changes
                apply_ops(t, model, is_map, fam, rnd, 30, 60)
                ok(contents(t, is_map) == model_contents(model, is_map),
                   'usable after reload')
                t._check()
                ok(jar.registered, 'changes registered')

            # a one-bucket tree whose bucket has an oid is not embedded
            for impl in 'CP':
                cls = small(fam, kind, impl)
                t = cls()
                model = {} if is_map else set()
                apply_ops(t, model, is_map, fam, random.Random(9), 3, 60)
                want = model_contents(model, is_map)
                s = t.__getstate__()
                ok(len(s) == 1, 'embedded while the bucket has no oid')
                jar = Jar()
                jar.add(t)
                ok(t.__getstate__() == s, 'still embedded')
                b = t._firstbucket
                jar.add(b)
                s2 = t.__getstate__()
                ok(len(s2) == 2 and s2[0] == (b,) and s2[0][0] is b
                   and s2[1] is b, 'bucket with an oid: normal form', s2)
                t2 = cls()
                t2.__setstate__(s2)
                ok(t2._firstbucket is b, 'same bucket')
                ok(contents(t2, is_map) == want, 'one child, normal form')
                t2._check()
                t3 = cls()
                t3.__setstate__(s)
                ok(t3._firstbucket is not b, 'embedded: a bucket of its own')
                ok(contents(t3, is_map) == want, 'embedded')
                ok(t3.__getstate__() == s, 'embedded state reproduced')
                # ghost cycle of the two
                jar.save(b)
                jar.save(t)
                t._p_deactivate()
                b._p_deactivate()
                ok(t._p_changed is None and b._p_changed is None, 'ghosts')
                ok(contents(t, is_map) == want, 'revived')
                ok(t._firstbucket is b and jar.loads == 2, 'same bucket')


def main():
    shrink_nodes()
    try:
        part1()
        part3()
    finally:
        restore_nodes()
    part1_stock_sizes()
    part2()
    # each kind and implementation went through each of the three forms
    for kind in ('BTree', 'TreeSet'):
        for impl in 'CPS':
            for form in ('none', 'embedded', 'normal'):
                ok(FORMS_SEEN.get((kind, impl, form), 0) >= 22,
                   'form coverage', kind, impl, form, FORMS_SEEN)
    gc.collect()
    print('demo v: OK (%d checks)' % CHECKS[0])
    return 0


if __name__ == '__main__':
    sys.exit(main())
