"""Equivalence demonstration for property C16 (reference accounting of the C
extension).  Runs the same operation histories against

  * the C implementation, storing instrumented key/value objects, and
  * an independent reference model (a plain dict for the contents, and the
    pure-Python BTrees implementation for the node structure),

and checks, after every step, that

  * the contents agree with the model (by object identity),
  * every instrumented object is referenced by the container exactly as many
    times as it occurs in the model's structure (bucket slots + separators
    from index 1), i.e. ``sys.getrefcount`` moved by exactly that much,
  * objects die (weakref callbacks fire) exactly when the model says the
    container dropped its last reference, and a callback that looks at the
    container finds it consistent.

Exit status 0 = all expectations met.
"""
import gc
import random
import sys
import weakref

from BTrees import IIBTree as II
from BTrees import IOBTree as IO
from BTrees import OIBTree as OI
from BTrees import OOBTree as OO
from BTrees import fsBTree as FS

FAILURES = []
CHECKS = [0]


def check(cond, msg):
    CHECKS[0] += 1
    if not cond:
        FAILURES.append(msg)
        print("FAIL:", msg)


def expect_raises(exc, fn, *args):
    try:
        fn(*args)
    except exc as e:
        CHECKS[0] += 1
        return e
    except BaseException as e:  # wrong class
        check(False, "%s raised %r, expected %s" % (fn, e, exc.__name__))
        return e
    check(False, "%s did not raise %s" % (fn, exc.__name__))


TRIP = [None]   # countdown: the (n+1)-th key comparison from now raises


ACTION = [None]  # what the tripwire does (default: raise ZeroDivisionError)


def trip():
    if TRIP[0] is not None:
        TRIP[0] -= 1
        if TRIP[0] < 0:
            TRIP[0] = None
            if ACTION[0] is not None:
                ACTION[0]()
            else:
                raise ZeroDivisionError('tripwire')


class K(object):
    """Orderable, weak-referenceable key object."""
    __slots__ = ('v', '__weakref__')

    def __init__(self, v):
        self.v = v

    def __lt__(self, other):
        trip()
        return self.v < other.v

    def __eq__(self, other):
        trip()
        return self.v == other.v

    def __hash__(self):
        return hash(self.v)

    def __repr__(self):
        return 'K(%r)' % (self.v,)


class V(object):
    """Value object (only conflict resolution compares values)."""
    __slots__ = ('v', '__weakref__')

    def __init__(self, v):
        self.v = v

    def __lt__(self, other):
        return self.v < other.v

    def __eq__(self, other):
        return self.v == other.v

    def __hash__(self):
        return hash(self.v)

    def __repr__(self):
        return 'V(%r)' % (self.v,)


class Bad(object):
    """Key whose comparison always fails."""
    __slots__ = ('__weakref__',)

    def __lt__(self, other):
        raise ZeroDivisionError('cmp')

    __gt__ = __le__ = __ge__ = __lt__

    def __eq__(self, other):
        raise ZeroDivisionError('cmp')

    def __hash__(self):
        return 1

    @property
    def v(self):    # K.__lt__/__eq__ of a stored key look at other.v
        raise ZeroDivisionError('cmp')


def rc(o):
    return sys.getrefcount(o)


class Pool(object):
    """Owns instrumented objects and knows their refcount with no container."""

    def __init__(self, cls, n):
        self.objs = [cls(i) for i in range(n)]
        self.base = [0] * n
        for i in range(n):
            self.base[i] = rc(self.objs[i])

    def __getitem__(self, i):
        return self.objs[i]

    def extra(self, i):
        """References beyond the pool's own."""
        return rc(self.objs[i]) - self.base[i]

    def extras(self):
        return [self.extra(i) for i in range(len(self.objs))]


def is_tree(o):
    return hasattr(o, '_firstbucket')


def structure(o, is_map, kproj, vproj):
    """Nested description of a bucket/tree from its pickled state.

    Returns (shape, key_occurrences, value_occurrences) where the occurrence
    lists name every owned slot: bucket keys, bucket values, and the
    separator keys of interior nodes.
    """
    kocc, vocc = [], []
    shape = _walk(o, is_map, kproj, vproj, kocc, vocc)
    return shape, kocc, vocc


def _walk(o, is_map, kproj, vproj, kocc, vocc):
    s = o.__getstate__()
    if s is None:
        return None
    if is_tree(o):
        data = s[0]
        if len(s) == 1:
            # a tree holding one never-persisted bucket: state is inline
            return ('T1', _flat(data[0][0], is_map, kproj, vproj, kocc, vocc))
        out = []
        for i, x in enumerate(data):
            if i % 2 == 0:
                out.append(_walk(x, is_map, kproj, vproj, kocc, vocc))
            else:
                kocc.append(x)
                out.append(kproj(x))
        return ('T', tuple(out))
    return ('B', _flat(s[0], is_map, kproj, vproj, kocc, vocc))


def _flat(items, is_map, kproj, vproj, kocc, vocc):
    out = []
    if is_map:
        for i, x in enumerate(items):
            if i % 2 == 0:
                kocc.append(x)
                out.append(kproj(x))
            else:
                vocc.append(x)
                out.append(vproj(x))
    else:
        for x in items:
            kocc.append(x)
            out.append(kproj(x))
    return tuple(out)


def ident(x):
    return x


def getv(x):
    return x.v


def contents_ok(where, c, model, is_map, kpool=None, vpool=None):
    """Container `c` holds exactly what dict/set `model` says (by identity)."""
    want = sorted(model)
    got = list(c.keys())
    check(len(got) == len(want) and all(
        (g is kpool[w]) if kpool is not None else (g == w)
        for g, w in zip(got, want)),
        '%s: keys differ: %r vs %r' % (where, got, want))
    check(len(c) == len(want), '%s: len %r vs %r' % (where, len(c), len(want)))
    if is_map:
        gotv = list(c.values())
        check(len(gotv) == len(want) and all(
            (g is vpool[model[w]]) if vpool is not None else (g == model[w])
            for g, w in zip(gotv, want)),
            '%s: values differ: %r' % (where, gotv))
    if is_tree(c):
        c._check()


def counts(c, is_map, kpool=None, vpool=None):
    """(shape, {key index: owned slots}, {value index: owned slots}) of c."""
    kproj = getv if kpool is not None else ident
    vproj = getv if vpool is not None else ident
    shape, kocc, vocc = structure(c, is_map, kproj, vproj)
    kcount, vcount = {}, {}
    for x in kocc:
        kcount[kproj(x)] = kcount.get(kproj(x), 0) + 1
    for x in vocc:
        vcount[vproj(x)] = vcount.get(vproj(x), 0) + 1
    return shape, kcount, vcount


def refs_ok(where, kpool, vpool, *countlist):
    """Every pooled object is referenced once per slot the model lists."""
    if kpool is not None:
        for i in range(len(kpool.objs)):
            want = sum(kc.get(i, 0) for (sh, kc, vc) in countlist)
            e = kpool.extra(i)
            check(e == want,
                  '%s: key %d holds %d container refs, model says %d'
                  % (where, i, e, want))
    if vpool is not None:
        for i in range(len(vpool.objs)):
            want = sum(vc.get(i, 0) for (sh, kc, vc) in countlist)
            e = vpool.extra(i)
            check(e == want,
                  '%s: value %d holds %d container refs, model says %d'
                  % (where, i, e, want))


def audit(where, c, model, is_map, kpool=None, vpool=None, pymodel=None):
    """Compare container `c` with dict/set `model` and audit references."""
    contents_ok(where, c, model, is_map, kpool, vpool)
    cnt = counts(c, is_map, kpool, vpool)
    if pymodel is not None:
        pshape = counts(pymodel, is_map)[0]
        check(cnt[0] == pshape,
              '%s: structure differs from pure-Python model:\n  C  %r\n  Py %r'
              % (where, cnt[0], pshape))
    refs_ok(where, kpool, vpool, cnt)


def small(cls, leaf=4, internal=3):
    """Subclass with tiny nodes so that short histories split and merge."""
    return type(cls.__name__ + 'Small', (cls,),
                {'max_leaf_size': leaf, 'max_internal_size': internal})


class Jar(object):
    """Minimal data manager: lets objects be ghostified and reloaded."""

    def __init__(self):
        self.states = {}
        self.registered = []
        self.loads = 0
        self.next_oid = 0
        self.fail = False

    def add(self, o):
        self.next_oid += 1
        o._p_jar = self
        o._p_oid = self.next_oid.to_bytes(8, 'big')

    def save(self, o):
        self.states[o._p_oid] = o.__getstate__()
        o._p_changed = False

    def setstate(self, o):
        if self.fail:
            raise IOError('storage is down')
        self.loads += 1
        o.__setstate__(self.states[o._p_oid])

    def register(self, o):
        self.registered.append(o._p_oid)

    def readCurrent(self, o):
        pass


def classes(mod):
    """(prefix, {kind: (C class, Py class)}) of a BTrees family module."""
    prefix = mod.__name__.split('.')[-1][:-5]
    out = {}
    for kind in ('Bucket', 'Set', 'BTree', 'TreeSet'):
        out[kind] = (getattr(mod, prefix + kind),
                     getattr(mod, prefix + kind + 'Py'))
    return prefix, out


def run_history(name, C, P, is_map, objkeys, objvals, nkeys=24, steps=300,
                seed=0, on_step=None):
    """Random insert/replace/delete history on C (instrumented objects),
    P (pure-Python model of the structure) and a dict/set (contents)."""
    rnd = random.Random(seed)
    kpool = Pool(K, nkeys) if objkeys else None
    vpool = Pool(V, nkeys * 2) if (objvals and is_map) else None
    ckey = (lambda i: kpool[i]) if objkeys else ident
    cval = (lambda j: vpool[j]) if vpool is not None else ident
    c, p = C(), P()
    model = {} if is_map else set()
    audit(name + ' empty', c, model, is_map, kpool, vpool, p)
    for step in range(steps):
        where = '%s step %d' % (name, step)
        i = rnd.randrange(nkeys)
        present = i in model
        op = rnd.random()
        # bias towards growth early and towards shrinking late, so that the
        # container repeatedly fills up, splits, drains and becomes empty
        grow = (step // 40) % 2 == 0
        if op < (0.7 if grow else 0.25):
            if is_map:
                j = rnd.randrange(nkeys * 2)
                c[ckey(i)] = cval(j)
                p[i] = j
                model[i] = j
            else:
                c.add(ckey(i))
                p.add(i)
                model.add(i)
        elif present:
            if is_map and op > 0.9:
                got = c.pop(ckey(i))
                check(got is cval(model[i]), where + ': pop result')
                del got
                p.pop(i)
                del model[i]
            elif is_map:
                del c[ckey(i)]
                del p[i]
                del model[i]
            else:
                c.remove(ckey(i))
                p.remove(i)
                model.remove(i)
        else:
            if is_map:
                expect_raises(KeyError, c.__delitem__, ckey(i))
            else:
                expect_raises(KeyError, c.remove, ckey(i))
        audit(where, c, model, is_map, kpool, vpool, p)
        if on_step is not None:
            on_step(where, c, p, model, kpool, vpool)
    # drain completely through the deletion path, front / back / middle
    order = sorted(model)
    rnd.shuffle(order)
    for n, i in enumerate(order):
        if is_map:
            del c[ckey(i)]
            del p[i]
            del model[i]
        else:
            c.remove(ckey(i))
            p.remove(i)
            model.remove(i)
        audit('%s drain %d' % (name, n), c, model, is_map, kpool, vpool, p)
    # refill, then drop the container: everything is given back
    for i in range(nkeys):
        if is_map:
            c[ckey(i)] = cval(i)
        else:
            c.add(ckey(i))
    del c
    gc.collect()
    if kpool is not None:
        check(not any(kpool.extras()), name + ': keys leaked on dealloc')
    if vpool is not None:
        check(not any(vpool.extras()), name + ': values leaked on dealloc')


def run_histories(tag, kinds, steps=300, seeds=(1, 2)):
    for mod, objkeys, objvals in ((OO, True, True), (OI, True, False),
                                  (IO, False, True), (II, False, False)):
        prefix, cls = classes(mod)
        for kind in kinds:
            C, P = cls[kind]
            if kind in ('BTree', 'TreeSet'):
                C, P = small(C), small(P)
            is_map = kind in ('Bucket', 'BTree')
            for seed in seeds:
                run_history('%s %s%s seed %d' % (tag, prefix, kind, seed),
                            C, P, is_map, objkeys, objvals,
                            steps=steps, seed=seed)


def dying_entries(tag, C, is_map, remove, nkeys=9):
    """Entries whose only owner is the container die exactly when they are
    removed, and the callback finds the container already consistent."""
    for victim in range(nkeys):
        c = C()
        log = []
        refs = []

        def seen(ref, c=c, log=log):
            # runs from inside the C code that released the object
            log.append((sorted(k.v for k in c.keys()), len(c)))
            if is_tree(c):
                c._check()

        for i in range(nkeys):
            k = K(i)
            refs.append(weakref.ref(k, seen))
            if is_map:
                v = V(i)
                refs.append(weakref.ref(v, seen))
                c[k] = v
                del v
            else:
                c.add(k)
            del k
        check(all(r() is not None for r in refs), tag + ': died early')
        check(log == [], tag + ': callback ran early')
        remove(c, K(victim))
        rest = [i for i in range(nkeys) if i != victim]
        want = [(rest, len(rest))] * (2 if is_map else 1)
        check(log == want, '%s: victim %d: callbacks saw %r, expected %r'
              % (tag, victim, log, want))
        dead = [n for n, r in enumerate(refs) if r() is None]
        wantdead = ([2 * victim, 2 * victim + 1] if is_map else [victim])
        check(dead == wantdead, '%s: victim %d: dead %r' % (tag, victim, dead))
        del log[:]
        c.clear()
        check(all(r() is None for r in refs), tag + ': survivors after clear')
        # while clearing, every callback saw an empty container
        check(log == [([], 0)] * (len(refs) - len(wantdead)),
              '%s: callbacks during clear saw %r' % (tag, log))


def same_failure(where, cop, pop, classes_ok):
    """C and pure-Python operations fail with the same exception class."""
    ce = pe = None
    try:
        cop()
    except Exception as e:
        ce = type(e)
    try:
        pop()
    except Exception as e:
        pe = type(e)
    check(ce is not None and ce is pe and ce in classes_ok,
          '%s: C raised %r, Python raised %r' % (where, ce, pe))


def error_paths(tag):
    """Failing stores and deletes leave contents and references alone."""
    prefix, oo = classes(OO)
    for kind in ('Bucket', 'BTree', 'Set', 'TreeSet'):
        C, P = oo[kind]
        if kind in ('BTree', 'TreeSet'):
            C, P = small(C), small(P)
        is_map = kind in ('Bucket', 'BTree')
        where = '%s OO%s' % (tag, kind)
        kpool, vpool = Pool(K, 20), (Pool(V, 20) if is_map else None)
        c, p = C(), P()
        model = {} if is_map else set()
        for i in range(0, 20, 2):
            if is_map:
                c[kpool[i]] = vpool[i]
                p[i] = i
                model[i] = i
            else:
                c.add(kpool[i])
                p.add(i)
                model.add(i)
        audit(where + ' filled', c, model, is_map, kpool, vpool, p)
        cstore = (lambda k: c.__setitem__(k, vpool[1])) if is_map else c.add
        pstore = (lambda k: p.__setitem__(k, 1)) if is_map else p.add
        cdel = c.__delitem__ if is_map else c.remove
        pdel = p.__delitem__ if is_map else p.remove
        # deleting a key that is not there (before, between, after)
        for i in (-1, 7, 99):
            probe = K(i)
            base = rc(probe)
            same_failure(where + ' delete missing',
                         lambda: cdel(probe), lambda: pdel(i), (KeyError,))
            check(rc(probe) == base, where + ': missing key retained')
            audit(where + ' delete missing %d' % i, c, model, is_map,
                  kpool, vpool, p)
        # a key whose comparison raises
        bad = Bad()
        base = rc(bad)
        same_failure(where + ' bad key store', lambda: cstore(bad),
                     lambda: pstore(Bad()), (ZeroDivisionError,))
        same_failure(where + ' bad key delete', lambda: cdel(bad),
                     lambda: pdel(Bad()), (ZeroDivisionError,))
        check(rc(bad) == base, where + ': uncomparable key retained')
        # a key with default comparison is refused before anything happens
        plain = object()
        base = rc(plain)
        same_failure(where + ' plain key store', lambda: cstore(plain),
                     lambda: pstore(object()), (TypeError,))
        check(rc(plain) == base, where + ': refused key retained')
        audit(where + ' after failures', c, model, is_map, kpool, vpool, p)
    # values that cannot be converted: nothing is stored, not even the key
    prefix, oi = classes(OI)
    for kind in ('Bucket', 'BTree'):
        C, P = oi[kind]
        if kind == 'BTree':
            C, P = small(C), small(P)
        where = '%s OI%s' % (tag, kind)
        kpool = Pool(K, 20)
        c, p = C(), P()
        model = {}
        for i in range(0, 20, 2):
            c[kpool[i]] = i
            p[i] = i
            model[i] = i
        for badv in ('x', None, 2 ** 40, 1.5):
            for i in (4, 5):   # existing key (replace) and new key (insert)
                same_failure(where + ' bad value %r' % (badv,),
                             lambda: c.__setitem__(kpool[i], badv),
                             lambda: p.__setitem__(i, badv),
                             (TypeError, OverflowError))
                audit(where + ' bad value %r' % (badv,), c, model, True,
                      kpool, None, p)
    prefix, io = classes(IO)
    for kind in ('Bucket', 'BTree'):
        C, P = io[kind]
        if kind == 'BTree':
            C, P = small(C), small(P)
        where = '%s IO%s' % (tag, kind)
        vpool = Pool(V, 20)
        c, p = C(), P()
        model = {}
        for i in range(0, 20, 2):
            c[i] = vpool[i]
            p[i] = i
            model[i] = i
        for badk in ('x', None, 2 ** 40, 1.5):
            same_failure(where + ' bad key %r' % (badk,),
                         lambda: c.__setitem__(badk, vpool[1]),
                         lambda: p.__setitem__(badk, 1),
                         (TypeError, OverflowError))
            audit(where + ' bad key %r' % (badk,), c, model, True,
                  None, vpool, p)


def fs_history(tag, seed=5, steps=400):
    """fsBTree: 2-byte keys and 6-byte values are moved as raw bytes."""
    rnd = random.Random(seed)
    for C, P in ((FS.fsBucket, FS.fsBucketPy),
                 (small(FS.fsBTree), small(FS.fsBTreePy))):
        c, p, model = C(), P(), {}
        for step in range(steps):
            k = ('%02d' % rnd.randrange(40)).encode()
            v = ('%06d' % rnd.randrange(10 ** 6)).encode()
            if rnd.random() < (0.65 if (step // 50) % 2 == 0 else 0.2):
                c[k] = v
                p[k] = v
                model[k] = v
            elif k in model:
                del c[k], p[k], model[k]
            else:
                expect_raises(KeyError, c.__delitem__, k)
            audit('%s %s step %d' % (tag, C.__name__, step), c, model, True,
                  None, None, p)
        for k in sorted(model, key=lambda k: rnd.random()):
            del c[k], p[k], model[k]
            audit('%s %s drain' % (tag, C.__name__), c, model, True,
                  None, None, p)


def nodes_of(c):
    """All persistent nodes (interior nodes and buckets) reachable from c."""
    out = [c]
    if is_tree(c):
        s = c.__getstate__()
        if s is not None:
            for i, x in enumerate(s[0]):
                if i % 2 == 0 and hasattr(x, '__getstate__') \
                        and not isinstance(x, tuple):
                    out.extend(nodes_of(x))
    return out


def fill(c, is_map, kpool, vpool, idx):
    model = {} if is_map else set()
    for i in idx:
        k = kpool[i] if kpool is not None else i
        if is_map:
            c[k] = vpool[i] if vpool is not None else i
            model[i] = i
        else:
            c.add(k)
            model.add(i)
    return model


def scaled(cnt, n):
    sh, kc, vc = cnt
    return (sh, dict((k, v * n) for k, v in kc.items()),
            dict((k, v * n) for k, v in vc.items()))


def bulk_release(tag, n=40):
    """clear(), eviction (ghostify + reload), __setstate__ over live data,
    deallocation and cyclic GC all give back exactly what was held."""
    rnd = random.Random(7)
    for mod, objkeys, objvals in ((OO, True, True), (OI, True, False),
                                  (IO, False, True)):
        prefix, cls = classes(mod)
        for kind in ('Bucket', 'Set', 'BTree', 'TreeSet'):
            C = cls[kind][0]
            if kind in ('BTree', 'TreeSet'):
                C = small(C)
            is_map = kind in ('Bucket', 'BTree')
            where = '%s %s%s' % (tag, prefix, kind)
            kpool = Pool(K, n) if objkeys else None
            vpool = Pool(V, n) if (objvals and is_map) else None
            idx = list(range(n))
            rnd.shuffle(idx)

            # 1. clear(), on containers of every size incl. empty ones
            for size in (0, 1, 2, 5, n):
                c = C()
                model = fill(c, is_map, kpool, vpool, idx[:size])
                audit(where + ' filled %d' % size, c, model, is_map,
                      kpool, vpool)
                c.clear()
                contents_ok(where + ' cleared %d' % size, c,
                            {} if is_map else set(), is_map, kpool, vpool)
                refs_ok(where + ' cleared %d' % size, kpool, vpool)
                c.clear()      # clearing an empty container is harmless
                refs_ok(where + ' cleared twice', kpool, vpool)
                # the cleared container is fully usable again
                model = fill(c, is_map, kpool, vpool, idx[:size])
                audit(where + ' refilled %d' % size, c, model, is_map,
                      kpool, vpool)
                del c
                refs_ok(where + ' dealloc %d' % size, kpool, vpool)

            # 2. eviction: every node is saved, ghostified and reloaded
            c = C()
            model = fill(c, is_map, kpool, vpool, idx)
            jar = Jar()
            nodes = nodes_of(c)
            for node in nodes:
                jar.add(node)
            for node in nodes:
                jar.save(node)
            held = counts(c, is_map, kpool, vpool)   # = slots of saved states
            refs_ok(where + ' saved', kpool, vpool, scaled(held, 2))
            for how in ('_p_deactivate', '_p_invalidate'):
                for node in nodes:
                    getattr(node, how)()
                    check(node._p_changed is None, where + ': not a ghost')
                # only the saved state tuples still refer to the objects
                refs_ok(where + ' evicted by ' + how, kpool, vpool, held)
                loads = jar.loads
                contents_ok(where + ' reloaded', c, model, is_map,
                            kpool, vpool)
                check(jar.loads == loads + len(nodes),
                      where + ': %d loads for %d nodes'
                      % (jar.loads - loads, len(nodes)))
                refs_ok(where + ' reloaded after ' + how, kpool, vpool,
                        scaled(held, 2))
            # a changed node refuses to be evicted by _p_deactivate
            victim = idx[0]
            if is_map:
                del c[kpool[victim] if kpool is not None else victim]
            else:
                c.remove(kpool[victim] if kpool is not None else victim)
            for node in nodes:
                node._p_deactivate()
            if is_map:
                del model[victim]
            else:
                model.discard(victim)
            contents_ok(where + ' changed nodes kept', c, model, is_map,
                        kpool, vpool)
            del c, nodes, node, jar, held
            gc.collect()
            refs_ok(where + ' jar dropped', kpool, vpool)

            # 3. __setstate__ over live data replaces it wholesale
            c, d = C(), C()
            fill(c, is_map, kpool, vpool, idx[:n // 2])
            model = fill(d, is_map, kpool, vpool, idx[n // 2:])
            state = d.__getstate__()
            c.__setstate__(state)
            del state
            contents_ok(where + ' setstate', c, model, is_map, kpool, vpool)
            if is_tree(c):
                # c now shares d's child nodes; d's root has its own copies
                # of the separators until it goes away
                del d
                d = None
                refs_ok(where + ' setstate refs', kpool, vpool,
                        counts(c, is_map, kpool, vpool))
            else:
                refs_ok(where + ' setstate refs', kpool, vpool,
                        counts(c, is_map, kpool, vpool),
                        counts(d, is_map, kpool, vpool))
            del c, d
            refs_ok(where + ' setstate dealloc', kpool, vpool)

            # 4. a container in a reference cycle is reclaimed by the GC
            if vpool is not None:
                c = C()
                fill(c, is_map, kpool, vpool, idx)
                holder = V(c)
                r = weakref.ref(holder)
                c[kpool[0] if kpool is not None else 0] = holder
                del holder, c
                gc.collect()
                check(r() is None, where + ': cycle not collected')
                refs_ok(where + ' cycle collected', kpool, vpool)


def keyset(c):
    return set(k.v if isinstance(k, K) else k for k in c.keys())


def set_ops(tag, n=30):
    """union / intersection / difference over every pairing of input kinds:
    results are right and own one reference per entry; the inputs' references
    are untouched; dropping the result returns to the starting point."""
    rnd = random.Random(11)
    for mod, objkeys, objvals in ((OO, True, True), (IO, False, True),
                                  (OI, True, False)):
        prefix, cls = classes(mod)
        kpool = Pool(K, n) if objkeys else None
        vpool = Pool(V, n) if objvals else None
        kinds = ('Bucket', 'Set', 'BTree', 'TreeSet')
        inputs = []
        for kind in kinds:
            for size in (0, 1, n // 2):
                C = cls[kind][0]
                if kind in ('BTree', 'TreeSet'):
                    C = small(C)
                c = C()
                is_map = kind in ('Bucket', 'BTree')
                idx = rnd.sample(range(n), size)
                model = fill(c, is_map, kpool,
                             vpool if is_map else None, idx)
                inputs.append((kind, c, model, is_map))
        # a plain iterable of keys (unsorted, with duplicates) is accepted too
        idx = rnd.sample(range(n), n // 3)
        seq = [kpool[i] if kpool is not None else i for i in idx + idx[:3]]
        held = [counts(c, m, kpool, vpool if m else None)
                for (kind, c, model, m) in inputs]
        seqcount = (None, dict((i, (idx + idx[:3]).count(i)) for i in idx)
                    if kpool is not None else {}, {})
        held.append(seqcount)
        inputs.append(('list', seq, set(idx), False))
        refs_ok('%s %s inputs' % (tag, prefix), kpool, vpool, *held)
        for name in ('union', 'intersection', 'difference'):
            f = getattr(mod, name)
            for (k1, c1, m1, map1) in inputs:
                if k1 == 'list':
                    continue
                for (k2, c2, m2, map2) in inputs:
                    where = '%s %s %s(%s[%d], %s[%d])' % (
                        tag, prefix, name, k1, len(m1), k2, len(m2))
                    s1, s2 = set(m1), set(m2)
                    want = {'union': s1 | s2, 'intersection': s1 & s2,
                            'difference': s1 - s2}[name]
                    res = f(c1, c2)
                    res_map = name == 'difference' and map1
                    check(type(res) is cls['Bucket' if res_map else 'Set'][0],
                          where + ': result type %r' % type(res))
                    wantmodel = dict((i, m1[i]) for i in want) if res_map \
                        else want
                    contents_ok(where, res, wantmodel, res_map, kpool,
                                vpool if res_map else None)
                    rc_ = counts(res, res_map, kpool,
                                 vpool if res_map else None)
                    refs_ok(where, kpool, vpool, rc_, *held)
                    del res
                    refs_ok(where + ' dropped', kpool, vpool, *held)
        del inputs, c, c1, c2, seq
        refs_ok('%s %s inputs dropped' % (tag, prefix), kpool, vpool)
    # a single integer key stands for the one-element set
    for f, want in ((II.union, [1, 2, 5]), (II.intersection, []),
                    (II.difference, [1, 2])):
        check(list(f(II.IISet([1, 2]), 5)) == want, tag + ': int as set')
    check(list(II.intersection(small(II.IITreeSet)(range(9)), 5)) == [5],
          tag + ': int as set, intersection')
    # weighted merges compute values, for int-valued families
    a = small(OI.OIBTree)()
    b = OI.OIBucket()
    kpool = Pool(K, 12)
    for i in range(0, 9):
        a[kpool[i]] = i
    for i in range(6, 12):
        b[kpool[i]] = 100 + i
    held = [counts(a, True, kpool), counts(b, True, kpool)]
    w, res = OI.weightedUnion(a, b, 2, 3)
    want = dict((i, 2 * i) for i in range(0, 6))
    want.update((i, 2 * i + 3 * (100 + i)) for i in range(6, 9))
    want.update((i, 3 * (100 + i)) for i in range(9, 12))
    contents_ok(tag + ' weightedUnion', res, want, True, kpool)
    refs_ok(tag + ' weightedUnion', kpool, None,
            counts(res, True, kpool), *held)
    w, res = OI.weightedIntersection(a, b, 2, 3)
    want = dict((i, 2 * i + 3 * (100 + i)) for i in range(6, 9))
    contents_ok(tag + ' weightedIntersection', res, want, True, kpool)
    refs_ok(tag + ' weightedIntersection', kpool, None,
            counts(res, True, kpool), *held)
    del res, a, b
    refs_ok(tag + ' weighted inputs dropped', kpool, None)


def set_op_aborts(tag, n=16):
    """A comparison that fails in the middle of a merge (at every possible
    point) releases the cursors' cached entries and the partial result."""
    prefix, cls = classes(OO)
    kpool, vpool = Pool(K, n), Pool(V, n)
    inputs = []
    for kind in ('Bucket', 'Set', 'BTree', 'TreeSet'):
        C = cls[kind][0]
        if kind in ('BTree', 'TreeSet'):
            C = small(C)
        for idx in (range(0, n, 2), range(1, n, 3)):
            c = C()
            is_map = kind in ('Bucket', 'BTree')
            fill(c, is_map, kpool, vpool if is_map else None, idx)
            inputs.append((kind, c, is_map))
    held = [counts(c, m, kpool, vpool if m else None)
            for (kind, c, m) in inputs]
    for name in ('union', 'intersection', 'difference'):
        f = getattr(OO, name)
        for (k1, c1, m1) in inputs:
            for (k2, c2, m2) in inputs:
                where = '%s %s(%s, %s)' % (tag, name, k1, k2)
                aborted = completed = 0
                for countdown in range(0, 10 * n):
                    TRIP[0] = countdown
                    try:
                        res = f(c1, c2)
                    except ZeroDivisionError:
                        res = None
                    finally:
                        TRIP[0] = None
                    # (checked outside the handler: a live traceback keeps
                    # the comparison's operands alive)
                    if res is None:
                        aborted += 1
                        refs_ok('%s abort at %d' % (where, countdown),
                                kpool, vpool, *held)
                        continue
                    completed += 1
                    del res
                    refs_ok(where + ' completed', kpool, vpool, *held)
                    break
                check(aborted > 0 and completed == 1,
                      where + ': %d aborted, %d completed'
                      % (aborted, completed))
    del inputs, c, c1, c2
    refs_ok(tag + ' inputs dropped', kpool, vpool)


def conflict_merges(tag, n=14, rounds=300):
    """Three-way merges of bucket states: same outcome as the pure-Python
    implementation; the resolved state owns one reference per entry; failed
    merges (conflicts, comparison errors) leave nothing behind."""
    rnd = random.Random(13)
    kpool, vpool = Pool(K, n), Pool(V, 3 * n)

    def cstate(m, is_map):
        flat = []
        for i in sorted(m):
            flat.append(kpool[i])
            if is_map:
                flat.append(vpool[m[i]])
        return (tuple(flat),)

    def pstate(m, is_map):
        flat = []
        for i in sorted(m):
            flat.append(i)
            if is_map:
                flat.append(m[i])
        return (tuple(flat),)

    def occurrences(states, is_map):
        kc, vc = {}, {}
        for st in states:
            for pos, x in enumerate(st[0]):
                if is_map and pos % 2:
                    vc[x.v] = vc.get(x.v, 0) + 1
                else:
                    kc[x.v] = kc.get(x.v, 0) + 1
        return (None, kc, vc)

    outcomes = {}
    for is_map, C, P in ((True, OO.OOBucket, OO.OOBucketPy),
                         (False, OO.OOSet, OO.OOSetPy)):
        for rnd_round in range(rounds):
            base = dict((i, i) for i in rnd.sample(range(n), rnd.randrange(1, n)))
            versions = []
            for side in (1, 2):
                m = dict(base)
                for change in range(rnd.randrange(0, 3)):
                    i = rnd.randrange(n)
                    what = rnd.random()
                    if what < 0.4:
                        m[i] = n * side + rnd.randrange(n)
                    elif what < 0.7 and i in m and is_map:
                        m[i] = n * side + rnd.randrange(n)
                    else:
                        m.pop(i, None)
                versions.append(m)
            ms = [base] + versions
            cs = [cstate(m, is_map) for m in ms]
            ps = [pstate(m, is_map) for m in ms]
            where = '%s %s round %d' % (tag, C.__name__, rnd_round)
            held = occurrences(cs, is_map)
            refs_ok(where + ' states', kpool, vpool if is_map else None, held)
            try:
                pres = P()._p_resolveConflict(*ps)
                pexc = None
            except Exception as e:
                pres, pexc = None, (type(e), getattr(e, 'reason', None))
            for countdown in [None] + list(range(0, 12)):
                TRIP[0] = countdown
                tripped = False
                try:
                    cres = C()._p_resolveConflict(*cs)
                    cexc = None
                except ZeroDivisionError:
                    tripped = True
                except Exception as e:
                    cres, cexc = None, (type(e), getattr(e, 'reason', None))
                finally:
                    TRIP[0] = None
                if tripped:
                    refs_ok('%s abort at %r' % (where, countdown), kpool,
                            vpool if is_map else None, held)
                    continue
                check(cexc == pexc, '%s: C %r, Python %r'
                      % (where, cexc, pexc))
                outcomes[cexc and cexc[1]] = outcomes.get(
                    cexc and cexc[1], 0) + 1
                if cres is not None and pres is not None:
                    proj = tuple(x.v for x in cres[0])
                    check(proj == pres[0] and len(cres) == len(pres),
                          '%s: resolved %r vs %r' % (where, proj, pres))
                    refs_ok(where + ' resolved', kpool,
                            vpool if is_map else None, held,
                            occurrences([cres], is_map))
                cres = None
                refs_ok(where + ' result dropped', kpool,
                        vpool if is_map else None, held)
                if countdown is not None:
                    break
            del cs, held
            refs_ok(where + ' states dropped', kpool,
                    vpool if is_map else None)
    # the histories must actually have covered both outcomes
    check(outcomes.get(None, 0) > rounds // 5 and len(outcomes) >= 3,
          '%s: outcome coverage %r' % (tag, outcomes))


def empty_tree_failures(tag):
    """A store that fails on an empty tree leaves a legitimate empty tree."""
    for C, P in ((small(OI.OIBTree), small(OI.OIBTreePy)),
                 (OI.OIBTree, OI.OIBTreePy)):
        kpool = Pool(K, 6)
        c, p = C(), P()
        for attempt in range(3):
            same_failure(tag + ' first store fails',
                         lambda: c.__setitem__(kpool[1], 'x'),
                         lambda: p.__setitem__(1, 'x'), (TypeError,))
            check(c.__getstate__() is None and len(c) == 0 and not c,
                  tag + ': tree not empty after failed first store')
            c._check()
            refs_ok(tag + ' failed first store', kpool, None)
        model = fill(c, True, kpool, None, range(6))
        fill(p, True, None, None, range(6))
        audit(tag + ' usable afterwards', c, model, True, kpool, None, p)
        c.clear()
        refs_ok(tag + ' cleared', kpool, None)
    # node sizes that make no sense are reported before anything is stored
    class Broken(OO.OOBTree):
        max_leaf_size = 'many'
    kpool, vpool = Pool(K, 3), Pool(V, 3)
    c = Broken()
    expect_raises(TypeError, c.__setitem__, kpool[0], vpool[0])
    check(len(c) == 0 and c.__getstate__() is None, tag + ': Broken not empty')
    refs_ok(tag + ' broken sizes', kpool, vpool)


def cursor_load_failures(tag, n=16):
    """An input node that cannot be loaded in the middle of a merge (it was
    evicted by a comparison, and the storage is down) aborts the operation
    cleanly: the cursors give back what they had cached."""
    prefix, cls = classes(OO)
    kpool, vpool = Pool(K, n), Pool(V, n)
    jar = Jar()
    inputs = []
    for kind in ('Bucket', 'Set', 'BTree', 'TreeSet'):
        C = cls[kind][0]
        if kind in ('BTree', 'TreeSet'):
            C = small(C)
        for idx in (range(0, n, 2), range(1, n, 3)):
            c = C()
            is_map = kind in ('Bucket', 'BTree')
            model = fill(c, is_map, kpool, vpool if is_map else None, idx)
            inputs.append((kind, c, model, is_map))
    nodes = []
    for (kind, c, model, m) in inputs:
        nodes.extend(nodes_of(c))
    for node in nodes:
        jar.add(node)
    for node in nodes:
        jar.save(node)
    held = [counts(c, m, kpool, vpool if m else None)
            for (kind, c, model, m) in inputs]

    def reload_all(where):
        for (kind, c, model, m) in inputs:
            contents_ok(where, c, model, m, kpool, vpool if m else None)
        for node in nodes:
            node._p_activate()

    def storage_goes_down():
        for node in nodes:
            node._p_deactivate()
        jar.fail = True

    refs_ok(tag + ' saved', kpool, vpool, *[scaled(h, 2) for h in held])
    ACTION[0] = storage_goes_down
    outcomes = {}
    try:
        for name in ('union', 'intersection', 'difference'):
            f = getattr(OO, name)
            for (k1, c1, m1, map1) in inputs:
                for (k2, c2, m2, map2) in inputs:
                    where = '%s %s(%s, %s)' % (tag, name, k1, k2)
                    for countdown in range(0, 40, 3):
                        TRIP[0] = countdown
                        res = err = None
                        try:
                            res = f(c1, c2)
                        except IOError:
                            err = 'IOError'
                        finally:
                            TRIP[0] = None
                            jar.fail = False
                        outcomes[err] = outcomes.get(err, 0) + 1
                        if res is not None:
                            s1, s2 = set(m1), set(m2)
                            want = {'union': s1 | s2,
                                    'intersection': s1 & s2,
                                    'difference': s1 - s2}[name]
                            if err is None and 'Tree' in k1 + k2:
                                # nextBTreeItems / nextTreeSetItems treat a
                                # failed seek (here: a node that cannot be
                                # loaded) as the end of that input, so the
                                # result may be cut short; that is how the
                                # unmodified code behaves as well.
                                check(keyset(res) <= s1 | s2,
                                      where + ': result')
                            else:
                                check(keyset(res) == want, where + ': result')
                        del res
                        reload_all(where)
                        refs_ok('%s at %d (%s)' % (where, countdown, err),
                                kpool, vpool, *[scaled(h, 2) for h in held])
    finally:
        ACTION[0] = None
    check(outcomes.get('IOError', 0) > 100 and outcomes.get(None, 0) > 100,
          '%s: outcome coverage %r' % (tag, outcomes))
    del inputs, nodes, node, c, c1, c2, jar, held
    gc.collect()
    refs_ok(tag + ' all dropped', kpool, vpool)


def iterators(tag, n=40):
    """Range sequences and iterators: results are right, and neither the
    entries nor the buckets gain or lose references, also when an iteration
    is abandoned half way."""
    rnd = random.Random(17)
    for kind in ('BTree', 'TreeSet', 'Bucket', 'Set'):
        C = classes(OO)[1][kind][0]
        if kind in ('BTree', 'TreeSet'):
            C = small(C)
        is_map = kind in ('BTree', 'Bucket')
        where = '%s OO%s' % (tag, kind)
        kpool, vpool = Pool(K, n), (Pool(V, n) if is_map else None)
        c = C()
        idx = sorted(rnd.sample(range(n), n * 2 // 3))
        fill(c, is_map, kpool, vpool, idx)
        held = counts(c, is_map, kpool, vpool)
        nodes = nodes_of(c)
        node_rc = [rc(x) for x in nodes]
        for trial in range(200):
            lo, hi = rnd.randrange(-2, n + 2), rnd.randrange(-2, n + 2)
            exmin, exmax = rnd.random() < 0.3, rnd.random() < 0.3
            want = [i for i in idx
                    if (lo < i if exmin else lo <= i)
                    and (i < hi if exmax else i <= hi)]
            seq = c.keys(K(lo), K(hi), exmin, exmax)
            got = [k.v for k in seq]
            check(got == want, '%s keys(%d,%d,%r,%r): %r vs %r'
                  % (where, lo, hi, exmin, exmax, got, want))
            check(len(seq) == len(want), where + ': len of range')
            if want:
                j = rnd.randrange(-len(want), len(want))
                check(seq[j] is kpool[want[j]], where + ': indexing')
            expect_raises(IndexError, seq.__getitem__, len(want))
            if is_map:
                got = [(k.v, v.v) for k, v in c.items(K(lo), K(hi),
                                                      exmin, exmax)]
                check(got == [(i, i) for i in want], where + ': items')
                it = c.iteritems(K(lo), K(hi), exmin, exmax)
            else:
                it = iter(c.keys(K(lo), K(hi), exmin, exmax))
            # abandon the iterator somewhere in the middle
            for step in range(rnd.randrange(0, len(want) + 1)):
                next(it)
            del it, seq, got
            refs_ok(where + ' after ranges', kpool, vpool, held)
            check([rc(x) for x in nodes] == node_rc,
                  where + ': node refcounts moved')


def finish(name):
    gc.collect()
    print('%s: %d checks, %d failures' % (name, CHECKS[0], len(FAILURES)))
    sys.exit(1 if FAILURES else 0)


# --------------------------------------------------------------------------
# C16p: _bucket_set's gap handling (bucket_close_gap / bucket_open_gap)
# --------------------------------------------------------------------------

def gap_positions(tag):
    """Insert into / delete from every position of buckets of every size,
    deterministically: front, middle, back, only entry."""
    for mod, objkeys, objvals in ((OO, True, True), (OI, True, False),
                                  (IO, False, True), (II, False, False)):
        prefix, cls = classes(mod)
        for kind in ('Bucket', 'Set'):
            C, P = cls[kind]
            is_map = kind == 'Bucket'
            for size in range(0, 7):
                for pos in range(0, size + 1):
                    where = '%s %s%s size %d pos %d' % (tag, prefix, kind,
                                                         size, pos)
                    kpool = Pool(K, 2 * size + 1) if objkeys else None
                    vpool = Pool(V, 2 * size + 1) \
                        if (objvals and is_map) else None
                    c, p = C(), P()
                    # odd keys present; the even key 2*pos goes to slot pos
                    model = fill(c, is_map, kpool, vpool,
                                 range(1, 2 * size, 2))
                    fill(p, is_map, None, None, range(1, 2 * size, 2))
                    audit(where + ' before', c, model, is_map, kpool, vpool, p)
                    new = 2 * pos
                    if is_map:
                        c[kpool[new] if objkeys else new] = \
                            vpool[new] if vpool is not None else new
                        p[new] = new
                        model[new] = new
                    else:
                        c.add(kpool[new] if objkeys else new)
                        p.add(new)
                        model.add(new)
                    audit(where + ' inserted', c, model, is_map, kpool,
                          vpool, p)
                    # and take the entries out again, slot `pos` first
                    for gone in [new] + list(range(1, 2 * size, 2)):
                        k = kpool[gone] if objkeys else gone
                        if is_map:
                            del c[k], p[gone], model[gone]
                        else:
                            c.remove(k)
                            p.remove(gone)
                            model.remove(gone)
                        k = None
                        audit(where + ' removed %d' % gone, c, model,
                              is_map, kpool, vpool, p)
                    check(c.__getstate__() == ((),), where + ': empty state')


if __name__ == '__main__':
    gap_positions('gap')
    run_histories('hist', ('Bucket', 'Set', 'BTree', 'TreeSet'))
    fs_history('fs')
    error_paths('err')
    for C, is_map in ((OO.OOBucket, True), (OO.OOSet, False),
                      (small(OO.OOBTree), True), (small(OO.OOTreeSet), False)):
        removers = [lambda c, k: c.remove(k)]
        if is_map:
            removers = [lambda c, k: c.__delitem__(k), lambda c, k: c.pop(k)]
        for remove in removers:
            dying_entries('dying ' + C.__name__, C, is_map, remove)
    conflict_merges('merge', rounds=60)
    finish('C16p demo')
