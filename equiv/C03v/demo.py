"""C03 / refactoring v: C BTree_grow, BTree_split, bucket_split (leaf split,
interior split, root split, growing the child vector).

Run as:  PYTHONPATH=<tree>/src /venv/bin/python demo.py
Exercises the C implementation.
"""
# ---------------------------------------------------------------------------
# Shared engine of the C03 demos (copied verbatim into every demo.py).
#
#  * an independent structural walker (the statement of property C03),
#  * a plain-Python model (dict + sorted list) for differential comparison,
#  * a tiny stand-in jar (ghosts, failing loads, failing register, sweeps),
#  * failure injection into key comparisons,
#  * a running SHA-256 "trace" of everything observable (results, exception
#    types, structure signatures, jar event logs, reference counts, numbers
#    of live key objects).  The trace value recorded on the unmodified tree is
#    pinned in the demo; a refactored tree has to reproduce it bit for bit.
# ---------------------------------------------------------------------------
import gc
import hashlib
import random
import sys
import time

import BTrees.check
from BTrees.check import check as package_check

T0 = time.time()


class Trace:
    def __init__(self):
        self.h = hashlib.sha256()
        self.n = 0

    def add(self, *things):
        self.n += 1
        self.h.update(repr(things).encode('utf-8'))
        self.h.update(b'\n')

    def hexdigest(self):
        return self.h.hexdigest()


TRACE = Trace()


def fail(msg):
    print('DEMO FAILURE:', msg)
    sys.exit(1)


def expect(cond, msg):
    if not cond:
        fail(msg)


# ---------------------------------------------------------------------------
# keys with observable / failing comparisons (object-keyed families)
# ---------------------------------------------------------------------------
class CmpControl:
    enabled = False     # count and possibly fail / sweep
    count = 0
    fail_at = 0         # raise at the fail_at-th comparison (0: never)
    hook = None         # called on every counted comparison
    live = 0            # number of live K objects


class CmpBoom(Exception):
    pass


class K:
    __slots__ = ('v', '__weakref__')

    def __init__(self, v):
        self.v = v
        CmpControl.live += 1

    def __del__(self):
        CmpControl.live -= 1

    def _tick(self):
        c = CmpControl
        if c.enabled:
            c.count += 1
            if c.hook is not None:
                c.hook()
            if c.fail_at and c.count == c.fail_at:
                raise CmpBoom(c.count)

    def __lt__(self, other):
        self._tick()
        return self.v < other.v

    def __gt__(self, other):
        self._tick()
        return self.v > other.v

    def __le__(self, other):
        self._tick()
        return self.v <= other.v

    def __ge__(self, other):
        self._tick()
        return self.v >= other.v

    def __eq__(self, other):
        self._tick()
        return type(other) is K and self.v == other.v

    def __ne__(self, other):
        self._tick()
        return not (type(other) is K and self.v == other.v)

    def __hash__(self):
        return hash(self.v)

    def __repr__(self):
        return 'K%d' % self.v


class quiet:
    """Switch comparison counting/failing off while the harness looks."""

    def __enter__(self):
        self.saved = CmpControl.enabled
        CmpControl.enabled = False

    def __exit__(self, *exc):
        CmpControl.enabled = self.saved


# ---------------------------------------------------------------------------
# families
# ---------------------------------------------------------------------------
class Family:
    def __init__(self, name, tree, is_set, mk, mv, unk=None):
        self.name = name
        self.tree = tree
        self.is_set = is_set
        self.mk = mk            # int -> key
        self.mv = mv            # int -> value
        self.unk = unk or (lambda k: k)   # key -> int

    def sized(self, leaf, internal):
        base = self.tree
        cls = type('%s_%s_%s' % (base.__name__, leaf, internal), (base,),
                   {'max_leaf_size': leaf, 'max_internal_size': internal})
        # BTrees.check classifies by exact type: tell it about the subclass.
        BTrees.check._type2kind[cls] = BTrees.check._type2kind[base]
        BTrees.check._btree2bucket[cls] = BTrees.check._btree2bucket[base]
        return cls


def _fs_key(i):
    return bytes((65 + i // 26 % 26, 65 + i % 26)).decode('ascii').encode()


def _fs_val(i):
    return ('%06d' % (i % 1000000)).encode()


def families(py):
    import BTrees.fsBTree
    import BTrees.IIBTree
    import BTrees.LFBTree
    import BTrees.OLBTree
    import BTrees.OOBTree
    import BTrees.UUBTree
    sfx = 'Py' if py else ''

    def g(mod, name):
        return getattr(mod, name + sfx)

    expect(py or BTrees.OOBTree.OOBTree is not BTrees.OOBTree.OOBTreePy,
           'the C extensions are not available')
    ident = lambda i: i
    fams = [
        Family('OO', g(BTrees.OOBTree, 'OOBTree'), False, ident,
               lambda i: 'v%d' % i),
        Family('OOk', g(BTrees.OOBTree, 'OOBTree'), False, K,
               lambda i: i * 3, lambda k: k.v),
        Family('II', g(BTrees.IIBTree, 'IIBTree'), False,
               lambda i: i - 500, lambda i: i * 7 % 1000, lambda k: k + 500),
        Family('LF', g(BTrees.LFBTree, 'LFBTree'), False,
               lambda i: i * 1000003, lambda i: i / 4.0,
               lambda k: k // 1000003),
        Family('OL', g(BTrees.OLBTree, 'OLBTree'), False,
               lambda i: 's%05d' % i, lambda i: i << 33,
               lambda k: int(k[1:])),
        Family('fs', g(BTrees.fsBTree, 'fsBTree'), False, _fs_key, _fs_val,
               lambda k: (k[0] - 65) * 26 + (k[1] - 65)),
        Family('OOs', g(BTrees.OOBTree, 'OOTreeSet'), True, ident, None),
        Family('OOks', g(BTrees.OOBTree, 'OOTreeSet'), True, K, None,
               lambda k: k.v),
        Family('IIs', g(BTrees.IIBTree, 'IITreeSet'), True,
               lambda i: i - 500, None, lambda k: k + 500),
        Family('UUs', g(BTrees.UUBTree, 'UUTreeSet'), True, ident, None),
    ]
    return dict((f.name, f) for f in fams)


# ---------------------------------------------------------------------------
# independent walk = the statement of the property
# ---------------------------------------------------------------------------
class Damaged(Exception):
    pass


def _need(cond, msg):
    if not cond:
        raise Damaged(msg)


def chain_of(t):
    out = []
    b = t._firstbucket
    seen = set()
    while b is not None:
        _need(id(b) not in seen, 'cycle in the leaf chain')
        seen.add(id(b))
        out.append(b)
        b = b._next
    return out


def leaf_entries(fam, leaf):
    keys = list(leaf.keys())
    if fam.is_set:
        return keys, None
    vals = list(leaf.values())
    _need(len(vals) == len(keys), 'leaf with different key/value counts')
    return keys, vals


def walk(fam, t, enforce_sizes=True):
    """Return (signature, leaves by descent).  Raises Damaged."""
    treetype = type(t)
    leaf_max = treetype.max_leaf_size
    int_max = treetype.max_internal_size
    unk = fam.unk
    leaves = []

    def rec(node, lo, hi, is_root):
        state = node.__getstate__()
        if state is None:
            _need(is_root, 'empty interior node')
            _need(node._firstbucket is None, 'empty tree with a first leaf')
            return ('T',)
        _need(type(state) is tuple and len(state) in (1, 2), 'odd state')
        if len(state) == 1:
            leaf = node._firstbucket
            _need(leaf is not None, 'one-leaf node without first leaf')
            _need(leaf._p_oid is None, 'inlined leaf has an oid')
            _need(leaf.__getstate__() == state[0][0], 'inlined leaf state')
            kids = [leaf]
            seps = []
        else:
            flat, first = state
            kids = list(flat[0::2])
            seps = [unk(s) for s in flat[1::2]]
            _need(len(kids) == len(seps) + 1, 'odd child/separator count')
            _need(first is node._firstbucket, 'state/attribute firstbucket')
        _need(len(kids) >= 1, 'node without children')
        if enforce_sizes:
            if is_root:
                _need(len(kids) < 2 * int_max, 'root too wide')
            else:
                _need(len(kids) <= int_max, 'interior node too wide')
        kinds = set(type(k) is treetype for k in kids)
        _need(len(kinds) == 1, 'children of mixed kinds')
        bounds = [lo] + seps + [hi]
        for a, b in zip(bounds, bounds[1:]):
            _need(a is None or b is None or a < b, 'separators out of order')
        out = []
        for i, kid in enumerate(kids):
            if type(kid) is treetype:
                if i == 0:
                    _need(kid._firstbucket is node._firstbucket,
                          "firstbucket differs from first child's")
                sub = rec(kid, bounds[i], bounds[i + 1], False)
                _need(len(sub) > 1, 'empty interior node')
                out.append(sub)
            else:
                if i == 0:
                    _need(node._firstbucket is kid,
                          'firstbucket is not the first leaf')
                keys, vals = leaf_entries(fam, kid)
                ikeys = [unk(k) for k in keys]
                _need(ikeys, 'empty leaf')
                if enforce_sizes:
                    _need(len(ikeys) <= leaf_max, 'leaf too big')
                _need(all(a < b for a, b in zip(ikeys, ikeys[1:])),
                      'leaf keys out of order')
                _need(bounds[i] is None or bounds[i] <= ikeys[0],
                      'key below the promised range')
                _need(bounds[i + 1] is None or ikeys[-1] < bounds[i + 1],
                      'key above the promised range')
                leaves.append(kid)
                out.append(('B', tuple(ikeys),
                            None if vals is None else tuple(vals)))
        return ('T', tuple(seps), tuple(out))

    sig = rec(t, None, None, True)
    chain = chain_of(t)
    _need(len(chain) == len(leaves), 'chain and descent differ in length')
    for a, b in zip(chain, leaves):
        _need(a is b, 'chain and descent visit different leaves')
    return sig, leaves


def loose_signature(fam, t):
    """Signature that also works on damaged trees (used after injected
    failures): descent structure, chain contents, whether the chain is the
    descent, reference counts of the leaves."""
    treetype = type(t)
    unk = fam.unk
    leaves = []

    def rec(node, depth):
        if depth > 12:
            return ('deep',)
        state = node.__getstate__()
        if state is None:
            return ('T',)
        if len(state) == 1:
            leaf = node._firstbucket
            if leaf is None:
                return ('T1', repr(state))
            kids = [leaf]
            seps = []
        else:
            flat, first = state
            kids = list(flat[0::2])
            seps = [unk(s) for s in flat[1::2]]
        out = []
        for kid in kids:
            if type(kid) is treetype:
                out.append(rec(kid, depth + 1))
            else:
                leaves.append(kid)
                keys, vals = leaf_entries(fam, kid)
                out.append(('B', tuple(unk(k) for k in keys),
                            None if vals is None else tuple(vals)))
        return ('T', tuple(seps), tuple(out))

    sig = rec(t, 0)
    try:
        chain = chain_of(t)
    except Damaged:
        return sig, 'cycle'
    csig = tuple(tuple(unk(k) for k in b.keys()) for b in chain)
    same = len(chain) == len(leaves) and all(
        x is y for x, y in zip(chain, leaves))
    rc_descent = tuple(sys.getrefcount(x) for x in leaves)
    rc_chain = tuple(sys.getrefcount(x) for x in chain)
    return sig, csig, same, rc_descent, rc_chain


def refcounts(leaves):
    return tuple(sys.getrefcount(b) for b in leaves)


def full_check(fam, t, model, tag, use_package_check=True):
    """Everything the property promises, against the model."""
    with quiet():
        try:
            t._check()
        except Exception as e:
            fail('%s: _check() failed: %r' % (tag, e))
        if use_package_check:
            try:
                package_check(t)
            except Exception as e:
                fail('%s: BTrees.check.check failed: %r' % (tag, e))
        try:
            sig, leaves = walk(fam, t)
        except Damaged as e:
            fail('%s: independent walk: %s' % (tag, e))
        ikeys = []
        vals = []
        for b in leaves:
            k, v = leaf_entries(fam, b)
            ikeys.extend(fam.unk(x) for x in k)
            if v is not None:
                vals.extend(v)
        want = sorted(model)
        expect(ikeys == want, '%s: entries differ from the model' % tag)
        if not fam.is_set:
            expect(vals == [model[k] for k in want],
                   '%s: values differ from the model' % tag)
        expect(len(t) == len(model), '%s: len differs' % tag)
        expect(bool(t) == bool(model), '%s: truth differs' % tag)
        return sig, leaves


# ---------------------------------------------------------------------------
# model-checked operations
# ---------------------------------------------------------------------------
def op_insert(fam, t, model, i):
    if fam.is_set:
        r = t.insert(fam.mk(i))
        expect(r == (0 if i in model else 1), 'insert result')
        model.setdefault(i, None)
        return r
    v = fam.mv(i)
    t[fam.mk(i)] = v
    model[i] = v
    return None


def op_delete(fam, t, model, i):
    key = fam.mk(i)
    if i in model:
        if fam.is_set:
            t.remove(key)
            r = None
        else:
            r = t.pop(key) if i % 2 else t.__delitem__(key)
            if i % 2:
                expect(r == model[i], 'pop result')
        del model[i]
        return ('ok', r)
    try:
        if fam.is_set:
            t.remove(key)
        else:
            del t[key]
    except KeyError:
        return ('KeyError',)
    fail('deleting a missing key did not raise KeyError')


def history(fam, cls, rng, nops, keyspace, tag, check_every=1,
            package_every=7):
    """Random insert/delete/update/clear history, checked after every
    step; the structure signature of every step goes into the trace."""
    t = cls()
    model = {}
    grow = True
    for step in range(nops):
        r = rng.random()
        size = len(model)
        if size > keyspace * 0.7:
            grow = False
        elif size < 3:
            grow = True
        p_ins = 0.7 if grow else 0.3
        if r < 0.004:
            t.clear()
            model.clear()
            what = ('clear',)
        elif r < 0.02:
            ks = [rng.randrange(keyspace) for _ in range(rng.randrange(12))]
            if fam.is_set:
                t.update([fam.mk(k) for k in ks])
                for k in ks:
                    model.setdefault(k, None)
            else:
                t.update([(fam.mk(k), fam.mv(k + 1)) for k in ks])
                for k in ks:
                    model[k] = fam.mv(k + 1)
            what = ('update', tuple(ks))
        elif r < 0.02 + p_ins:
            i = rng.randrange(keyspace)
            what = ('ins', i, op_insert(fam, t, model, i))
        else:
            if model and rng.random() < 0.9:
                # bias towards the edges of leaves: smallest keys of leaves
                # are the separators, emptied leaves are the unlink path
                ks = sorted(model)
                pick = rng.random()
                if pick < 0.25:
                    i = ks[0]
                elif pick < 0.4:
                    i = ks[-1]
                else:
                    i = ks[rng.randrange(len(ks))]
            else:
                i = rng.randrange(keyspace)
            what = ('del', i, op_delete(fam, t, model, i))
        if step % check_every == 0 or step == nops - 1:
            sig, leaves = full_check(
                fam, t, model, '%s step %d %r' % (tag, step, what),
                use_package_check=(step % package_every == 0))
            TRACE.add(tag, step, what, sig, refcounts(leaves))
            del leaves
        else:
            TRACE.add(tag, step, what)
    return t, model


def build(fam, cls, ints):
    t = cls()
    model = {}
    for i in ints:
        op_insert(fam, t, model, i)
    return t, model


def count_nodes(cls):
    """Number of live leaves / interior nodes of the kinds cls uses."""
    gc.collect()
    leaf_type = cls._bucket_type
    nl = nt = 0
    for o in gc.get_objects():
        if type(o) is leaf_type:
            nl += 1
        elif type(o) is cls:
            nt += 1
    return nl, nt


def drain(fam, cls, n, order, tag, package_every=5):
    """Fill with n keys, delete them all in the given order, checking
    after every single delete.  Afterwards no node may be left alive."""
    before = count_nodes(cls)
    t, model = build(fam, cls, range(n))
    sig, leaves = full_check(fam, t, model, tag + ' filled')
    TRACE.add(tag, 'filled', sig, refcounts(leaves))
    del leaves
    for step, i in enumerate(order):
        r = op_delete(fam, t, model, i)
        sig, leaves = full_check(
            fam, t, model, '%s del %d (#%d)' % (tag, i, step),
            use_package_check=(step % package_every == 0))
        TRACE.add(tag, step, i, r, sig, refcounts(leaves))
        del leaves
    expect(not model and len(t) == 0, tag + ': not empty at the end')
    with quiet():
        expect(t.__getstate__() is None, tag + ': state of a drained tree')
        expect(t._firstbucket is None, tag + ': first leaf of a drained tree')
    del t
    after = count_nodes(cls)
    TRACE.add(tag, 'nodes alive', before, after)
    expect(after == before, '%s: nodes leaked: %r -> %r' % (tag, before, after))


def orders(n, rng):
    asc = list(range(n))
    desc = asc[::-1]
    mid_out = sorted(asc, key=lambda i: (abs(i - n // 2), i))
    ends_in = sorted(asc, key=lambda i: (-abs(i - n // 2), i))
    evens_then_odds = asc[0::2] + asc[1::2]
    shuffled = asc[:]
    rng.shuffle(shuffled)
    return [('asc', asc), ('desc', desc), ('mid_out', mid_out),
            ('ends_in', ends_in), ('even_odd', evens_then_odds),
            ('shuffled', shuffled)]


# ---------------------------------------------------------------------------
# stand-in jar
# ---------------------------------------------------------------------------
class JarBoom(Exception):
    pass


class Jar:
    """Just enough of a ZODB connection: oids, a state store, ghosts.
    Every call is logged; the n-th call can be made to fail."""

    def __init__(self):
        self.store = {}
        self.log = []
        self.noid = 0
        self.nodes = []
        self.events = 0
        self.fail_at = 0        # fail the fail_at-th event (0: never)
        self.fail_kinds = ('load', 'reg', 'rc')
        self.armed = False

    def _event(self, kind, obj):
        oid = int.from_bytes(obj._p_oid, 'big')
        if self.armed and kind in self.fail_kinds:
            self.events += 1
            if self.fail_at and self.events == self.fail_at:
                self.log.append((kind + '!', oid))
                raise JarBoom(kind)
        self.log.append((kind, oid))

    def add(self, obj):
        self.noid += 1
        obj._p_jar = self
        obj._p_oid = self.noid.to_bytes(8, 'big')
        self.nodes.append(obj)

    def register(self, obj):
        self._event('reg', obj)

    def setstate(self, obj):
        self._event('load', obj)
        obj.__setstate__(self.store[obj._p_oid])

    def readCurrent(self, obj):
        self._event('rc', obj)

    def sweep(self):
        """What a cache garbage collection does: ghostify whatever may be
        ghostified (unchanged, not in use by C code)."""
        for n in self.nodes:
            n._p_deactivate()


def tree_nodes(t):
    """All interior nodes of t (pre-order).  Only valid once every leaf has
    an oid (no inlined leaf states)."""
    out = [t]
    state = t.__getstate__()
    if state is None:
        return out
    expect(len(state) == 2, 'inlined leaf state while assigning oids')
    for kid in state[0][0::2]:
        if type(kid) is type(t):
            out.extend(tree_nodes(kid))
    return out


def persist(t, jar):
    """'Commit' t to the jar: give every node an oid, store its state, mark
    it unchanged, and turn everything into ghosts."""
    with quiet():
        leaves = chain_of(t)
        for b in leaves:
            jar.add(b)
        inner = tree_nodes(t)
        for n in inner:
            jar.add(n)
        nodes = inner + leaves
        for n in nodes:
            jar.store[n._p_oid] = n.__getstate__()
        for n in nodes:
            n._p_changed = False
            n._p_serial = b'\0\0\0\0\0\0\0\1'
        for n in nodes:
            n._p_deactivate()
        for n in nodes:
            expect(n._p_changed is None, 'node did not become a ghost')
    return nodes


def node_states(jar):
    # persistent's state numbers: -1 ghost, 0 up to date, 1 changed,
    # 2 sticky (still pinned by C code - must never be left behind)
    return ''.join('gucs'[n._p_state + 1] for n in jar.nodes)


def outcome(fn):
    try:
        r = fn()
    except BaseException as e:
        if isinstance(e, (SystemExit, KeyboardInterrupt)):
            raise
        return ('raised', type(e).__name__, repr(e.args))
    return ('returned', repr(r))


def injected_run(fam, cls, prep_ints, action, tag, mode, limit=400):
    """Run `action(t, model)` on a freshly built (and, for jar modes,
    persisted and ghostified) tree once for every possible position of one
    injected failure, until the action gets through without the failure
    firing.  Everything observable goes into the trace.  Returns the number
    of injected positions."""
    n = 0
    while True:
        n += 1
        expect(n < limit, tag + ': injection does not terminate')
        CmpControl.enabled = False
        t, model = build(fam, cls, prep_ints)
        jar = None
        if mode != 'cmp':
            jar = Jar()
            persist(t, jar)
            jar.fail_kinds = {'load': ('load',), 'reg': ('reg',),
                              'any': ('load', 'reg', 'rc')}[mode]
            jar.fail_at = n
            jar.armed = True
            jar.events = 0
        CmpControl.count = 0
        CmpControl.fail_at = n if mode == 'cmp' else 0
        CmpControl.enabled = True
        res = outcome(lambda: action(t, model))
        CmpControl.enabled = False
        CmpControl.fail_at = 0
        fired = res[0] == 'raised' and res[1] in ('CmpBoom', 'JarBoom')
        if jar is not None:
            jar.armed = False
            states = node_states(jar)
            log = tuple(jar.log)
            del jar.log[:]
        else:
            states = log = None
        with quiet():
            chk = outcome(t._check)
            sig = loose_signature(fam, t)
            try:
                walk(fam, t, enforce_sizes=False)
                sound = True
            except Damaged as e:
                sound = str(e)
        TRACE.add(tag, mode, n, res, states, log, chk, sig, sound)
        if not fired:
            # the action ran to completion: it must agree with the model
            if res[0] == 'returned':
                full_check(fam, t, model, tag + ' (no failure injected)')
        if jar is not None:
            # break the jar <-> node cycles so that everything dies now
            del jar.nodes[:]
            jar.store.clear()
        t = model = jar = None
        TRACE.add(tag, 'live keys', CmpControl.live)
        if not fired:
            return n


def live_keys():
    gc.collect()
    return CmpControl.live


# ---------------------------------------------------------------------------
# demo proper: split / grow paths
# ---------------------------------------------------------------------------
def fill(fam, cls, order, tag, package_every=6):
    """Insert the keys in the given order, checking after every insert;
    afterwards throw the tree away and make sure no node survives."""
    before = count_nodes(cls)
    t = cls()
    model = {}
    for step, i in enumerate(order):
        r = op_insert(fam, t, model, i)
        sig, leaves = full_check(
            fam, t, model, '%s ins %d (#%d)' % (tag, i, step),
            use_package_check=(step % package_every == 0))
        TRACE.add(tag, step, i, r, sig, refcounts(leaves))
        del leaves
    # the same content through update() / the constructor
    if fam.is_set:
        t2 = cls([fam.mk(i) for i in order])
    else:
        t2 = cls([(fam.mk(i), fam.mv(i)) for i in order])
    sig2, leaves = full_check(fam, t2, model, tag + ' bulk')
    TRACE.add(tag, 'bulk', sig2, refcounts(leaves))
    del leaves, t, t2
    after = count_nodes(cls)
    TRACE.add(tag, 'nodes alive', before, after)
    expect(after == before, '%s: nodes leaked: %r -> %r' % (tag, before, after))


def act_insert(fam, i, how):
    def action(t, model):
        key = fam.mk(i)
        if fam.is_set:
            r = t.insert(key) if how != 'update' else t.update([key])
            model.setdefault(i, None)
        elif how == 'setdefault':
            r = t.setdefault(key, fam.mv(i + 5))
            model.setdefault(i, fam.mv(i + 5))
        elif how == 'insert':
            r = t.insert(key, fam.mv(i + 5))
            model.setdefault(i, fam.mv(i + 5))
        else:
            r = t.__setitem__(key, fam.mv(i + 7))
            model[i] = fam.mv(i + 7)
        return r
    return action


def bad_sizes(fam, tag):
    """Node sizes that cannot be used: reported before anything is mutated
    (and in the same way by both versions of the code)."""
    base = fam.tree
    for attr in ('max_leaf_size', 'max_internal_size'):
        for bad in (0, -1, -7, 'x', None, 2.5):
            cls = type('Bad', (base,), {attr: bad})
            t = cls()
            outs = []
            for i in (5, 3, 9):
                if fam.is_set:
                    outs.append(outcome(lambda: t.insert(fam.mk(i))))
                else:
                    outs.append(outcome(
                        lambda: t.__setitem__(fam.mk(i), fam.mv(i))))
            outs.append(outcome(lambda: t.update(
                [fam.mk(1)] if fam.is_set else [(fam.mk(1), fam.mv(1))])))
            state = outcome(t.__getstate__)
            chk = outcome(t._check)
            TRACE.add(tag, attr, repr(bad), tuple(outs), state, chk, len(t))


def sweeping_fill(fam, cls, rng, nops, keyspace, tag):
    """Insert-heavy history on a persisted tree while every key comparison
    runs a cache sweep."""
    t, model = build(fam, cls, range(0, keyspace, 5))
    jar = Jar()
    persist(t, jar)
    CmpControl.hook = jar.sweep
    try:
        for step in range(nops):
            i = rng.randrange(keyspace)
            CmpControl.enabled = True
            if i in model and rng.random() < 0.3:
                what = ('del', i, op_delete(fam, t, model, i))
            else:
                what = ('ins', i, op_insert(fam, t, model, i))
            CmpControl.enabled = False
            log = tuple(jar.log)
            del jar.log[:]
            states = node_states(jar)
            sig, leaves = full_check(fam, t, model,
                                     '%s step %d %r' % (tag, step, what),
                                     use_package_check=(step % 5 == 0))
            TRACE.add(tag, step, what, log, states, sig, refcounts(leaves))
            del leaves
            del jar.log[:]
    finally:
        CmpControl.enabled = False
        CmpControl.hook = None
    del jar.nodes[:]
    jar.store.clear()


def main(py, scale, expected):
    fams = families(py)
    rng = random.Random(20240607)
    sizes = [(2, 2), (2, 3), (3, 2), (3, 3), (4, 2), (5, 4), (7, 3), (2, 6)]

    # 1. random histories (insert-heavy phases alternate with delete-heavy)
    for name in sorted(fams):
        fam = fams[name]
        for leaf, internal in sizes[:scale['hist_sizes']]:
            cls = fam.sized(leaf, internal)
            history(fam, cls, rng, scale['hist_ops'],
                    min(scale['keyspace'], 600),
                    'hist %s %d/%d' % (name, leaf, internal))
    print('histories done      %6.1fs  trace items %d' % (
        time.time() - T0, TRACE.n))

    # 2. fills in many orders and node sizes, checked after every insert
    for name in scale['fill_fams']:
        fam = fams[name]
        for leaf, internal in sizes[:scale['fill_sizes']]:
            cls = fam.sized(leaf, internal)
            n = scale['fill_n']
            for oname, order in orders(n, rng):
                fill(fam, cls, order,
                     'fill %s %d/%d %s' % (name, leaf, internal, oname))
    print('fills done          %6.1fs  trace items %d' % (
        time.time() - T0, TRACE.n))

    # 3. one injected failure at every possible position of single inserts
    total = 0
    evens = list(range(2, 30, 2))
    preps = [('asc', evens), ('desc', evens[::-1]),
             ('mix', [16, 8, 24, 4, 12, 20, 28, 2, 6, 10, 14, 18, 22, 26])]
    for name, modes in scale['inject']:
        fam = fams[name]
        for leaf, internal in ((2, 2), (3, 2), (2, 3)):
            cls = fam.sized(leaf, internal)
            for pname, prep in preps:
                for i in range(1, 31, 2):
                    for mode in modes:
                        total += injected_run(
                            fam, cls, prep, act_insert(fam, i, 'setitem'),
                            'inject %s %d/%d %s ins %d' % (
                                name, leaf, internal, pname, i), mode)
                for i, how in ((8, 'setitem'), (9, 'setdefault'),
                               (8, 'setdefault'), (11, 'insert'),
                               (12, 'insert'), (13, 'update')):
                    for mode in modes:
                        total += injected_run(
                            fam, cls, prep, act_insert(fam, i, how),
                            'inject %s %d/%d %s %s %d' % (
                                name, leaf, internal, pname, how, i), mode)
    # ... and of inserts that split an interior node whose first moved child
    # is still a ghost (BTree_split has to activate it, which can fail);
    # node sizes 2/3, found by search
    cascades = [
        ([98, 104, 10, 18, 80, 110, 58, 112, 116, 2, 100, 28, 96, 22, 92, 38,
          42, 26, 70], 23),
        ([34, 96, 46, 102, 90, 108, 116, 84, 68, 4, 60, 32, 104, 8, 22, 16,
          48, 62, 106, 50, 70, 14, 74, 82, 2, 28, 54, 36, 12, 98, 56, 80,
          26], 35),
        ([46, 110, 52, 4, 72, 102, 54, 48, 50, 76, 2, 58, 6, 92, 24, 80, 26,
          16, 32, 60, 118, 66, 78, 68, 34, 88, 14, 104, 56, 20, 112, 28, 94,
          100, 22, 70, 40], 21),
    ]
    for name, modes in (('II', ('load', 'any')),
                        ('OOk', ('cmp', 'load', 'reg', 'any')),
                        ('OOks', ('load',))):
        fam = fams[name]
        cls = fam.sized(2, 3)
        for n, (prep, i) in enumerate(cascades):
            for mode in modes:
                total += injected_run(
                    fam, cls, prep, act_insert(fam, i, 'setitem'),
                    'inject %s cascade %d' % (name, n), mode)
    TRACE.add('live keys at the end of injection', live_keys())
    expect(live_keys() == 0, 'key objects leaked: %d' % live_keys())
    print('injections done     %6.1fs  trace items %d  (%d runs)' % (
        time.time() - T0, TRACE.n, total))

    # 4. unusable node sizes
    for name in ('OO', 'II', 'OOs', 'fs'):
        bad_sizes(fams[name], 'bad sizes ' + name)

    # 5. cache sweeps from inside key comparisons
    for name in ('OOk', 'OOks'):
        fam = fams[name]
        for leaf, internal in ((2, 2), (3, 2), (2, 3)):
            cls = fam.sized(leaf, internal)
            sweeping_fill(fam, cls, rng, scale['sweep_ops'], 60,
                          'sweep %s %d/%d' % (name, leaf, internal))
    TRACE.add('live keys at the end', live_keys())
    expect(live_keys() == 0, 'key objects leaked: %d' % live_keys())
    print('sweeps done         %6.1fs  trace items %d' % (
        time.time() - T0, TRACE.n))

    digest = TRACE.hexdigest()
    print('trace digest', digest)
    if expected is None:
        print('(no pinned digest)')
    elif digest != expected:
        fail('observable trace differs from the one recorded on the '
             'unmodified tree:\n  expected %s\n  got      %s' % (
                 expected, digest))
    print('OK')


EXPECTED = "b4c665fd6b124051d11327d8e584c59b8b00dc1ef0b71a5fc061f75624639941"

if __name__ == '__main__':
    main(py=False,
         scale=dict(hist_sizes=6, hist_ops=350, keyspace=200,
                    fill_fams=('OO', 'II', 'OOk', 'LF', 'fs', 'OOks', 'UUs',
                               'OL'),
                    fill_sizes=8, fill_n=40,
                    inject=[('OOk', ('cmp', 'load', 'reg', 'any')),
                            ('OOks', ('cmp', 'load', 'reg', 'any')),
                            ('II', ('any',)),
                            ('fs', ('load', 'reg')),
                            ('UUs', ('any',))],
                    sweep_ops=300),
         expected=EXPECTED)
