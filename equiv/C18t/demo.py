"""Differential demo for the structural checker ``_check()``.

IMPL selects which implementation of the BTrees containers is exercised:
the C one (BTree_check_inner / BTree_check in BTreeTemplate.c) or the
pure-Python one (_Tree._check in _base.py).

What is done, for several key/value families and for BTree and TreeSet:

1. Natural trees are grown through the public API with tiny node sizes
   (subclasses overriding max_leaf_size / max_internal_size), under a random
   mix of inserts and deletes that is mirrored in a plain dict/set model.
   ``_check()`` must return None and the contents must equal the model.

2. Every such tree is "described" (walked through __getstate__) into a plain
   Python graph of N objects, rebuilt from that description with
   __setstate__ (must be accepted), and then rebuilt again once for every
   single corruption of the pointer structure (dropped / redirected next
   pointer at every leaf, emptied leaf at every position, wrong firstbucket at
   every interior node, child of the wrong kind at every position, empty
   interior child, leaf subclass, ...).  The outcome of ``_check()`` (None,
   or AssertionError with its exact message) is compared with a model of the
   documented checking order that works on the description only.

3. The same is repeated with a stand-in jar: a random subset of the nodes are
   ghosts; the jar logs the order in which nodes are loaded and can be told
   to fail for one oid.  The load order, the propagated exception and the
   absence of nodes left "sticky" are compared with the model.

Exit status 0 when everything is as specified.
"""
import copy
import random
import sys
import time

IMPL = 'C'          # 'C' or 'Py'

import BTrees  # noqa: E402
from BTrees import (  # noqa: E402
    OOBTree, IIBTree, IOBTree, OIBTree, LLBTree, LFBTree, LOBTree, OLBTree,
    UUBTree, QQBTree, IFBTree, UOBTree, QOBTree, OUBTree, OQBTree, fsBTree,
)

T0 = time.time()
SEED = 1802
RNG = random.Random(SEED)
SUFFIX = '' if IMPL == 'C' else 'Py'

COUNTS = {'natural': 0, 'pristine': 0, 'corrupt': 0, 'detected': 0,
          'ghost': 0, 'ghost_fail': 0}
MESSAGES = {}


def fail(msg):
    print("DEMO FAILURE:", msg)
    sys.exit(1)


def expect(cond, msg):
    if not cond:
        fail(msg)


# --------------------------------------------------------------------------
# key / value generators per family letter

def gen_key(letter, rng):
    if letter == 'O':
        return rng.randrange(-400, 400)
    if letter == 'I':
        return rng.randrange(-2 ** 31, 2 ** 31 - 1) if rng.random() < .1 \
            else rng.randrange(-300, 300)
    if letter == 'L':
        return rng.randrange(-2 ** 63, 2 ** 63 - 1) if rng.random() < .1 \
            else rng.randrange(-300, 300)
    if letter == 'U':
        return rng.randrange(0, 2 ** 32 - 1) if rng.random() < .1 \
            else rng.randrange(0, 500)
    if letter == 'Q':
        return rng.randrange(0, 2 ** 64 - 1) if rng.random() < .1 \
            else rng.randrange(0, 500)
    if letter == 'fsk':
        return bytes([rng.randrange(97, 123), rng.randrange(97, 123)])
    raise AssertionError(letter)


def gen_value(letter, rng):
    if letter == 'O':
        return rng.choice([None, 'v', 7, (1, 2)])
    if letter == 'F':
        return float(rng.randrange(-50, 50)) / 4
    if letter == 'fsv':
        return bytes(rng.randrange(97, 123) for _ in range(6))
    return gen_key(letter, rng) if letter != 'I' else rng.randrange(-99, 99)


FAMILIES = [
    (OOBTree, 'OO', 'O', 'O'), (IIBTree, 'II', 'I', 'I'),
    (IOBTree, 'IO', 'I', 'O'), (OIBTree, 'OI', 'O', 'I'),
    (LLBTree, 'LL', 'L', 'L'), (LFBTree, 'LF', 'L', 'F'),
    (LOBTree, 'LO', 'L', 'O'), (OLBTree, 'OL', 'O', 'L'),
    (UUBTree, 'UU', 'U', 'U'), (QQBTree, 'QQ', 'Q', 'Q'),
    (IFBTree, 'IF', 'I', 'F'), (UOBTree, 'UO', 'U', 'O'),
    (QOBTree, 'QO', 'Q', 'O'), (OUBTree, 'OU', 'O', 'U'),
    (OQBTree, 'OQ', 'O', 'Q'), (fsBTree, 'fs', 'fsk', 'fsv'),
]


# --------------------------------------------------------------------------
# description graph

class N:
    """One node of a description: kind 'T' (BTree/TreeSet) or 'B' (leaf)."""

    def __init__(self, kind, cls, mapping):
        self.kind = kind
        self.cls = cls
        self.mapping = mapping
        self.kids = []          # T
        self.keys = []          # T: separators, len(kids) - 1
        self.firstbucket = None  # T
        self.items = ()         # B: flat state tuple
        self.next = None        # B
        # filled by build():
        self.oid = None
        self.ghost = False

    def size(self):
        if self.kind == 'T':
            return len(self.kids)
        return len(self.items) // 2 if self.mapping else len(self.items)


def describe(tree, mapping):
    """Walk a real tree through __getstate__ into a graph of N."""
    memo = {}
    keep = []
    tree_cls = type(tree)
    bucket_cls = tree_cls._bucket_type

    # An interior node whose only child is a leaf without an oid embeds the
    # leaf's state in its own (hiding the leaf object).  Give every leaf of
    # the chain an oid first, so that states always name the leaf objects.
    st = tree.__getstate__()
    if st is not None and len(st) == 2:
        b = st[1]
        num = 0
        while b is not None:
            b._p_oid = b'L%07d' % num
            num += 1
            bst = b.__getstate__()
            b = bst[1] if len(bst) == 2 else None

    def walk(obj):
        if obj is None:
            return None
        if id(obj) in memo:
            return memo[id(obj)]
        keep.append(obj)
        if type(obj) is tree_cls:
            n = N('T', tree_cls, mapping)
            memo[id(obj)] = n
            st = obj.__getstate__()
            if st is None:
                return n
            if len(st) == 1:
                b = N('B', bucket_cls, mapping)
                b.items = st[0][0][0]
                expect(len(st[0][0]) == 1, "embedded bucket has a next %r" % (st,))
                n.kids = [b]
                n.firstbucket = b
                return n
            data, fb = st
            n.kids = [walk(c) for c in data[0::2]]
            n.keys = list(data[1::2])
            n.firstbucket = walk(fb)
            return n
        expect(isinstance(obj, bucket_cls), "unexpected node %r" % (obj,))
        n = N('B', type(obj), mapping)
        memo[id(obj)] = n
        st = obj.__getstate__()
        n.items = st[0]
        if len(st) == 2:
            n.next = walk(st[1])
        return n

    return walk(tree)


def all_nodes(root):
    """All description nodes reachable from root (kids, firstbucket, next)."""
    seen = []
    ids = set()
    stack = [root]
    while stack:
        n = stack.pop()
        if n is None or id(n) in ids:
            continue
        ids.add(id(n))
        seen.append(n)
        if n.kind == 'T':
            stack.append(n.firstbucket)
            stack.extend(reversed(n.kids))
        else:
            stack.append(n.next)
    return seen


class Boom(Exception):
    pass


class Jar:
    """Tiny stand-in for a ZODB connection."""

    def __init__(self):
        self.states = {}
        self.log = []
        self.fail = set()

    def setstate(self, obj):
        oid = obj._p_oid
        self.log.append(oid)
        if oid in self.fail:
            raise Boom(oid)
        obj.__setstate__(self.states[oid])

    def register(self, obj):
        pass

    def readCurrent(self, obj):
        pass


def node_state(n, real):
    if n.kind == 'B':
        if n.next is None:
            return (tuple(n.items),)
        return (tuple(n.items), real[id(n.next)])
    if not n.kids:
        return None
    data = [real[id(n.kids[0])]]
    for k, c in zip(n.keys, n.kids[1:]):
        data.append(k)
        data.append(real[id(c)])
    return (tuple(data), real[id(n.firstbucket)]
            if n.firstbucket is not None else None)


def build(root, jar=None):
    """Materialise a description through __setstate__.

    Returns (real_root, nodes, real) where real maps id(N) -> object.
    May raise whatever __setstate__ raises.
    """
    nodes = all_nodes(root)
    real = {}
    for n in nodes:
        real[id(n)] = n.cls()
    for num, n in enumerate(nodes):
        obj = real[id(n)]
        st = node_state(n, real)
        obj.__setstate__(st)
        n.oid = b'%08d' % num
        n.ghost = False
        if jar is not None:
            obj._p_jar = jar
            obj._p_oid = n.oid
            jar.states[n.oid] = st
    return real[id(root)], nodes, real


# --------------------------------------------------------------------------
# models of the two checkers, working on descriptions only

class Bad(Exception):
    pass


class Model:
    def __init__(self, fail_oids=()):
        self.log = []
        self.fail = set(fail_oids)

    def use(self, n):
        if n.ghost:
            self.log.append(n.oid)
            if n.oid in self.fail:
                raise Boom(n.oid)
            n.ghost = False

    # ---- C implementation (BTreeTemplate.c, BTree_check_inner) ----
    def c_first_of(self, n):
        # BTREE(child)->firstbucket; for a leaf the same struct slot is
        # Bucket.next (both follow the Sized header).
        return n.firstbucket if n.kind == 'T' else n.next

    def c_check(self, n, nextbucket):
        self.use(n)
        kids = n.kids
        if not kids:
            return
        last = len(kids) - 1
        if kids[0].cls is n.cls:
            self.use(kids[0])
            if n.firstbucket is not self.c_first_of(kids[0]):
                raise Bad("BTree has firstbucket different than "
                          "its first child's firstbucket")
            for i, c in enumerate(kids):
                if c.cls is not n.cls:
                    raise Bad("BTree children have different types")
                self.use(c)
                if c.size() < 1:
                    raise Bad("BTree child length < 1")
                if i == last:
                    after = nextbucket
                else:
                    self.use(kids[i + 1])
                    after = self.c_first_of(kids[i + 1])
                self.c_check(c, after)
        else:
            if n.firstbucket is not kids[0]:
                raise Bad("Bottom-level BTree node has inconsistent "
                          "firstbucket belief")
            for i, c in enumerate(kids):
                self.use(c)
                if c.cls is n.cls:
                    raise Bad("BTree children have different types")
                if c.size() < 1:
                    raise Bad("Bucket length < 1")
                after = nextbucket if i == last else kids[i + 1]
                if c.next is not after:
                    raise Bad("Bucket next pointer is damaged")

    # ---- Python implementation (_base.py, _Tree._check) ----
    def py_check(self, n, nextbucket):
        self.use(n)
        kids = n.kids
        if not kids:
            return
        if n.firstbucket is None:
            raise Bad("Non-empty BTree has NULL firstbucket")
        child_class = kids[0].cls
        for c in kids:
            if c.cls is not child_class:
                raise Bad("BTree children have different types")
            self.use(c)
            if not c.size():
                raise Bad("Bucket length < 1")
        if child_class is n.cls:
            if n.firstbucket is not kids[0].firstbucket:
                raise Bad("BTree has firstbucket different than "
                          "its first child's firstbucket")
            for i in range(len(kids) - 1):
                self.py_check(kids[i], kids[i + 1].firstbucket)
            self.py_check(kids[-1], nextbucket)
        elif child_class is n.cls._bucket_type:
            if n.firstbucket is not kids[0]:
                raise Bad("Bottom-level BTree node has inconsistent "
                          "firstbucket belief")
            for i in range(len(kids) - 1):
                if kids[i].next is not kids[i + 1]:
                    raise Bad("Bucket next pointer is damaged")
            if kids[-1].next is not nextbucket:
                raise Bad("Bucket next pointer is damaged")
        else:
            raise Bad("Incorrect child type")

    def run(self, root):
        """-> ('ok',) | ('assert', msg) | ('boom', oid)"""
        try:
            if IMPL == 'C':
                self.c_check(root, None)
            else:
                self.py_check(root, None)
        except Bad as e:
            return ('assert', e.args[0])
        except Boom as e:
            return ('boom', e.args[0])
        return ('ok',)


def run_real(t):
    try:
        r = t._check()
    except AssertionError as e:
        return ('assert', e.args[0])
    except Boom as e:
        return ('boom', e.args[0])
    expect(r is None, "_check() returned %r" % (r,))
    return ('ok',)


# --------------------------------------------------------------------------
# corruptions of a description (each returns a list of (label, new_root))

def tree_nodes(root):
    out = []

    def rec(n):
        if n.kind == 'T':
            out.append(n)
            for c in n.kids:
                rec(c)
    rec(root)
    return out


def leaves(root):
    out = []
    b = root.firstbucket
    while b is not None:
        out.append(b)
        b = b.next
    return out


def fresh_leaf(proto, key_items):
    b = N('B', proto.cls, proto.mapping)
    b.items = key_items
    return b


def corruptions(root, rng, subclass_leaf):
    """Yield (label, corrupted deep copy).  root itself is never modified."""
    lv = leaves(root)
    tn = tree_nodes(root)
    nl = len(lv)

    def variant():
        r = copy.deepcopy(root)
        return r, leaves(r), tree_nodes(r)

    some_items = lv[0].items
    for j in range(nl):
        if lv[j].next is not None:
            r, l2, _ = variant()
            l2[j].next = None
            yield 'drop-next@%d' % j, r
        targets = {j, 0, nl - 1, (j + 2) % nl, rng.randrange(nl)}
        for m in sorted(targets):
            if j + 1 < nl and m == j + 1:
                continue
            if m <= j:
                # __setstate__ cannot create a cycle in one pass; a
                # backwards pointer is given to a fresh copy of the leaf
                r, l2, _ = variant()
                l2[j].next = fresh_leaf(l2[m], l2[m].items)
                yield 'next-to-copy-of-%d@%d' % (m, j), r
            else:
                r, l2, _ = variant()
                l2[j].next = l2[m]
                yield 'redirect-next-to-%d@%d' % (m, j), r
        r, l2, _ = variant()
        l2[j].items = ()
        yield 'empty-leaf@%d' % j, r
    r, l2, _ = variant()
    l2[-1].next = fresh_leaf(l2[-1], some_items)
    yield 'dangling-next@last', r

    for p in range(len(tn)):
        node = tn[p]
        if not node.kids:
            continue
        # wrong firstbucket
        for which in ('other-leaf', 'foreign', 'none'):
            r, l2, t2 = variant()
            cur = t2[p].firstbucket
            if which == 'other-leaf':
                cands = [b for b in l2 if b is not cur]
                if not cands:
                    continue
                t2[p].firstbucket = rng.choice(cands)
            elif which == 'foreign':
                t2[p].firstbucket = fresh_leaf(l2[0], some_items)
            else:
                if IMPL == 'C':
                    continue    # rejected by __setstate__ (TypeError)
                t2[p].firstbucket = None
            yield 'firstbucket-%s@T%d' % (which, p), r
        for i in range(len(node.kids)):
            c = node.kids[i]
            # child of the other kind
            r, l2, t2 = variant()
            c2 = t2[p].kids[i]
            if c2.kind == 'T':
                t2[p].kids[i] = c2.firstbucket
            else:
                w = N('T', node.cls, node.mapping)
                w.kids = [c2]
                w.firstbucket = c2
                t2[p].kids[i] = w
            # (for an only child this merely changes the depth of the
            # subtree, which is not a corruption)
            yield 'wrong-kind-%schild@T%d.%d' % (
                'only-' if len(node.kids) == 1 else '', p, i), r
            if c.kind == 'T':
                r, l2, t2 = variant()
                t2[p].kids[i] = N('T', node.cls, node.mapping)
                yield 'empty-tree-child@T%d.%d' % (p, i), r
            else:
                r, l2, t2 = variant()
                t2[p].kids[i].cls = subclass_leaf
                yield 'subclass-leaf@T%d.%d' % (p, i), r
        if node.kids[0].kind == 'B':
            r, l2, t2 = variant()
            for c2 in t2[p].kids:
                c2.cls = subclass_leaf
            yield 'all-subclass-leaves@T%d' % p, r


def first_leaf(n):
    while n.kind == 'T':
        n = n.kids[0]
    return n


def last_leaf(n):
    while n.kind == 'T':
        n = n.kids[-1]
    return n


def crafted(root):
    """Compound alterations that keep everything consistent up to one deep
    check, so that the checks a single corruption cannot reach first are
    exercised as well (wrong child kind, empty interior child, wrong
    firstbucket in a bottom-level node that is not the root)."""
    tn = tree_nodes(root)

    def variant():
        r = copy.deepcopy(root)
        return r, leaves(r), tree_nodes(r)

    for p in range(len(tn)):
        node = tn[p]
        for i in range(1, len(node.kids)):
            if node.kids[i].kind == 'T':
                r, l2, t2 = variant()
                b = first_leaf(t2[p].kids[i])
                last_leaf(t2[p].kids[i - 1]).next = b.next
                t2[p].kids[i] = b
                yield 'leaf-among-trees@T%d.%d' % (p, i), r
                r, l2, t2 = variant()
                last_leaf(t2[p].kids[i - 1]).next = None
                t2[p].kids[i] = N('T', node.cls, node.mapping)
                yield 'linked-empty-tree-child@T%d.%d' % (p, i), r
            else:
                r, l2, t2 = variant()
                w = N('T', node.cls, node.mapping)
                w.kids = [t2[p].kids[i]]
                w.firstbucket = t2[p].kids[i]
                t2[p].kids[i - 1].next = w
                t2[p].kids[i] = w
                yield 'tree-among-leaves@T%d.%d' % (p, i), r
        if node.kids and node.kids[0].kind == 'B' and p > 0:
            r, l2, t2 = variant()
            x = fresh_leaf(l2[0], l2[0].items)
            at = l2.index(t2[p].kids[0])
            t2[p].firstbucket = x
            if at > 0:
                l2[at - 1].next = x
            yield 'linked-wrong-firstbucket@T%d' % p, r


# --------------------------------------------------------------------------

def compare_outcome(label, root, jar_fraction=None, rng=None):
    """Build root, run the real checker and the model, compare."""
    jar = Jar() if jar_fraction is not None else None
    try:
        t, nodes, real = build(root, jar)
    except TypeError as e:
        fail("%s: __setstate__ rejected the description: %r" % (label, e))
    model = Model()
    if jar is not None:
        chosen = [n for n in nodes if rng.random() < jar_fraction]
        if rng.random() < .5 and nodes:
            victim = rng.choice(nodes)
            if victim not in chosen:
                chosen.append(victim)
            jar.fail.add(victim.oid)
            model.fail.add(victim.oid)
        for n in chosen:
            obj = real[id(n)]
            obj._p_deactivate()
            expect(obj._p_state == -1, "%s: could not ghostify" % label)
            n.ghost = True
    want = model.run(root)
    got = run_real(t)
    expect(got == want, "%s: _check() gave %r, specified %r"
           % (label, got, want))
    if jar is not None:
        expect(jar.log == model.log, "%s: load order %r, specified %r"
               % (label, jar.log, model.log))
        for n in nodes:
            st = real[id(n)]._p_state
            expect(st in (-1, 0), "%s: node %r left in state %r"
                   % (label, n.oid, st))
            expect((st == -1) == n.ghost, "%s: node %r ghost=%r, specified %r"
                   % (label, n.oid, st == -1, n.ghost))
        COUNTS['ghost'] += 1
        if want[0] == 'boom':
            COUNTS['ghost_fail'] += 1
    if want[0] == 'assert':
        MESSAGES[want[1]] = MESSAGES.get(want[1], 0) + 1
    return want


def contents(t, mapping):
    return list(t.items()) if mapping else list(t.keys())


def exercise(base_module, prefix, kletter, vletter, mapping, rng):
    tree_name = prefix + ('BTree' if mapping else 'TreeSet') + SUFFIX
    leaf_name = prefix + ('Bucket' if mapping else 'Set') + SUFFIX
    base = getattr(base_module, tree_name)
    leaf = getattr(base_module, leaf_name)
    expect(base._bucket_type is leaf, "unexpected _bucket_type")
    if IMPL == 'C':
        expect(not tree_name.endswith('Py')
               and base is not getattr(base_module, tree_name + 'Py'),
               "C extension not in use for %s" % tree_name)

    class Small(base):
        max_leaf_size = rng.choice([2, 3, 4])
        max_internal_size = rng.choice([2, 3, 4])

    class SubLeaf(leaf):
        pass

    t = Small()
    model = {}
    target = rng.choice([5, 9, 17, 30])
    steps = 0
    while steps < 400:
        steps += 1
        k = gen_key(kletter, rng)
        grow = len(model) < target or rng.random() < .45
        if grow:
            if mapping:
                v = gen_value(vletter, rng)
                t[k] = v
                model[k] = v
            else:
                t.add(k)
                model[k] = None
        elif model:
            k = rng.choice(sorted(model))
            if mapping:
                del t[k]
            else:
                t.remove(k)
            del model[k]
        if steps % 40 == 0 or steps == 400:
            expect(t._check() is None, "natural tree rejected")
            want = sorted(model.items()) if mapping else sorted(model)
            expect(contents(t, mapping) == want, "contents differ from model")
            COUNTS['natural'] += 1

    # also the degenerate shapes
    for tiny in (Small(), Small({gen_key(kletter, rng): gen_value(vletter, rng)}
                                if mapping else [gen_key(kletter, rng)])):
        expect(tiny._check() is None, "tiny natural tree rejected")
        d = describe(tiny, mapping)
        expect(compare_outcome('tiny', d) == ('ok',), "tiny copy rejected")
        COUNTS['natural'] += 1

    root = describe(t, mapping)
    # pristine copy
    want = compare_outcome(tree_name + ' pristine', root)
    expect(want == ('ok',), "model rejects a natural tree: %r" % (want,))
    copy_t, _, _ = build(root)
    expect(contents(copy_t, mapping) == contents(t, mapping),
           "pristine copy has different contents")
    COUNTS['pristine'] += 1
    for frac in (0.0, 0.3, 0.7, 1.0):
        compare_outcome(tree_name + ' pristine ghosts', copy.deepcopy(root),
                        jar_fraction=frac, rng=rng)

    every = list(corruptions(root, rng, SubLeaf)) + list(crafted(root))
    for label, bad in every:
        label = '%s %s' % (tree_name, label)
        want = compare_outcome(label, bad)
        COUNTS['corrupt'] += 1
        if want[0] == 'assert':
            COUNTS['detected'] += 1
        elif 'only-child' in label:
            pass
        elif not (IMPL == 'C' and 'subclass-lea' in label):
            # the C checker only distinguishes "same type as the parent"
            # from "anything else", so it accepts a leaf subclass
            fail("%s: corruption not detected" % label)
        if rng.random() < .35:
            compare_outcome(label + ' ghosts', copy.deepcopy(bad),
                            jar_fraction=rng.choice([.2, .6, 1.0]), rng=rng)


def main():
    for base_module, prefix, kletter, vletter in FAMILIES:
        for mapping in (True, False):
            exercise(base_module, prefix, kletter, vletter, mapping, RNG)
    print("impl=%s seed=%d" % (IMPL, SEED))
    print("counts:", COUNTS)
    for m in sorted(MESSAGES):
        print("  %5d  %s" % (MESSAGES[m], m))
    required = [
        "BTree children have different types",
        "BTree has firstbucket different than "
        "its first child's firstbucket",
        "Bottom-level BTree node has inconsistent firstbucket belief",
        "Bucket length < 1",
        "Bucket next pointer is damaged",
    ]
    if IMPL == 'C':
        required.append("BTree child length < 1")
    else:
        required += ["Non-empty BTree has NULL firstbucket",
                     "Incorrect child type"]
    for m in required:
        expect(MESSAGES.get(m, 0) > 0, "message never exercised: %s" % m)
    expect(COUNTS['ghost_fail'] > 20, "too few failed activations")
    print("elapsed %.1fs" % (time.time() - T0))
    print("OK")


if __name__ == '__main__':
    main()
