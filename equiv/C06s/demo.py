"""Equivalence demonstration for refactoring C06s.

C06s tidies the class swap that makes pure-Python containers pickle under
the C class names (_base.py): _Base.__reduce__ loses two temporaries, the
conditional expression in the _Base.__class__ property becomes an if/return
with the test negated, and _fix_pickle() replaces try/except KeyError by a
membership test for the optional iterator class, `if not have_c: <rename>` by
`if have_c: continue`, and the two name temporaries by two value temporaries.
The demonstration checks property C06 (state / pickle / copy round trips, C
and pure Python byte-identical and mutually loadable) over all 22 families,
4 kinds, histories crossing the three state forms and protocols 0..5 against
a dict model, and then drives the class swap directly: __class__, type(),
isinstance, __reduce__ / __reduce_ex__ of Python objects vs. their C twins,
the class names found in the pickles, subclasses (pickled as themselves), the
attributes installed on the real modules, and _fix_pickle() run on synthetic
module dicts (with / without C classes, optional iterator class, every
missing-name failure) against an independent model of its contract.

Run:  PYTHONPATH=<worktree>/src /venv/bin/python demo.py   (exit status 0)
"""
import copy
import gc
import io
import pickle
import pickletools
import struct
import sys

import BTrees
from persistent import Persistent
from BTrees import check as btcheck

sys.setrecursionlimit(20000)   # pickling a tree without ZODB recurses along
                               # the bucket chain

FAMILIES = ['OO', 'OI', 'OL', 'OU', 'OQ', 'IO', 'II', 'IF', 'IU',
            'LO', 'LL', 'LF', 'LQ', 'UO', 'UU', 'UF', 'UI',
            'QO', 'QQ', 'QF', 'QL', 'fs']
KINDS = ['Bucket', 'Set', 'BTree', 'TreeSet']
PROTOCOLS = range(0, pickle.HIGHEST_PROTOCOL + 1)
assert list(PROTOCOLS) == [0, 1, 2, 3, 4, 5]

CHECKS = [0]


def ok(cond, *msg):
    CHECKS[0] += 1
    if not cond:
        raise AssertionError(' '.join(str(m) for m in msg))


def mod(fam):
    return __import__('BTrees.%sBTree' % fam, fromlist=['*'])


def cls_of(fam, kind, impl):
    """impl is 'C' or 'Py'."""
    m = mod(fam)
    c = getattr(m, fam + kind + ('Py' if impl == 'Py' else ''))
    if impl == 'C':
        ok(c is not getattr(m, fam + kind + 'Py'), 'C extension missing', fam)
    return c


# ---------------------------------------------------------------------------
# keys and values of every native kind; i is a small non-negative integer and
# key(i) is strictly increasing in i
# ---------------------------------------------------------------------------
def key_of(fam, i):
    c = fam[0]
    if fam == 'fs':
        return struct.pack('>H', i)
    if c == 'O':
        return i
    if c == 'I':
        return i - 1000                       # negative and positive
    if c == 'L':
        return (i - 5) * (2 ** 33)            # needs 64 bits
    if c == 'U':
        return i + (2 ** 31 if i > 3 else 0)  # above the signed range
    if c == 'Q':
        return i * (2 ** 40) + (2 ** 63 if i > 3 else 0)
    raise AssertionError(fam)


def value_of(fam, i):
    c = fam[1]
    if fam == 'fs':
        return struct.pack('>HI', i, i * 7)
    if c == 'O':
        return ('v', i) if i % 3 else None
    if c == 'I':
        return -i
    if c == 'L':
        return -i * (2 ** 33)
    if c == 'U':
        return i + 2 ** 31
    if c == 'Q':
        return i + 2 ** 63
    if c == 'F':
        return i * 0.5                        # exact as a C float
    raise AssertionError(fam)


def is_set(kind):
    return 'Set' in kind


def build(cls, kind, fam, history, model=None):
    """Apply history (list of ('+', i) / ('-', i)) to a fresh container; the
    model (a dict) gets the same operations applied."""
    obj = cls()
    if model is None:
        model = {}
    for op, i in history:
        k = key_of(fam, i)
        if op == '+':
            if is_set(kind):
                obj.add(k)
                model[k] = None
            else:
                obj[k] = value_of(fam, i)
                model[k] = value_of(fam, i)
        else:
            if is_set(kind):
                obj.remove(k)
            else:
                del obj[k]
            del model[k]
    return obj, model


def contents(obj, kind):
    if is_set(kind):
        return [(k, None) for k in obj.keys()]
    return list(obj.items())


def expected(model):
    return sorted(model.items())


def leaf_size(fam, kind):
    return cls_of(fam, 'BTree', 'Py').max_leaf_size


def histories(fam):
    """name -> history.  Crosses the three state forms in both directions."""
    n = leaf_size(fam, 'BTree')
    grow = [('+', i) for i in range(2 * n + 7)]
    return {
        'empty': [],
        'one': [('+', 5)],
        'few': ([('+', i) for i in (9, 2, 7, 4, 1, 8, 3)] +
                [('-', 7), ('-', 1)]),
        'full-leaf': [('+', i) for i in range(n)],
        'just-split': [('+', i) for i in range(n + 1)],
        'grown': grow,
        'grown-shrunk': grow + [('-', i) for i in range(3, 2 * n + 7)],
        'grown-emptied': grow + [('-', i) for i in range(2 * n + 7)],
        'emptied-regrown': ([('+', 1), ('-', 1)] +
                            [('+', i) for i in (6, 5)]),
    }


# ---------------------------------------------------------------------------
# independent description of a state
# ---------------------------------------------------------------------------
def base_name(obj):
    n = type(obj).__name__      # type(), not __class__: the latter is swapped
    for suffix in ('_C', '_Py', 'Py'):
        if n.endswith(suffix):
            return n[:-len(suffix)]
    return n


def is_tree(x):
    return hasattr(x, '_firstbucket')


def is_node(x):
    return isinstance(x, Persistent)


def norm(x, seen=None):
    """Replace every node in a state by (class name, normalized state) so
    that C and Python states can be compared by value."""
    if seen is None:
        seen = {}
    if isinstance(x, tuple):
        return tuple(norm(e, seen) for e in x)
    if is_node(x):
        if id(x) in seen:
            return ('ref', seen[id(x)])
        seen[id(x)] = len(seen)
        return (base_name(x), norm(x.__getstate__(), seen))
    return x


def flat(model, kind):
    out = []
    for k, v in sorted(model.items()):
        out.append(k)
        if not is_set(kind):
            out.append(v)
    return tuple(out)


def leaf_items(leafstate, kind):
    items = leafstate[0]
    if is_set(kind):
        return [(k, None) for k in items]
    return [(items[i], items[i + 1]) for i in range(0, len(items), 2)]


def subtree_keys(node, kind):
    """Keys below a node, from the states alone (not following `next`)."""
    st = node.__getstate__()
    if not is_tree(node):
        return [k for k, _ in leaf_items(st, kind)]
    if st is None:
        return []
    if len(st) == 1:
        return [k for k, _ in leaf_items(st[0][0], kind)]
    out = []
    for child in st[0][::2]:
        out.extend(subtree_keys(child, kind))
    return out


def walk_state(obj, kind):
    """Contents reconstructed from __getstate__() alone, plus the form."""
    state = obj.__getstate__()
    if kind in ('Bucket', 'Set'):
        ok(isinstance(state, tuple) and len(state) in (1, 2), 'leaf form')
        return leaf_items(state, kind), 'leaf'
    if state is None:
        return [], 'none'
    ok(isinstance(state, tuple), 'tree state is a tuple')
    if len(state) == 1:
        ok(isinstance(state[0], tuple) and len(state[0]) == 1, 'embedded form')
        leafstate = state[0][0]
        ok(len(leafstate) == 1, 'embedded leaf has no next')
        return leaf_items(leafstate, kind), 'embedded'
    ok(len(state) == 2, 'tree form')
    items, first = state
    ok(len(items) % 2 == 1, 'odd number of entries')
    # descend along child 0 to the first leaf
    node = items[0]
    depth = 1
    while node is not None and is_tree(node):
        st = node.__getstate__()
        # (an inner node left with one oid-less leaf embeds it as well)
        node = st[0][0] if len(st) == 2 else None
        depth += 1
    ok(node is None or node is first, 'firstbucket is the leftmost leaf')
    out = []
    leaf = first
    nleaves = 0
    while leaf is not None:
        st = leaf.__getstate__()
        out.extend(leaf_items(st, kind))
        leaf = st[1] if len(st) == 2 else None
        nleaves += 1
    # separators bound their children
    for j in range(1, len(items), 2):
        sep, child = items[j], items[j + 1]
        ck = subtree_keys(child, kind)
        pk = subtree_keys(items[j - 1], kind)
        ok(not pk or pk[-1] < sep, 'separator above left child')
        ok(not ck or sep <= ck[0], 'separator not above right child')
    return out, 'tree/%d' % depth


def sound(obj, kind):
    if kind in ('BTree', 'TreeSet'):
        obj._check()
        if type(obj) in btcheck._type2kind:     # not for subclasses
            btcheck.check(obj)


class PyUnpickler(pickle.Unpickler):
    """Load a pickle into the pure-Python classes."""

    def find_class(self, module, name):
        if module.startswith('BTrees.') and not name.endswith('Py'):
            name += 'Py'
        return super().find_class(module, name)


def py_loads(data):
    return PyUnpickler(io.BytesIO(data)).load()


def ops(data):
    return [(o.name, a) for o, a, _ in pickletools.genops(data)]


def use(obj, kind, fam, model):
    """The loaded container must be fully usable."""
    model = dict(model)
    for i in (900, 0, 901):
        k = key_of(fam, i)
        if is_set(kind):
            obj.add(k)
            model[k] = None
        else:
            obj[k] = value_of(fam, i)
            model[k] = value_of(fam, i)
    for k in list(model)[::3]:
        if is_set(kind):
            obj.remove(k)
        else:
            del obj[k]
        del model[k]
    ok(contents(obj, kind) == expected(model), 'usable after load')
    ok(len(obj) == len(model))
    for k in model:
        ok(k in obj)
    sound(obj, kind)


def roundtrip_checks(fam, kind, hname, history, protocols=PROTOCOLS,
                     byte_identical=True, classes=None):
    """The C06 property for one (family, kind, history)."""
    objs = {}
    model = None
    for impl in ('C', 'Py'):
        cls = classes[impl] if classes else cls_of(fam, kind, impl)
        objs[impl], model = build(cls, kind, fam, history)
    exp = expected(model)
    tag = (fam, kind, hname)

    forms = {}
    for impl, obj in objs.items():
        ok(contents(obj, kind) == exp, tag, impl, 'history vs model')
        sound(obj, kind)
        got, forms[impl] = walk_state(obj, kind)
        ok(got == exp, tag, impl, 'state walk vs model', forms[impl])
    ok(forms['C'] == forms['Py'], tag, 'same state form', forms)
    ok(norm(objs['C'].__getstate__()) == norm(objs['Py'].__getstate__()),
       tag, 'normalized states equal')

    # independently computed state for the two simple forms
    if kind in ('BTree', 'TreeSet'):
        if not model:
            for obj in objs.values():
                ok(obj.__getstate__() is None, tag)
        elif forms['C'] == 'embedded':
            for obj in objs.values():
                ok(obj.__getstate__() == (((flat(model, kind),),),), tag)
    else:
        for obj in objs.values():
            ok(obj.__getstate__() == (flat(model, kind),), tag)

    if fam == 'fs' and forms['C'].startswith('tree'):
        # The Python fs tree shares one bytes object between a separator and
        # the leaf key it was copied from (pickle memoizes it); the C tree
        # stores char[2] and makes new objects.  Same values, other opcodes
        # - already so in the unmodified code; byte identity not checked.
        byte_identical = False
    for proto in protocols:
        dumps = {impl: pickle.dumps(obj, proto) for impl, obj in objs.items()}
        if byte_identical:
            ok(dumps['C'] == dumps['Py'], tag, proto, 'byte-identical pickles')
            ok(ops(dumps['C']) == ops(dumps['Py']), tag, proto)
        for src, data in dumps.items():
            for loader, dst in ((pickle.loads, 'C'), (py_loads, 'Py')):
                if classes and src != dst:
                    continue    # subclasses pickle under their own names
                new = loader(data)
                want = classes[dst] if classes else cls_of(fam, kind, dst)
                ok(type(new) is want, tag, proto, src, dst, type(new))
                ok(contents(new, kind) == exp, tag, proto, src, dst)
                ok(len(new) == len(exp) and bool(new) == bool(exp))
                sound(new, kind)
                ok(norm(new.__getstate__()) == norm(objs[src].__getstate__()))
                if byte_identical:
                    ok(pickle.dumps(new, proto) == data, tag, proto, 're-dump')
                if proto in (0, 2, 5):
                    use(new, kind, fam, model)

    # __getstate__/__setstate__ directly; copy; deepcopy
    for impl, obj in objs.items():
        cls = type(obj)
        new = cls()
        state = obj.__getstate__()
        new.__setstate__(state)
        ok(contents(new, kind) == exp, tag, impl, 'setstate(getstate)')
        ok(norm(new.__getstate__()) == norm(state))
        sound(new, kind)
        # loading a second, different state replaces the first one
        new.__setstate__(cls().__getstate__() if kind in ('BTree', 'TreeSet')
                         else ((),))
        ok(contents(new, kind) == [] and len(new) == 0, tag, impl, 'reset')
        new.__setstate__(state)
        ok(contents(new, kind) == exp, tag, impl, 'setstate twice')
        del new

        if not (classes and impl == 'Py'):
            # (a pure-Python *subclass* keeps its own name but its leaves
            # reduce to the C leaf class, which it then refuses: not covered)
            dc = copy.deepcopy(obj)
            ok(contents(dc, kind) == exp, tag, impl, 'deepcopy')
            sound(dc, kind)
            use(dc, kind, fam, model)
            ok(contents(obj, kind) == exp, tag, impl, 'deepcopy independent')
        if impl == 'C':
            # (copy.copy of a multi-level pure-Python tree hands Python nodes
            # to the C class and is not part of this demonstration)
            sc = copy.copy(obj)
            ok(type(sc) is cls and contents(sc, kind) == exp, tag, 'copy')
            sound(sc, kind)

    # direct cross-implementation setstate where the state holds no nodes
    st_c = objs['C'].__getstate__()
    if norm(st_c) == st_c:
        for a, b in (('C', 'Py'), ('Py', 'C')):
            new = type(objs[b])()
            new.__setstate__(objs[a].__getstate__())
            ok(contents(new, kind) == exp, tag, a, '->', b)
            sound(new, kind)
            use(new, kind, fam, model)
    return forms['C']


def expect_error(fn, exc_name, message=None):
    try:
        fn()
    except BaseException as e:      # noqa
        ok(type(e).__name__ == exc_name,
           'expected', exc_name, 'got', type(e).__name__, e)
        if message is not None:
            ok(str(e) == message, 'message', repr(str(e)), '!=', repr(message))
        return e
    raise AssertionError('no exception, expected ' + exc_name)


class Jar:
    """Minimal data manager: records change notifications."""

    def __init__(self):
        self.registered = []
        self.oids = 0

    def register(self, obj):
        self.registered.append(obj)

    def setstate(self, obj):
        raise AssertionError('unexpected ghost load')

    def readCurrent(self, obj):
        pass

    def adopt(self, obj):
        self.oids += 1
        obj._p_jar = self
        obj._p_oid = struct.pack('>Q', self.oids)


class LoadingJar(Jar):
    """Data manager that can load ghosts from recorded states."""

    def __init__(self):
        Jar.__init__(self)
        self.states = {}
        self.loads = 0

    def setstate(self, obj):
        self.loads += 1
        obj.__setstate__(self.states[obj._p_oid])


def make_small_subclasses(fam, kind):
    """Subclasses with tiny nodes so that short histories give deep trees."""
    out = {}
    for impl in ('C', 'Py'):
        base = cls_of(fam, kind, impl)
        name = 'Small_%s_%s_%s' % (fam, kind, impl)
        if name not in globals():
            globals()[name] = type(name, (base,), {
                'max_leaf_size': 4, 'max_internal_size': 3,
                '__module__': __name__, '__slots__': ()})
        out[impl] = globals()[name]
    return out


def common_checks(families=FAMILIES, kinds=KINDS):
    seen_forms = set()
    for fam in families:
        for kind in kinds:
            for hname, history in histories(fam).items():
                if kind in ('Bucket', 'Set') and hname.startswith('grown'):
                    history = history[:40] + [h for h in history[40:]
                                              if h[0] == '-' and h[1] < 40]
                form = roundtrip_checks(fam, kind, hname, history)
                seen_forms.add((kind in ('BTree', 'TreeSet'), form))
        # deep trees (3+ levels) through tiny-node subclasses
        for kind in ('BTree', 'TreeSet'):
            if kind not in kinds:
                continue
            classes = make_small_subclasses(fam, kind)
            deep = [('+', i) for i in range(60)]
            for hname, history in (
                    ('deep', deep),
                    ('deep-shrunk', deep + [('-', i) for i in range(54)]),
                    ('deep-holes', deep + [('-', i) for i in range(0, 60, 2)]),
            ):
                form = roundtrip_checks(fam, kind, hname, history,
                                        protocols=(0, 2, 5),
                                        byte_identical=False, classes=classes)
                seen_forms.add((True, form))
    return seen_forms


def check_forms(forms):
    """All three state forms were reached: None, embedded leaf, and
    children+separators+firstbucket with one and with several node levels."""
    ok((True, 'none') in forms and (True, 'embedded') in forms, forms)
    ok((True, 'tree/1') in forms, forms)
    ok(any(f[1] in ('tree/3', 'tree/4') for f in forms), forms)
    ok((False, 'leaf') in forms, forms)


# ---------------------------------------------------------------------------
# focus: _base.py _Base.__reduce__ / _Base.__class__ / _fix_pickle()
# ---------------------------------------------------------------------------
import copyreg

from BTrees._base import _fix_pickle


def global_names(data, base=pickle.Unpickler):
    """(module, name) of every class a pickle refers to."""
    out = []

    class Recorder(base):
        def find_class(self, module, name):
            out.append((module, name))
            return super().find_class(module, name)

    Recorder(io.BytesIO(data)).load()
    return out


def fake_module(prefix, with_c, with_iterator=True, drop=()):
    """A module dict as populate_module() leaves it before _fix_pickle()."""
    d = {}
    for name in ('Bucket', 'Set', 'BTree', 'TreeSet', 'TreeIterator'):
        if name == 'TreeIterator' and not with_iterator:
            continue
        py = type(prefix + name + 'Py', (), {})
        d[prefix + name + 'Py'] = py
        d[prefix + name] = type(prefix + name, (), {}) if with_c else py
    for k in drop:
        del d[k]
    return d


def model_fix_pickle(d, mod_name):
    """Independent statement of what _fix_pickle() has to do: returns
    {py class: (reduce_as, up_bound, __name__, __qualname__)} or the name
    whose lookup fails first."""
    prefix = mod_name.split('.')[-1][:2]
    for k in (prefix + 'Bucket', prefix + 'BucketPy'):
        if k not in d:
            return {}, k
    with_c = d[prefix + 'Bucket'] is not d[prefix + 'BucketPy']
    out = {}
    for name in ('Bucket', 'Set', 'BTree', 'TreeSet', 'TreeIterator'):
        raw, py = prefix + name, prefix + name + 'Py'
        if py not in d:
            if name == 'TreeIterator':
                continue
            return out, py
        if raw not in d:
            return out, raw
        out[d[py]] = (d[raw], d[py],
                      py if with_c else raw, py if with_c else raw)
    return out, None


def focus_class_swap():
    # 1. every family and kind: the Python object reports the C class, is
    #    reduced to it, and its pickles name only the C classes
    for fam in FAMILIES:
        m = mod(fam)
        for kind in KINDS:
            c, p = cls_of(fam, kind, 'C'), cls_of(fam, kind, 'Py')
            ok(p._BTree_reduce_as is c and p._BTree_reduce_up_bound is p)
            ok(p.__name__ == fam + kind + 'Py')
            ok(p.__qualname__ == p.__name__)
            ok(p.__module__ == c.__module__ == 'BTrees.%sBTree' % fam)
            for hname in ('empty', 'few', 'grown'):
                history = histories(fam)[hname]
                if kind in ('Bucket', 'Set'):
                    history = history[:40]
                obj, model = build(p, kind, fam, history)
                ok(type(obj) is p and obj.__class__ is c)
                ok(isinstance(obj, c) and isinstance(obj, p))
                red = obj.__reduce__()
                ok(type(red) is tuple and len(red) == 3)
                ok(red[0] is copyreg.__newobj__)
                ok(type(red[1]) is tuple and red[1] == (c,))
                ok(norm(red[2]) == norm(obj.__getstate__()))
                cobj, _ = build(c, kind, fam, history)
                cred = cobj.__reduce__()
                ok(cred[0] is red[0] and cred[1] == red[1])
                ok(norm(cred[2]) == norm(red[2]))
                for proto in PROTOCOLS:
                    rx = obj.__reduce_ex__(proto)
                    ok(rx[0] is copyreg.__newobj__ and rx[1] == (c,))
                    names = set(global_names(pickle.dumps(obj, proto)))
                    ok(names == set(global_names(pickle.dumps(cobj, proto))))
                    ours = {x for x in names if x[0].startswith('BTrees.')}
                    ok(ours and all(
                        mo == c.__module__ and not n.endswith('Py') and
                        getattr(m, n) is cls_of(fam, n[2:], 'C')
                        for mo, n in ours), names)
                    ok((c.__module__, c.__name__) in ours)
        # the iterator class takes part in the swap as well
        itp = getattr(m, fam + 'TreeIteratorPy')
        ok(itp._BTree_reduce_as is getattr(m, fam + 'TreeIterator'))
        ok(itp._BTree_reduce_up_bound is itp)

    # 2. subclasses are pickled as themselves
    for fam, kind in (('OO', 'BTree'), ('II', 'TreeSet'), ('LF', 'Bucket'),
                      ('fs', 'Set')):
        classes = make_small_subclasses(fam, kind)
        sub = classes['Py']
        base = cls_of(fam, kind, 'Py')
        ok(sub._BTree_reduce_up_bound is base and sub._BTree_reduce_as is
           cls_of(fam, kind, 'C'))
        obj, model = build(sub, kind, fam, [('+', i) for i in range(9)])
        ok(obj.__class__ is sub and type(obj) is sub)
        red = obj.__reduce__()
        ok(red[0] is copyreg.__newobj__ and red[1] == (sub,))
        for proto in PROTOCOLS:
            data = pickle.dumps(obj, proto)
            ok(('__main__', sub.__name__) in global_names(data, PyUnpickler))
            new = py_loads(data)
            ok(type(new) is sub and contents(new, kind) == expected(model))

    # 3. _fix_pickle() on synthetic modules, against the model above
    cases = [
        dict(with_c=True),
        dict(with_c=False),
        dict(with_c=True, with_iterator=False),
        dict(with_c=False, with_iterator=False),
        dict(with_c=True, drop=('ZZTreeSetPy',)),
        dict(with_c=False, drop=('ZZSetPy', 'ZZSet')),
        dict(with_c=True, drop=('ZZBTree',)),
        dict(with_c=True, drop=('ZZTreeIterator',)),
        dict(with_c=True, drop=('ZZTreeIteratorPy',)),
        dict(with_c=True, drop=('ZZBucket',)),
        dict(with_c=True, drop=('ZZBucketPy',)),
    ]
    for case in cases:
        for mod_name in ('BTrees.ZZBTree', 'ZZBTree', 'a.b.ZZ'):
            d = fake_module('ZZ', **case)
            want, missing = model_fix_pickle(dict(d), mod_name)
            before = dict(d)
            if missing is None:
                ok(_fix_pickle(d, mod_name) is None)
            else:
                e = expect_error(lambda: _fix_pickle(d, mod_name), 'KeyError')
                ok(e.args == (missing,), case, e.args, missing)
            ok(d == before)                 # the dict itself is not changed
            for key, cls in d.items():
                if not key.endswith('Py'):
                    continue
                if cls in want:
                    got = (cls.__dict__.get('_BTree_reduce_as'),
                           cls.__dict__.get('_BTree_reduce_up_bound'),
                           cls.__name__, cls.__qualname__)
                    ok(got == want[cls], case, key, got)
                else:                       # not reached: untouched
                    ok('_BTree_reduce_as' not in cls.__dict__, case, key)
                    ok(cls.__name__ == key and cls.__qualname__ == key)
            for key, cls in d.items():
                if not key.endswith('Py') and case['with_c']:
                    ok('_BTree_reduce_as' not in cls.__dict__)
                    ok(cls.__name__ == key)


def main():
    forms = common_checks()
    check_forms(forms)
    focus_class_swap()
    print('OK: %d checks' % CHECKS[0])


if __name__ == '__main__':
    main()
