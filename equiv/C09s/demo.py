
# ---------------------------------------------------------------------------
# Common harness: paired execution of the C and the pure-Python implementation
# against an independent dict/set reference model.
# ---------------------------------------------------------------------------
import gc
import importlib
import pickle
import sys

FAILURES = []


def check(cond, *what):
    if not cond:
        FAILURES.append(what)
        if len(FAILURES) <= 25:
            print("FAIL:", *what)


def outcome(f, *args):
    try:
        return ('ok', f(*args))
    except Exception as e:  # noqa
        return ('exc', type(e).__name__)


I32 = (-2 ** 31, 2 ** 31 - 1)
I64 = (-2 ** 63, 2 ** 63 - 1)
U32 = (0, 2 ** 32 - 1)
U64 = (0, 2 ** 64 - 1)
INT_RANGE = {'I': I32, 'L': I64, 'U': U32, 'Q': U64}


class Kind:
    """Independent description of one key or value data type."""

    def __init__(self, code, is_key):
        self.code = code
        self.is_key = is_key

    def usable(self, x):
        c = self.code
        if c in INT_RANGE:
            lo, hi = INT_RANGE[c]
            return isinstance(x, int) and lo <= x <= hi
        if c == 'F':
            return isinstance(x, (int, float))
        if c == 'O':
            if not self.is_key:
                return True
            return x is None or type(x).__lt__ is not object.__lt__
        if c == 'f':
            n = 2 if self.is_key else 6
            return isinstance(x, bytes) and len(x) == n
        raise AssertionError(c)

    def convert(self, x):
        c = self.code
        if c in INT_RANGE:
            return int(x)
        if c == 'F':
            return float(x)
        return x

    def good(self):
        c = self.code
        if c in INT_RANGE:
            lo, hi = INT_RANGE[c]
            vals = [lo, lo + 1, hi - 1, hi, 0, 1, 2, 3, 5, 7, 100, 1000,
                    True, 65536, hi // 2, hi // 3]
            if lo < 0:
                vals += [-1, -2, -100, lo // 2]
            return vals
        if c == 'F':
            return [0.5, 2, -3, 1.25, 0, True, -0.75, 1024.0, 3, 7, 9, 11,
                    13.5, 15, 17, 19, 21, 23]
        if c == 'O':
            if self.is_key:
                return [None, 0, 1, 2, 3, 5, 7, -1, -2, 100, 1000, 2 ** 70,
                        -2 ** 70, 11, 13, 17, 19, 23, 29, 31]
            return [None, 'a', 1.5, (1, 2), 2 ** 70, b'x', 0, 1, 2, 3, 4,
                    5, 6, 7, 8, 9, 10, 11, 12, 13]
        if c == 'f':
            n = 2 if self.is_key else 6
            return [bytes([i, j]) * (n // 2) for i in (0, 1, 7, 200, 255)
                    for j in (0, 3, 9, 255)]
        raise AssertionError(c)

    def bad(self):
        c = self.code
        if c in INT_RANGE:
            lo, hi = INT_RANGE[c]
            return [None, 'a', 1.5, (1,), b'ab', lo - 1, hi + 1, 2 ** 70,
                    -2 ** 70, object(), [], 2 ** 64, -2 ** 63 - 1]
        if c == 'F':
            return [None, 'a', (1,), b'ab', object(), []]
        if c == 'O':
            if self.is_key:
                return [object()]
            return []
        if c == 'f':
            return [None, 'ab', 1, b'', b'abc', b'a', (1,), object(),
                    b'abcdefg']
        raise AssertionError(c)


FAMILIES = ['OO', 'OI', 'OL', 'OU', 'OQ',
            'IO', 'II', 'IF', 'IU',
            'LO', 'LL', 'LF', 'LQ',
            'UO', 'UU', 'UF', 'UI',
            'QO', 'QQ', 'QF', 'QL',
            'fs']


def family_classes(fam, kind):
    """Return (C class, Python class) for kind in BTree/Bucket/Set/TreeSet."""
    mod = importlib.import_module('BTrees.%sBTree' % fam)
    c = getattr(mod, fam + kind)
    py = getattr(mod, fam + kind + 'Py')
    check(c is not py, fam, kind, 'C extension not in use')
    return c, py


def small(cls):
    """A subclass with tiny nodes, so that few keys give interior nodes."""
    return type(cls)(cls.__name__ + 'Small', (cls,),
                     {'max_leaf_size': 3, 'max_internal_size': 3})


def norm_state(x, depth=0):
    """Implementation-independent rendering of a __getstate__() value."""
    if isinstance(x, tuple):
        return tuple(norm_state(i, depth + 1) for i in x)
    if hasattr(x, '_p_changed') and hasattr(x, '__getstate__'):
        return ('node', norm_state(x.__getstate__(), depth + 1))
    if isinstance(x, float):
        return repr(x)
    return x


def fkey(k):
    # order-independent comparison helper: floats vs ints etc.
    return k


class MapModel:
    """dict based reference model of a mapping with typed keys/values."""

    def __init__(self, kk, vk):
        self.kk, self.vk, self.d = kk, vk, {}

    def setitem(self, k, v):
        if not self.kk.usable(k) or not self.vk.usable(v):
            return ('exc', 'TypeError')
        self.d[self.kk.convert(k)] = self.vk.convert(v)
        return ('ok', None)

    def getitem(self, k):
        if self.kk.usable(k) and self.kk.convert(k) in self.d:
            return ('ok', self.d[self.kk.convert(k)])
        return ('exc', 'KeyError')

    def get(self, k, dflt):
        if self.kk.usable(k):
            return ('ok', self.d.get(self.kk.convert(k), dflt))
        return ('ok', dflt)

    def contains(self, k):
        return ('ok', self.kk.usable(k) and self.kk.convert(k) in self.d)

    def delitem(self, k):
        if not self.kk.usable(k):
            return ('exc', 'TypeError')
        if self.kk.convert(k) not in self.d:
            return ('exc', 'KeyError')
        del self.d[self.kk.convert(k)]
        return ('ok', None)

    def pop(self, k, dflt):
        if not self.kk.usable(k):
            return ('exc', 'TypeError')
        return ('ok', self.d.pop(self.kk.convert(k), dflt))

    def pop_nodefault(self, k):
        if not self.kk.usable(k):
            return ('exc', 'TypeError')
        if self.kk.convert(k) not in self.d:
            return ('exc', 'KeyError')
        return ('ok', self.d.pop(self.kk.convert(k)))

    def setdefault(self, k, v):
        # only called with a usable v or an unusable k (see notes)
        if not self.kk.usable(k) or not self.vk.usable(v):
            return ('exc', 'TypeError')
        return ('ok', self.d.setdefault(self.kk.convert(k),
                                        self.vk.convert(v)))

    def items(self):
        return sorted(self.d.items(),
                      key=lambda kv: (kv[0] is not None, kv[0]))


class SetModel:
    def __init__(self, kk):
        self.kk, self.s = kk, set()

    def add(self, k):
        if not self.kk.usable(k):
            return ('exc', 'TypeError')
        k = self.kk.convert(k)
        new = k not in self.s
        self.s.add(k)
        return ('ok', int(new))

    def remove(self, k):
        if not self.kk.usable(k):
            return ('exc', 'TypeError')
        if self.kk.convert(k) not in self.s:
            return ('exc', 'KeyError')
        self.s.remove(self.kk.convert(k))
        return ('ok', None)

    def contains(self, k):
        return ('ok', self.kk.usable(k) and self.kk.convert(k) in self.s)

    def keys(self):
        return sorted(self.s, key=lambda k: (k is not None, k))


class FakeJar:
    def __init__(self):
        self.registered = []

    def register(self, obj):
        self.registered.append(id(obj))

    def setstate(self, obj):
        pass

    def readCurrent(self, obj):
        pass


def attach(t, n):
    t._p_jar = FakeJar()
    t._p_oid = b'\0' * 7 + bytes([n])
    return t


def same_snapshot(tag, c, py, model_items, mapping):
    """C and Python object have equal contents, shape and state."""
    if mapping:
        ci, pi = list(c.items()), list(py.items())
    else:
        ci, pi = list(c.keys()), list(py.keys())
    check(ci == pi, tag, 'contents differ', ci, pi)
    check(ci == model_items, tag, 'contents differ from model', ci,
          model_items)
    check(len(c) == len(py) == len(model_items), tag, 'len')
    cs, ps = norm_state(c.__getstate__()), norm_state(py.__getstate__())
    check(cs == ps, tag, 'state differs', cs, ps)


def run_mapping_history(fam, kind, use_small=True, float_values=False):
    """Drive C, Python and the model through one history of calls."""
    kk, vk = Kind(fam[0], True), Kind(fam[1], False)
    if fam == 'fs':
        kk, vk = Kind('f', True), Kind('f', False)
    ccls, pycls = family_classes(fam, kind)
    if use_small and kind == 'BTree':
        ccls, pycls = small(ccls), small(pycls)
    c, py, m = attach(ccls(), 1), attach(pycls(), 2), MapModel(kk, vk)
    tag0 = (fam, kind)
    gk, bk, gv, bv = kk.good(), kk.bad(), vk.good(), vk.bad()
    # Object keys: the two implementations are known to disagree at HEAD
    # about reads/deletes with a default-comparison key, so those calls are
    # left to the recorded-constant section of the demo.
    rbk = [] if kk.code == 'O' else bk
    sentinel = ['default']
    step = [0]

    def both(name, mname, *args):
        step[0] += 1
        tag = tag0 + (step[0], name, args)
        c._p_changed = False
        py._p_changed = False
        rc = outcome(getattr(c, name), *args)
        rp = outcome(getattr(py, name), *args)
        before = dict(m.d)
        rm = getattr(m, mname)(*args)
        if name == 'has_key':
            # C reports the depth for trees: only truth is documented
            rc = (rc[0], bool(rc[1])) if rc[0] == 'ok' else rc
            rp = (rp[0], bool(rp[1])) if rp[0] == 'ok' else rp
        check(rc == rp, tag, 'C vs Py', rc, rp)
        check(rc == rm, tag, 'C vs model', rc, rm)
        if rc[0] == 'ok' and rm[0] == 'ok':
            check(type(rc[1]) is type(rp[1]), tag, 'result type',
                  type(rc[1]), type(rp[1]))
        if rm[0] == 'exc' or name in ('__getitem__', 'get', '__contains__',
                                      'has_key'):
            # nothing may have been changed or announced as changed
            check(not c._p_changed and not py._p_changed, tag,
                  '_p_changed set by a failing write / by a read')
        if before != m.d:
            # (a write that stores what is already there is reported
            # differently by the two implementations at HEAD: not compared)
            check(bool(c._p_changed) == bool(py._p_changed), tag,
                  '_p_changed', c._p_changed, py._p_changed)
        return rc

    def snap():
        same_snapshot(tag0 + (step[0],), c, py, m.items(), True)

    # 1. reads and failing writes on the empty container
    for k in rbk + gk[:3]:
        both('__getitem__', 'getitem', k)
        both('get', 'get', k, sentinel)
        both('__contains__', 'contains', k)
        both('has_key', 'contains', k)
    for k in bk:
        both('__setitem__', 'setitem', k, gv[0])
        both('setdefault', 'setdefault', k, gv[0])
    for k in rbk:
        both('__delitem__', 'delitem', k)
        both('pop', 'pop', k, sentinel)
        both('pop', 'pop_nodefault', k)
    snap()
    # 2. fill, interleaving failing writes
    for i, k in enumerate(gk):
        v = gv[i % len(gv)]
        both('__setitem__', 'setitem', k, v)
        if bv:
            both('__setitem__', 'setitem', k, bv[i % len(bv)])
            both('__setitem__', 'setitem', gk[(i + 1) % len(gk)],
                 bv[i % len(bv)])
        if bk:
            both('__setitem__', 'setitem', bk[i % len(bk)], v)
            both('__setitem__', 'setitem', bk[i % len(bk)],
                 bv[i % len(bv)] if bv else v)
        snap()
    # 3. reads with every key on the populated container
    for k in rbk + gk:
        both('__getitem__', 'getitem', k)
        both('get', 'get', k, sentinel)
        both('get', 'get', k, None)
        both('__contains__', 'contains', k)
        both('has_key', 'contains', k)
    snap()
    # 4. failing writes on the populated container
    for k in rbk:
        both('__delitem__', 'delitem', k)
        both('pop', 'pop', k, sentinel)
        both('pop', 'pop_nodefault', k)
    for k in bk:
        both('setdefault', 'setdefault', k, gv[1])
        for v in bv[:3]:
            both('__setitem__', 'setitem', k, v)
    snap()
    # 5. update() with a bad pair in the middle: pairs before it are kept
    pairs = [(gk[0], gv[2]), (gk[1], gv[3])]
    if bv:
        pairs.append((gk[2], bv[0]))
    elif bk:
        pairs.append((bk[0], gv[0]))
    pairs.append((gk[3], gv[4]))
    rc = outcome(c.update, pairs)
    rp = outcome(py.update, pairs)
    for k, v in pairs:
        if m.setitem(k, v)[0] == 'exc':
            rm = ('exc', 'TypeError')
            break
    else:
        rm = ('ok', None)
    check(rc[0] == rp[0] == rm[0], tag0, 'update', rc, rp, rm)
    if rm[0] == 'exc':
        check(rc == rp == rm, tag0, 'update exc', rc, rp, rm)
    snap()
    # 6. pickle round trip of both, then delete / pop / setdefault
    for proto in (2, pickle.HIGHEST_PROTOCOL):
        # (fsBucket pickles differently in C - toString - at HEAD)
        if not use_small and fam != 'fs':
            check(pickle.dumps(c, proto) == pickle.dumps(py, proto), tag0,
                  'pickles differ')
    for i, k in enumerate(gk):
        if i % 3 == 0:
            both('__delitem__', 'delitem', k)
            both('__delitem__', 'delitem', k)
        elif i % 3 == 1:
            both('pop', 'pop', k, sentinel)
            both('pop', 'pop', k, sentinel)
            both('pop', 'pop_nodefault', k)
        else:
            both('setdefault', 'setdefault', k, gv[0])
        both('__getitem__', 'getitem', k)
        both('__contains__', 'contains', k)
        if i % 4 == 0:
            snap()
    snap()
    return step[0]


def run_set_history(fam, kind, use_small=True):
    kk = Kind(fam[0], True)
    if fam == 'fs':
        kk = Kind('f', True)
    ccls, pycls = family_classes(fam, kind)
    if use_small and kind == 'TreeSet':
        ccls, pycls = small(ccls), small(pycls)
    c, py, m = attach(ccls(), 1), attach(pycls(), 2), SetModel(kk)
    tag0 = (fam, kind)
    gk, bk = kk.good(), kk.bad()
    rbk = [] if kk.code == 'O' else bk
    step = [0]

    def both(name, mname, *args):
        step[0] += 1
        tag = tag0 + (step[0], name, args)
        c._p_changed = False
        py._p_changed = False
        rc = outcome(getattr(c, name), *args)
        rp = outcome(getattr(py, name), *args)
        before = set(m.s)
        rm = getattr(m, mname)(*args)
        if name == 'has_key':
            rc = (rc[0], bool(rc[1])) if rc[0] == 'ok' else rc
            rp = (rp[0], bool(rp[1])) if rp[0] == 'ok' else rp
        check(rc == rp, tag, 'C vs Py', rc, rp)
        check(rc == rm, tag, 'C vs model', rc, rm)
        if rm[0] == 'exc' or name in ('__contains__', 'has_key'):
            check(not c._p_changed and not py._p_changed, tag,
                  '_p_changed set by a failing write / by a read')
        if before != m.s:
            check(bool(c._p_changed) == bool(py._p_changed), tag,
                  '_p_changed')

    def snap():
        same_snapshot(tag0 + (step[0],), c, py, m.keys(), False)

    for k in rbk + gk[:3]:
        both('__contains__', 'contains', k)
        both('has_key', 'contains', k)
    for k in bk:
        both('add', 'add', k)
    for k in rbk:
        both('remove', 'remove', k)
    snap()
    for i, k in enumerate(gk):
        both('add', 'add', k)
        both('add', 'add', k)
        if bk:
            both('add', 'add', bk[i % len(bk)])
        snap()
    for k in rbk + gk:
        both('__contains__', 'contains', k)
        both('has_key', 'contains', k)
    for k in rbk:
        both('remove', 'remove', k)
    snap()
    if not use_small and fam != 'fs':
        check(pickle.dumps(c, 2) == pickle.dumps(py, 2), tag0,
              'pickles differ')
    for i, k in enumerate(gk):
        if i % 2 == 0:
            both('remove', 'remove', k)
            both('remove', 'remove', k)
        both('__contains__', 'contains', k)
    snap()
    return step[0]


def refcount_stable(tag, f, objs, n=300):
    """Calling f() n times must not change the refcount of objs."""
    f()
    gc.collect()
    before = [sys.getrefcount(o) for o in objs]
    for _ in range(n):
        f()
    gc.collect()
    after = [sys.getrefcount(o) for o in objs]
    check(before == after, tag, 'refcount drift', before, after)


def finish(name, nsteps):
    if FAILURES:
        print("%s: %d FAILURES" % (name, len(FAILURES)))
        sys.exit(1)
    print("%s: OK (%d paired steps)" % (name, nsteps))
    sys.exit(0)

# ---------------------------------------------------------------------------
# C09s specific: conversion of arguments to 32-bit keys and values
# (COPY_KEY_FROM_ARG / COPY_VALUE_FROM_ARG of intkeymacros.h and
# intvaluemacros.h, for the non-64-bit families)
# ---------------------------------------------------------------------------
def c09s_specific():
    n = 0

    class MyInt(int):
        pass

    class Indexable:
        def __index__(self):
            return 5

    EXPECTED_KEY = "expected integer key"
    RANGE = "integer out of range"
    NEGATIVE = "can't convert negative value to unsigned int"

    def c_message(code, x):
        """The message the C conversion layer gives for an unusable x
        (recorded from HEAD; None when x is usable)."""
        lo, hi = INT_RANGE[code]
        if not isinstance(x, int):
            return EXPECTED_KEY
        if code == 'U' and -2 ** 63 <= x < 0:
            return NEGATIVE
        if not lo <= x <= hi:
            return RANGE
        return None

    candidates = [
        0, 1, -1, 2, 7, True, False, MyInt(12), MyInt(-12), MyInt(2 ** 40),
        2 ** 31 - 2, 2 ** 31 - 1, 2 ** 31, 2 ** 31 + 1,
        -2 ** 31 + 1, -2 ** 31, -2 ** 31 - 1,
        2 ** 32 - 2, 2 ** 32 - 1, 2 ** 32, 2 ** 32 + 1, -2 ** 32,
        2 ** 62, 2 ** 63 - 1, 2 ** 63, 2 ** 63 + 1, -2 ** 63, -2 ** 63 - 1,
        2 ** 64 - 1, 2 ** 64, 2 ** 100, -2 ** 100,
        1.0, 1.5, float('nan'), 'a', b'a', None, (1,), [1], {1: 1},
        object(), 1j, Ellipsis,
    ]

    def message_of(f, *args):
        try:
            f(*args)
        except TypeError as e:
            return str(e)
        except Exception as e:  # noqa
            return 'unexpected %s' % type(e).__name__
        return None

    # --- keys -------------------------------------------------------------
    for fam, code in [('IO', 'I'), ('II', 'I'), ('IF', 'I'), ('IU', 'I'),
                      ('UO', 'U'), ('UU', 'U'), ('UF', 'U'), ('UI', 'U')]:
        kk, vk = Kind(code, True), Kind(fam[1], False)
        v = vk.good()[1]
        for kind in ('BTree', 'Bucket', 'TreeSet', 'Set'):
            ccls, pycls = family_classes(fam, kind)
            mapping = kind in ('BTree', 'Bucket')
            for prefill in (0, 200):
                c, py = ccls(), pycls()
                base = list(range(1000, 1000 + prefill))
                for t in (c, py):
                    if mapping:
                        t.update([(k, v) for k in base])
                    else:
                        t.update(base)
                for x in candidates:
                    n += 1
                    usable = kk.usable(x)
                    tag = (fam, kind, prefill, x)
                    before = norm_state(c.__getstate__())
                    if mapping:
                        rc = outcome(c.__setitem__, x, v)
                        rp = outcome(py.__setitem__, x, v)
                    else:
                        rc = outcome(c.add, x)
                        rp = outcome(py.add, x)
                    if usable:
                        check(rc[0] == rp[0] == 'ok', tag, 'write', rc, rp)
                        check(int(x) in c and int(x) in py, tag, 'stored')
                        # stored as a plain int, read back equal
                        got = [k for k in c.keys() if k == int(x)]
                        check(len(got) == 1 and type(got[0]) is int, tag,
                              'stored key type', got)
                        if mapping:
                            del c[x], py[x]
                        else:
                            c.remove(x), py.remove(x)
                    else:
                        check(rc == rp == ('exc', 'TypeError'), tag,
                              'write must raise TypeError', rc, rp)
                        if mapping:
                            msg = message_of(c.__setitem__, x, v)
                        else:
                            msg = message_of(c.add, x)
                        check(msg == c_message(code, x), tag, 'message', msg)
                        # reads: absence
                        check(outcome(c.__contains__, x) == ('ok', False)
                              == outcome(py.__contains__, x), tag, 'in')
                        if mapping:
                            check(outcome(c.get, x, 9) == ('ok', 9)
                                  == outcome(py.get, x, 9), tag, 'get')
                            check(outcome(c.__getitem__, x)
                                  == ('exc', 'KeyError')
                                  == outcome(py.__getitem__, x), tag, '[]')
                            check(outcome(c.__delitem__, x)
                                  == ('exc', 'TypeError')
                                  == outcome(py.__delitem__, x), tag, 'del')
                    check(norm_state(c.__getstate__()) == before
                          == norm_state(py.__getstate__()), tag,
                          'state changed')
            # __index__ is not enough for the C implementation (recorded)
            check(message_of(ccls().__contains__, Indexable()) is None, fam)
            if mapping:
                check(message_of(ccls().__setitem__, Indexable(), v)
                      == EXPECTED_KEY, fam, kind, 'Indexable')

    # --- values -----------------------------------------------------------
    for fam, code in [('OI', 'I'), ('II', 'I'), ('UI', 'I'),
                      ('OU', 'U'), ('IU', 'U'), ('UU', 'U')]:
        vk = Kind(code, False)
        for kind in ('BTree', 'Bucket'):
            ccls, pycls = family_classes(fam, kind)
            for prefill in (0, 200):
                c, py = ccls(), pycls()
                for t in (c, py):
                    t.update([(k, 1) for k in range(1000, 1000 + prefill)])
                for key in (5, 1050):   # absent / present (when prefilled)
                    for x in candidates:
                        n += 1
                        tag = (fam, kind, prefill, key, x)
                        before = norm_state(c.__getstate__())
                        rc = outcome(c.__setitem__, key, x)
                        rp = outcome(py.__setitem__, key, x)
                        if vk.usable(x):
                            check(rc == rp == ('ok', None), tag, rc, rp)
                            check(c[key] == py[key] == int(x)
                                  and type(c[key]) is int, tag, 'stored')
                            if key == 5 or not prefill:
                                del c[key], py[key]
                            else:
                                c[key] = py[key] = 1
                        else:
                            check(rc == rp == ('exc', 'TypeError'), tag,
                                  rc, rp)
                            # (sic: the value layer says "key", too)
                            check(message_of(c.__setitem__, key, x)
                                  == c_message(code, x), tag, 'message',
                                  message_of(c.__setitem__, key, x))
                            # setdefault of an absent key and update() use
                            # the same conversion
                            if key not in c:
                                check(outcome(c.setdefault, key, x)
                                      == ('exc', 'TypeError')
                                      == outcome(py.setdefault, key, x),
                                      tag, 'setdefault')
                            check(outcome(c.update, [(key, x)])
                                  == ('exc', 'TypeError')
                                  == outcome(py.update, [(key, x)]), tag,
                                  'update')
                        check(norm_state(c.__getstate__()) == before
                              == norm_state(py.__getstate__()), tag,
                              'state changed')

    # --- __setstate__: conversion of key *and* value of each item ---------
    from BTrees.IIBTree import IIBucket, IISet, IIBTree, IIBucketPy
    from BTrees.UUBTree import UUBucket, UUSet, UUBTree
    from BTrees.IUBTree import IUBucket
    from BTrees.UIBTree import UIBucket
    good = IIBucket()
    good.__setstate__(((1, 2, 3, 4),))
    goodpy = IIBucketPy()
    goodpy.__setstate__(((1, 2, 3, 4),))
    check(list(good.items()) == list(goodpy.items()) == [(1, 2), (3, 4)],
          'setstate')
    # recorded at HEAD (the key is converted first; its failure wins)
    recorded = [
        (IIBucket, ('a', 5), EXPECTED_KEY),
        (IIBucket, (5, 'a'), EXPECTED_KEY),
        (IIBucket, ('a', 'b'), EXPECTED_KEY),
        (IIBucket, (2 ** 70, 5), RANGE),
        (IIBucket, (2 ** 31, 5), RANGE),
        (IIBucket, (5, 2 ** 31), RANGE),
        (IIBucket, (2 ** 70, 'b'), RANGE),
        (IIBucket, ('a', 2 ** 70), EXPECTED_KEY),
        (IIBucket, ('a', 2 ** 31), EXPECTED_KEY),
        (IIBucket, (2 ** 31 - 1, -2 ** 31), None),
        (UUBucket, (-1, 5), NEGATIVE),
        (UUBucket, (5, -1), NEGATIVE),
        (UUBucket, (-1, 'b'), NEGATIVE),
        (UUBucket, (-2 ** 70, 5), RANGE),
        (UUBucket, (2 ** 32, 5), RANGE),
        (UUBucket, (2 ** 32 - 1, 2 ** 32 - 1), None),
        (UUBucket, ('a', -1), EXPECTED_KEY),
        (IUBucket, (-1, -1), NEGATIVE),
        (IUBucket, (-1, 2 ** 32 - 1), None),
        (UIBucket, (-1, -1), NEGATIVE),
        (UIBucket, (2 ** 32 - 1, -1), None),
    ]
    for cls, pair, want in recorded:
        n += 1
        b = cls()
        got = message_of(b.__setstate__, ((1, 1) + pair,))
        check(got == want, cls.__name__, pair, 'setstate message', got)
        if want is None:
            check(list(b.items()) == sorted([(1, 1), pair]) or
                  list(b.items()) == [(1, 1), pair], cls.__name__, pair,
                  list(b.items()))
    for cls, keys, want in [(IISet, (1, 'a'), EXPECTED_KEY),
                            (IISet, (1, 2 ** 31), RANGE),
                            (IISet, (1, -2 ** 31 - 1), RANGE),
                            (IISet, (1, 2 ** 31 - 1), None),
                            (UUSet, (1, -1), NEGATIVE),
                            (UUSet, (1, 2 ** 32), RANGE),
                            (UUSet, (1, 2 ** 32 - 1), None)]:
        n += 1
        s = cls()
        got = message_of(s.__setstate__, (keys,))
        check(got == want, cls.__name__, keys, 'setstate message', got)
        if want is None:
            check(list(s) == list(keys), cls.__name__, keys, list(s))
    # separator keys of an interior node
    b1, b2 = IIBucket({1: 1}), IIBucket({5: 5})
    for sep, want in [(5, None), ('a', EXPECTED_KEY), (2 ** 31, RANGE),
                      (2 ** 70, RANGE)]:
        n += 1
        t = IIBTree()
        got = message_of(t.__setstate__, ((b1, sep, b2), b1))
        check(got == want, 'IIBTree separator', sep, got)
    ub1, ub2 = UUBucket({1: 1}), UUBucket({5: 5})
    for sep, want in [(5, None), (-1, NEGATIVE), (2 ** 32, RANGE)]:
        n += 1
        t = UUBTree()
        got = message_of(t.__setstate__, ((ub1, sep, ub2), ub1))
        check(got == want, 'UUBTree separator', sep, got)

    # --- set operations convert the elements of arbitrary iterables -------
    from BTrees import IIBTree as II, UUBTree as UU
    for mod, bad, want in [(II, 'a', EXPECTED_KEY), (II, 2 ** 31, RANGE),
                           (II, 2 ** 70, RANGE), (UU, -1, NEGATIVE),
                           (UU, 2 ** 32, RANGE)]:
        n += 1
        s = getattr(mod, mod.__name__[-7:-5] + 'Set')([1, 2, 3])
        for op in ('union', 'intersection', 'difference'):
            got = message_of(getattr(mod, op), s, [bad])
            if op == 'difference':
                continue   # the second operand is only searched
            check(got == want, mod.__name__, op, bad, got)
        check(list(mod.union(s, [0, 5])) == [0, 1, 2, 3, 5], mod.__name__)
    # byValue() converts its argument with the value conversion
    t = II.IIBTree({1: 10, 2: 20, 3: 30})
    check(t.byValue(15) == [(2, 3), (1, 2)], 'byValue', t.byValue(15))
    check(message_of(t.byValue, 'a') == EXPECTED_KEY, 'byValue str')
    check(message_of(t.byValue, 2 ** 31) == RANGE, 'byValue range')
    u = UU.UUBTree({1: 10, 2: 20})
    check(message_of(u.byValue, -1) == NEGATIVE, 'byValue negative')

    # --- no leaks on the failing conversions ------------------------------
    t = II.IIBTree([(i, i) for i in range(300)])
    u = UU.UUBucket([(i, i) for i in range(30)])
    for x in ('a' * 30, 2 ** 70, -2 ** 70, MyInt(2 ** 40), (1, 2)):
        n += 1
        for f in (lambda: outcome(t.__setitem__, x, 1),
                  lambda: outcome(t.__setitem__, 1, x),
                  lambda: outcome(u.__setitem__, x, 1),
                  lambda: outcome(u.__setitem__, 1, x),
                  lambda: outcome(t.get, x),
                  lambda: outcome(u.__contains__, x)):
            refcount_stable(('conv', type(x).__name__), f,
                            [x, TypeError, OverflowError, KeyError])
    check(sys.exc_info() == (None, None, None), 'exc_info')
    return n


if __name__ == '__main__':
    total = 0
    for fam in FAMILIES:
        for kind in ('BTree', 'Bucket'):
            total += run_mapping_history(fam, kind, True)
            total += run_mapping_history(fam, kind, False)
        for kind in ('TreeSet', 'Set'):
            total += run_set_history(fam, kind, True)
            total += run_set_history(fam, kind, False)
    total += c09s_specific()
    finish('C09s demo', total)
