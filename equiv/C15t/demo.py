"""Differential demo for refactoring t (C BTreeItems_seek).

Run as:  PYTHONPATH=<tree>/src /venv/bin/python demo.py

The lazy sequences returned by keys()/values()/items() of the C trees keep a
"search finger" (current leaf, offset in that leaf, index of that position)
and move it with BTreeItems_seek().  This program keeps, next to every real
sequence object, a plain-Python model of that finger which works on the very
same leaf objects (reached through tree._firstbucket / bucket._next) and
predicts, for every indexing / slicing / old-style iteration step, the exact
outcome:  the entry, IndexError(i), RuntimeError("the bucket being iterated
changed size") or the exception raised by the storage stand-in when a ghost
leaf cannot be loaded.  Steps are interleaved with inserts, deletes, emptying
of the leaf the finger is parked on, clear(), and with turning leaves into
ghosts.  At the end of every round the tree must pass _check() and hold
exactly the contents implied by the mutations.

Exits 0 when every outcome was as predicted.
"""
import random
import sys

import BTrees
from BTrees import OOBTree as OO_, IOBTree as IO_, IIBTree as II_
from BTrees import LFBTree as LF_, OLBTree as OL_, UUBTree as UU_
from BTrees import QOBTree as QO_, LLBTree as LL_

CHANGED_SIZE = "the bucket being iterated changed size"


class Boom(Exception):
    pass


class Jar:
    """Tiny stand-in for a ZODB connection: keeps states in a dict."""

    def __init__(self):
        self.states = {}
        self.fail = set()
        self.trace = []         # oids setstate() was called for, in order
        self.next_oid = 0

    def new_oid(self):
        self.next_oid += 1
        return b'%08d' % self.next_oid

    def setstate(self, obj):
        self.trace.append(obj._p_oid)
        if obj._p_oid in self.fail:
            raise Boom(obj._p_oid)
        obj.__setstate__(self.states[obj._p_oid])

    def register(self, obj):
        pass

    def readCurrent(self, obj):
        pass


def small(cls):
    return type(cls.__name__ + 'Small', (cls,),
                {'max_leaf_size': 4, 'max_internal_size': 3})


class Family:
    def __init__(self, mod, prefix, valkind, unsigned=False):
        self.mod = mod
        self.prefix = prefix
        self.BTree = small(getattr(mod, prefix + 'BTree'))
        self.TreeSet = small(getattr(mod, prefix + 'TreeSet'))
        self.valkind = valkind
        self.unsigned = unsigned

    def key(self, rnd):
        if self.unsigned:
            return rnd.randrange(0, 90)
        return rnd.randrange(-45, 45)

    def value(self, rnd, key):
        salt = rnd.randrange(5)
        if self.valkind == 'f':
            return float(key) * 2 + salt + 0.5
        if self.valkind == 'u':
            return abs(key) * 3 + salt
        if self.valkind == 'o':
            return ('v', key, salt)
        return key * 3 - salt


FAMILIES = [
    Family(OO_, 'OO', 'o'),
    Family(IO_, 'IO', 'o'),
    Family(II_, 'II', 'i'),
    Family(LF_, 'LF', 'f'),
    Family(OL_, 'OL', 'i'),
    Family(UU_, 'UU', 'u', unsigned=True),
    Family(QO_, 'QO', 'o', unsigned=True),
    Family(LL_, 'LL', 'i'),
]


# --------------------------------------------------------------------------
# Access to leaves that does not disturb them (a ghost stays a ghost).

class Leaves:
    def __init__(self, jar, is_set):
        self.jar = jar
        self.is_set = is_set
        self.begin()

    def begin(self):
        """Start predicting one operation."""
        self.trace = []         # the loads it is going to request, in order
        self.loaded = set()

    def ghost(self, b):
        return b._p_jar is not None and b._p_changed is None

    def use(self, b):
        """What PER_USE does, as far as the model cares."""
        if self.ghost(b) and id(b) not in self.loaded:
            self.trace.append(b._p_oid)
            if b._p_oid in self.jar.fail:
                COVER['ghost-fail'] += 1
                raise Boom(b._p_oid)
            COVER['ghost-load'] += 1
            self.loaded.add(id(b))

    def _saved(self, b):
        state = self.jar.states[b._p_oid]
        nxt = state[1] if len(state) > 1 else None
        return state[0], nxt

    def length(self, b):
        if self.ghost(b):
            data = self._saved(b)[0]
            return len(data) if self.is_set else len(data) // 2
        return len(b)

    def next(self, b):
        if self.ghost(b):
            return self._saved(b)[1]
        return b._next

    def entry(self, b, offset, kind):
        if self.ghost(b):
            data = self._saved(b)[0]
            if self.is_set:
                keys, values = list(data), None
            else:
                keys, values = list(data[0::2]), list(data[1::2])
        else:
            keys = list(b.keys())
            values = None if self.is_set else list(b.values())
        if kind == 'k':
            return keys[offset]
        if kind == 'v':
            return values[offset]
        return (keys[offset], values[offset])


# --------------------------------------------------------------------------
# The model: the BTreeItems struct and the specified behaviour of
# BTreeItems_seek / BTreeItems_length / subscript / slice.

COVER = {'no-finger': 0, 'right-in-leaf': 0, 'right-next-leaf': 0, 'right-off-end': 0,
         'left-in-leaf': 0, 'left-prev-leaf': 0, 'left-off-end': 0,
         'left-stranded': 0, 'stale-offset': 0, 'ghost-load': 0,
         'ghost-fail': 0, 'zero-delta': 0}


def c_int(i):
    i &= 0xffffffff
    return i - (1 << 32) if i >= (1 << 31) else i


class ModelItems:
    def __init__(self, leaves, kind, low, lowoff, high, highoff):
        self.leaves = leaves
        self.kind = kind
        self.first = lowoff
        self.last = highoff
        if low is None or high is None or (low is high and lowoff > highoff):
            self.firstbucket = self.lastbucket = self.currentbucket = None
        else:
            self.firstbucket = low
            self.lastbucket = high
            self.currentbucket = low
        self.currentoffset = lowoff
        self.pseudoindex = 0

    # BTreeItems_length_or_nonzero(self, 0)
    def length(self):
        L = self.leaves
        b = self.firstbucket
        if b is None:
            return 0
        r = self.last + 1 - self.first
        if b is self.lastbucket:
            return r
        L.use(b)
        while True:
            nxt = L.next(b)
            if nxt is None:
                break
            r += L.length(b)
            if nxt is self.lastbucket:
                break
            b = nxt
            L.use(b)
        return r if r >= 0 else 0

    def previous(self, current):
        L = self.leaves
        first = self.firstbucket
        if first is current:
            return None
        while True:
            trailing = first
            L.use(first)
            first = L.next(first)
            if first is current:
                return trailing
            if first is None:
                return None

    def seek(self, i):
        L = self.leaves
        pseudoindex = self.pseudoindex
        offset = self.currentoffset
        bucket = self.currentbucket
        if bucket is None:
            COVER['no-finger'] += 1
            raise IndexError(c_int(i))
        delta = c_int(i - pseudoindex)
        if delta == 0:
            COVER['zero-delta'] += 1
        while delta > 0:
            L.use(bucket)
            room = L.length(bucket) - offset - 1
            nxt = L.next(bucket)
            if delta <= room:
                offset += delta
                pseudoindex += delta
                if bucket is self.lastbucket and offset > self.last:
                    COVER['right-off-end'] += 1
                    raise IndexError(c_int(i))
                COVER['right-in-leaf'] += 1
                break
            if bucket is self.lastbucket or nxt is None:
                COVER['right-off-end'] += 1
                raise IndexError(c_int(i))
            COVER['right-next-leaf'] += 1
            bucket = nxt
            pseudoindex += room + 1
            delta -= room + 1
            offset = 0
        while delta < 0:
            if -delta <= offset:
                offset += delta
                pseudoindex += delta
                if bucket is self.firstbucket and offset < self.first:
                    COVER['left-off-end'] += 1
                    raise IndexError(c_int(i))
                COVER['left-in-leaf'] += 1
                break
            if bucket is self.firstbucket:
                COVER['left-off-end'] += 1
                raise IndexError(c_int(i))
            prev = self.previous(bucket)
            if prev is None:
                COVER['left-stranded'] += 1
                raise IndexError(c_int(i))
            COVER['left-prev-leaf'] += 1
            bucket = prev
            pseudoindex -= offset + 1
            delta += offset + 1
            L.use(bucket)
            offset = L.length(bucket) - 1
        L.use(bucket)
        if offset < 0 or offset >= L.length(bucket):
            COVER['stale-offset'] += 1
            raise RuntimeError(CHANGED_SIZE)
        self.currentbucket = bucket
        self.currentoffset = offset
        self.pseudoindex = pseudoindex

    def item(self, i):
        self.seek(i)
        self.leaves.use(self.currentbucket)
        return self.leaves.entry(self.currentbucket, self.currentoffset,
                                 self.kind)

    def subscript(self, i):
        n = self.length()
        if i < 0:
            i += n
        return self.item(i)

    def slice(self, lo, hi):
        n = self.length()
        ilow, ihigh, _ = slice(lo, hi).indices(n)
        if ihigh < ilow:
            ihigh = ilow
        if ilow == ihigh:
            return ModelItems(self.leaves, self.kind, None, 1, None, 0)
        ihigh -= 1
        self.seek(ilow)
        lowbucket, lowoffset = self.currentbucket, self.currentoffset
        self.seek(ihigh)
        return ModelItems(self.leaves, self.kind, lowbucket, lowoffset,
                          self.currentbucket, self.currentoffset)


def chain(tree):
    out = []
    b = tree._firstbucket
    while b is not None:
        out.append(b)
        b = b._next
    return out


def model_for_range(leaves, tree, kind, lo, hi):
    """Model of tree.keys(lo, hi) & co. for a tree without ghosts."""
    positions = []
    for b in chain(tree):
        for off, k in enumerate(b.keys()):
            positions.append((k, b, off))
    if lo is not None:
        positions = [p for p in positions if p[0] >= lo]
    if hi is not None:
        positions = [p for p in positions if p[0] <= hi]
    if not positions:
        return ModelItems(leaves, kind, None, 0, None, 0)
    _, low, lowoff = positions[0]
    _, high, highoff = positions[-1]
    return ModelItems(leaves, kind, low, lowoff, high, highoff)


# --------------------------------------------------------------------------

class Failure(Exception):
    pass


def outcome(fn):
    try:
        return ('ok', fn())
    except IndexError as e:
        return ('IndexError', e.args)
    except RuntimeError as e:
        return ('RuntimeError', e.args)
    except Boom as e:
        return ('Boom', e.args)
    except StopIteration:
        return ('StopIteration', ())


class Pair:
    """A real lazy sequence plus its model."""

    def __init__(self, real, model):
        self.real = real
        self.model = model
        self.real_iter = None
        self.iter_pos = None


class Round:
    def __init__(self, fam, is_set, seed):
        self.rnd = random.Random(seed)
        self.fam = fam
        self.is_set = is_set
        self.jar = Jar()
        self.leaves = Leaves(self.jar, is_set)
        self.tree = (fam.TreeSet if is_set else fam.BTree)()
        self.truth = {}
        self.pairs = []
        self.steps = 0
        self.seen = {'ok': 0, 'IndexError': 0, 'RuntimeError': 0, 'Boom': 0,
                     'StopIteration': 0}
        self.where = '%s %s seed=%r' % (fam.prefix,
                                        'TreeSet' if is_set else 'BTree',
                                        seed)

    # -- mutations ---------------------------------------------------------
    def insert(self, key=None):
        k = self.fam.key(self.rnd) if key is None else key
        if self.is_set:
            self.tree.add(k)
            self.truth[k] = None
        else:
            v = self.fam.value(self.rnd, k)
            self.tree[k] = v
            self.truth[k] = v

    def delete(self, k):
        if self.is_set:
            self.tree.remove(k)
        else:
            del self.tree[k]
        del self.truth[k]

    def delete_random(self):
        if self.truth:
            self.delete(self.rnd.choice(sorted(self.truth)))

    def pop_random(self):
        if not self.truth:
            return
        if self.is_set:
            k = self.tree.pop()
            if k != min(self.truth):
                raise Failure('%s: pop() gave %r' % (self.where, k))
            del self.truth[k]
        else:
            k = self.rnd.choice(sorted(self.truth))
            v = self.tree.pop(k)
            if v != self.truth[k]:
                raise Failure('%s: pop(%r) gave %r' % (self.where, k, v))
            del self.truth[k]

    def empty_parked_leaf(self):
        """Delete every key of the leaf some finger is parked on."""
        cands = [p.model.currentbucket for p in self.pairs
                 if p.model.currentbucket is not None]
        if not cands:
            return
        b = self.rnd.choice(cands)
        if self.leaves.ghost(b):
            return
        for k in list(b.keys()):
            if k in self.truth:
                self.delete(k)

    def clear(self):
        self.tree.clear()
        self.truth.clear()

    # -- persistence -------------------------------------------------------
    def commit_and_ghostify(self):
        jar = self.jar
        live = []       # a list: the order must not depend on addresses
        todo = list(chain(self.tree))
        for p in self.pairs:
            for b in (p.model.firstbucket, p.model.currentbucket,
                      p.model.lastbucket):
                if b is not None:
                    todo.append(b)
        # follow the chains hanging off leaves that left the tree, too
        seen = set()
        while todo:
            b = todo.pop()
            if id(b) in seen:
                continue
            seen.add(id(b))
            live.append(b)
            if not self.leaves.ghost(b) and b._next is not None:
                todo.append(b._next)
        for b in live:
            if self.leaves.ghost(b):
                continue
            if b._p_jar is None:
                b._p_jar = jar
                b._p_oid = jar.new_oid()
            jar.states[b._p_oid] = b.__getstate__()
            b._p_changed = False
        for b in live:
            if not self.leaves.ghost(b) and self.rnd.random() < 0.6:
                b._p_deactivate()
                if not self.leaves.ghost(b):
                    raise Failure('%s: could not ghostify' % self.where)

    def pick_failures(self):
        ghosts = set()
        for p in self.pairs:
            b = p.model.firstbucket
            n = 0
            while b is not None and n < 1000:
                if self.leaves.ghost(b):
                    ghosts.add(b._p_oid)
                if b is p.model.lastbucket:
                    break
                b = self.leaves.next(b)
                n += 1
        ghosts = sorted(ghosts)
        self.rnd.shuffle(ghosts)
        self.jar.fail = set(ghosts[:self.rnd.randrange(1, 3)])

    # -- sequence objects --------------------------------------------------
    def new_pair(self):
        kinds = ['k'] if self.is_set else ['k', 'v', 'i']
        kind = self.rnd.choice(kinds)
        meth = {'k': 'keys', 'v': 'values', 'i': 'items'}[kind]
        lo = hi = None
        if self.rnd.random() < 0.4:
            lo = self.fam.key(self.rnd)
        if self.rnd.random() < 0.4:
            hi = self.fam.key(self.rnd)
        if lo is not None and hi is not None and lo > hi \
                and self.rnd.random() < 0.8:
            lo, hi = hi, lo
        # ranges are computed on a tree without ghost leaves, so that
        # creating the sequence cannot fail half way
        for b in chain(self.tree):
            len(b)
        real = getattr(self.tree, meth)(lo, hi)
        if isinstance(real, tuple):      # not the case for the C trees
            raise Failure('%s: %s() returned a tuple' % (self.where, meth))
        model = model_for_range(self.leaves, self.tree, kind, lo, hi)
        self.pairs.append(Pair(real, model))
        if len(self.pairs) > 5:
            del self.pairs[self.rnd.randrange(len(self.pairs))]

    def some_index(self, p):
        """An index that is mostly, but not always, inside the sequence."""
        saved = self.jar.fail
        self.jar.fail = set()
        try:
            n = p.model.length()
        finally:
            self.jar.fail = saved
        x = self.rnd.random()
        if x < 0.08:
            return self.rnd.choice([n, n + 1, -n - 1, -n - 2, n + 7])
        if x < 0.16:
            # stay close to the finger
            return p.model.pseudoindex + self.rnd.randrange(-3, 4)
        if n == 0:
            return self.rnd.randrange(-2, 2)
        return self.rnd.randrange(-n, n)

    def step(self, what, model_fn, real_fn):
        """Predict one operation, perform it, compare outcome and loads."""
        self.leaves.begin()
        expected = outcome(model_fn)
        self.jar.trace = []
        got = outcome(real_fn)
        self.steps += 1
        self.seen[got[0]] += 1
        if expected != got:
            raise Failure('%s step %d: %s: expected %r, got %r'
                          % (self.where, self.steps, what, expected, got))
        if self.leaves.trace != self.jar.trace:
            raise Failure('%s step %d: %s: expected the leaves %r to be '
                          'loaded, but it was %r'
                          % (self.where, self.steps, what,
                             self.leaves.trace, self.jar.trace))
        return got

    def index_step(self, p, i):
        self.step('seq[%d]' % i,
                  lambda: p.model.subscript(i), lambda: p.real[i])

    def slice_step(self, p, lo, hi):
        holder = {}

        def model_slice():
            holder['m'] = p.model.slice(lo, hi)
            return None

        def real_slice():
            holder['r'] = p.real[lo:hi]
            return None

        got = self.step('seq[%r:%r]' % (lo, hi), model_slice, real_slice)
        if got[0] == 'ok':
            q = Pair(holder['r'], holder['m'])
            self.pairs.append(q)
            # a fresh slice must agree with its model right away
            self.step('len(slice)', q.model.length, lambda: len(q.real))

    def iter_step(self, p):
        """One step of the old-style (sq_item based) iteration."""
        if p.real_iter is None:
            p.real_iter = iter(p.real)
            p.iter_pos = 0
        if p.iter_pos is None:
            # finished: a sequence iterator stays exhausted
            def stop():
                raise StopIteration
            self.step('next(done)', stop, lambda: next(p.real_iter))
            return
        pos = p.iter_pos

        def model_next():
            try:
                v = p.model.item(pos)
            except IndexError:
                p.iter_pos = None
                raise StopIteration
            # (the sequence iterator does not advance on another error)
            p.iter_pos = pos + 1
            return v

        self.step('next(iter(seq)) at %d' % pos, model_next,
                  lambda: next(p.real_iter))

    # -- main loop ---------------------------------------------------------
    def run(self, nsteps):
        rnd = self.rnd
        for _ in range(rnd.randrange(0, 40)):
            self.insert()
        self.new_pair()
        for _ in range(nsteps):
            x = rnd.random()
            if not self.pairs:
                self.new_pair()
            p = rnd.choice(self.pairs)
            if p.model.currentbucket is None and rnd.random() < 0.8:
                # an empty sequence is dull: mostly pick another one
                p = rnd.choice(self.pairs)
                if p.model.currentbucket is None and rnd.random() < 0.5:
                    self.pairs.remove(p)
                    if len(self.truth) < 8:
                        for _ in range(12):
                            self.insert()
                    self.new_pair()
                    p = self.pairs[-1]
            if x < 0.40:
                self.index_step(p, self.some_index(p))
            elif x < 0.47:
                self.slice_step(p, rnd.choice([None, self.some_index(p)]),
                                rnd.choice([None, self.some_index(p)]))
                if len(self.pairs) > 5:
                    del self.pairs[rnd.randrange(len(self.pairs))]
            elif x < 0.57:
                self.iter_step(p)
            elif x < 0.67:
                self.insert()
            elif x < 0.77:
                self.delete_random()
            elif x < 0.80:
                self.pop_random()
            elif x < 0.84:
                self.empty_parked_leaf()
            elif x < 0.85:
                self.clear()
            elif x < 0.90:
                self.new_pair()
            elif x < 0.96:
                self.commit_and_ghostify()
            else:
                # a few steps during which some ghost leaves cannot be loaded
                self.commit_and_ghostify()
                self.pick_failures()
                try:
                    for _ in range(rnd.randrange(1, 5)):
                        q = rnd.choice(self.pairs)
                        y = rnd.random()
                        if y < 0.6:
                            self.index_step(q, self.some_index(q))
                        elif y < 0.8:
                            self.iter_step(q)
                        else:
                            self.slice_step(q, self.some_index(q),
                                            self.some_index(q))
                finally:
                    self.jar.fail = set()
            # (checking walks the whole tree, which loads every ghost leaf)
            if rnd.random() < 0.12:
                self.check_tree()
        self.check_tree()

    def check_tree(self):
        t = self.tree
        if len(t) != len(self.truth):
            raise Failure('%s: len %d != %d'
                          % (self.where, len(t), len(self.truth)))
        t._check()
        if self.is_set:
            if list(t) != sorted(self.truth):
                raise Failure('%s: contents differ' % self.where)
        else:
            if list(t.items()) != sorted(self.truth.items()):
                raise Failure('%s: contents differ' % self.where)


def fixed_scenarios():
    """Hand-written walks over every branch of the seek."""
    fam = FAMILIES[0]
    jar = Jar()
    leaves = Leaves(jar, False)
    t = fam.BTree()
    for i in range(30):
        t[i] = -i
    seq = t.keys()
    m = model_for_range(leaves, t, 'k', None, None)

    def both(i):
        e = outcome(lambda: m.subscript(i))
        g = outcome(lambda: seq[i])
        if e != g:
            raise Failure('fixed: seq[%d]: expected %r got %r' % (i, e, g))
        return g

    # right within a leaf, right across leaves, to the very end, past it
    for i in (0, 1, 2, 7, 29, 30, 31, 29, 28, 12, 13, 0, -1, -30, -31, 5):
        both(i)
    assert both(29) == ('ok', 29)
    assert both(30) == ('IndexError', (30,))
    assert both(-31) == ('IndexError', (-1,))
    # park on a leaf in the middle, then shrink that leaf below the offset
    assert both(9) == ('ok', 9)
    del t[9]
    assert both(9)[0] == 'RuntimeError', both(9)
    # the finger did not move: going left from it still works
    assert both(8) == ('ok', 8)
    # empty and unlink the parked leaf: the finger is stranded on a leaf
    # that is no longer part of the chain
    del t[8]
    assert both(8) == ('RuntimeError', (CHANGED_SIZE,))
    assert both(0) == ('IndexError', (0,))      # no way back to the left
    assert both(12) == ('ok', 14)               # but its _next still leads on
    assert both(0) == ('ok', 0)
    assert both(8) == ('ok', 10)
    # moving left over a leaf that was unlinked behind our back
    both(20)
    for k in (14, 15):
        del t[k]
    for i in (19, 14, 13, 12, 3, 25, 26, 2):
        both(i)
    # slices of slices
    s2 = seq[3:17]
    m2 = m.slice(3, 17)
    for i in (0, 13, 14, -14, -15, 5, 4, 12):
        e = outcome(lambda: m2.subscript(i))
        g = outcome(lambda: s2[i])
        if e != g:
            raise Failure('fixed: slice[%d]: expected %r got %r' % (i, e, g))
    t.clear()
    for i in (0, 5, -1, 2):
        both(i)
    # an empty sequence
    empty = t.keys()
    for i in (0, -1, 1):
        if outcome(lambda: empty[i]) != ('IndexError', (i,)):
            raise Failure('fixed: empty[%d]' % i)
    try:
        seq[::2]
    except RuntimeError as e:
        assert 'step size' in str(e)
    else:
        raise Failure('fixed: step slice accepted')
    t._check()


def set_operation_scenarios():
    """nextBTreeItems / nextTreeSetItems walk a tree by seeking 0, 1, 2..."""
    rnd = random.Random(20240915)
    for fam in FAMILIES:
        for _ in range(6):
            a = fam.BTree()
            b = fam.TreeSet()
            da = {}
            db = set()
            for _ in range(rnd.randrange(0, 40)):
                k = fam.key(rnd)
                v = fam.value(rnd, k)
                a[k] = v
                da[k] = v
            for _ in range(rnd.randrange(0, 40)):
                k = fam.key(rnd)
                b.add(k)
                db.add(k)
            u = fam.mod.union(a, b)
            if list(u) != sorted(set(da) | db):
                raise Failure('%s union' % fam.prefix)
            x = fam.mod.intersection(b, a)
            if list(x) != sorted(set(da) & db):
                raise Failure('%s intersection' % fam.prefix)
            d = fam.mod.difference(a, b)
            if list(d.items()) != sorted((k, v) for k, v in da.items()
                                         if k not in db):
                raise Failure('%s difference' % fam.prefix)
            if fam.valkind in 'iu' and da:
                lim = sorted(da.values())[len(da) // 2]
                got = a.byValue(lim)
                # byValue() normalizes: integer values are divided by a
                # positive minimum
                want = sorted(((v // lim if lim > 0 else v, k)
                               for k, v in da.items() if v >= lim),
                              reverse=True)
                if list(got) != want:
                    raise Failure('%s byValue' % fam.prefix)
            a._check()
            b._check()


def main():
    fixed_scenarios()
    set_operation_scenarios()
    total = {'ok': 0, 'IndexError': 0, 'RuntimeError': 0, 'Boom': 0,
             'StopIteration': 0}
    steps = 0
    seed = 0
    for fam in FAMILIES:
        for is_set in (False, True):
            for n in range(10):
                seed += 1
                r = Round(fam, is_set, 'C15-t-%d' % seed)
                r.run(400)
                steps += r.steps
                for k, v in r.seen.items():
                    total[k] += v
    for k in ('ok', 'IndexError', 'RuntimeError', 'Boom'):
        if total[k] < 50:
            raise Failure('outcome %s was hardly exercised: %r' % (k, total))
    for k, v in COVER.items():
        if v < 50:
            raise Failure('path %s was hardly exercised: %r' % (k, COVER))
    print('compared %d steps: %r' % (steps, total))
    print('paths of the seek taken (model): %r' % (COVER,))
    print('OK')


if __name__ == '__main__':
    try:
        main()
    except Failure as e:
        print('FAILED:', e)
        sys.exit(1)
