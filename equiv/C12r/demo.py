"""Equivalence demonstration for property C12 (weighted union / intersection).

Run as:  PYTHONPATH=<worktree>/src /venv/bin/python demo.py

Every result of ``weightedUnion`` / ``weightedIntersection`` (C and pure-Python
implementation, all 16 numeric-valued families, all 4x4 operand kinds, operands
from empty to multi-leaf, several weights) is compared with an independent
reference model written with plain dicts / sets (``model_union`` and
``model_intersection`` below).  In addition the script checks

* the class of the result container and its pickle state (``__getstate__``),
* the None short-circuits (identity of the returned operand, weight, type of
  the weight in the C implementation),
* reference counts: the result tuple is the only owner of the result, operands
  keep their reference count, object keys are referenced exactly once per
  result entry and are released again when the result dies,
* error paths: a key comparison raising in the middle of the merge loop
  (partial result must be released again), operands that cannot be iterated,
  bad weights, wrong argument counts,
* that operands stay unchanged (no persistence notification: ``_p_changed``
  stays false).

The script exits 0 when every check passes and 1 otherwise.
"""
import gc
import importlib
import sys

FAMILIES = ['IF', 'II', 'IU', 'LF', 'LL', 'LQ', 'OI', 'OL', 'OQ', 'OU',
            'QF', 'QL', 'QQ', 'UF', 'UI', 'UU']
KINDS = ['Set', 'TreeSet', 'Bucket', 'BTree']
MAPPINGS = ('Bucket', 'BTree')

failures = []
nchecks = 0


def check(cond, *what):
    global nchecks
    nchecks += 1
    if not cond:
        failures.append(what)
        if len(failures) <= 25:
            print('FAIL', *what)


# ---------------------------------------------------------------------------
# reference model: operands are either a dict (mapping) or a frozenset (set)
# ---------------------------------------------------------------------------

def _val(op, k):
    """value of key k in operand op under the documented conventions"""
    if isinstance(op, dict):
        return op[k]
    return 1            # a set member counts 1


def model_union(a, b, w1, w2):
    if a is None:
        if b is None:
            return 0, None
        return w2, b
    if b is None:
        return w1, a
    if not isinstance(a, dict) and not isinstance(b, dict):
        return 1, frozenset(a) | frozenset(b)
    res = {}
    for k in set(a) | set(b):
        v = 0
        if k in a:
            v = v + _val(a, k) * w1
        if k in b:
            v = v + _val(b, k) * w2
        res[k] = v
    return 1, res


def model_intersection(a, b, w1, w2):
    if a is None:
        if b is None:
            return 0, None
        return w2, b
    if b is None:
        return w1, a
    if not isinstance(a, dict) and not isinstance(b, dict):
        return w1 + w2, frozenset(a) & frozenset(b)
    res = {}
    for k in set(a) & set(b):
        res[k] = _val(a, k) * w1 + _val(b, k) * w2
    return 1, res


# ---------------------------------------------------------------------------
# operand construction
# ---------------------------------------------------------------------------

def value_for(fam, k, salt):
    if fam[1] == 'F':
        return 0.25 * ((k + salt) % 5) + 0.5        # exact in single precision
    return (k * 3 + salt) % 7 + 1


def make(mod, fam, kind, suffix, keys, salt):
    """-> (BTrees object, model operand)"""
    cls = getattr(mod, fam + kind + suffix)
    if kind in MAPPINGS:
        d = {k: value_for(fam, k, salt) for k in keys}
        return cls(d), d
    return cls(keys), frozenset(keys)


KEYSETS = {
    'empty': [],
    'one': [7],
    'few': [1, 3, 5, 7, 9, 20],
    'fewB': [0, 3, 4, 7, 30, 31, 32],
    'evens': list(range(0, 90, 2)),           # > MIN_BUCKET_ALLOC, grows
    'thirds': list(range(0, 140, 3)),
    'low': list(range(0, 40)),
    'high': list(range(35, 80)),
    'multi': list(range(0, 700, 2)),          # several leaves in a tree
    'multiB': list(range(1, 900, 3)),
}

PAIRS = [
    ('empty', 'empty'), ('empty', 'few'), ('few', 'empty'), ('one', 'one'),
    ('one', 'few'), ('few', 'fewB'), ('fewB', 'few'), ('few', 'few'),
    ('evens', 'thirds'), ('thirds', 'evens'), ('low', 'high'),
    ('high', 'low'), ('multi', 'multiB'), ('multiB', 'multi'),
    ('multi', 'one'), ('empty', 'multi'),
]


def weights_for(fam):
    v = fam[1]
    if v == 'F':
        return [(), (0.5,), (0.5, 2.0), (-1.5, 0.25), (2, 3)]
    if v in 'UQ':
        return [(), (4,), (2, 3), (0, 5)]
    return [(), (4,), (2, 3), (-1, 4), (0, 5)]


def weight_type_ok(fam, impl, w, given):
    """C converts the weight to the value type; Python hands it through."""
    if impl == 'C':
        return type(w) is (float if fam[1] == 'F' else int)
    return True


def compare_result(tag, mod, fam, suffix, got, expected):
    gw, gr = got
    ew, er = expected
    check(gw == ew, tag, 'weight', gw, ew)
    if isinstance(er, dict):
        cls = getattr(mod, fam + 'Bucket' + suffix)
        check(type(gr) is cls, tag, 'result class', type(gr))
        items = sorted(er.items())
        check(list(gr.items()) == items, tag, 'items', list(gr.items())[:8],
              items[:8])
        flat = tuple(x for kv in items for x in kv)
        state = gr.__getstate__()
        check(state == (flat,), tag, "state")
    else:
        cls = getattr(mod, fam + 'Set' + suffix)
        check(type(gr) is cls, tag, 'result class', type(gr))
        keys = sorted(er)
        check(list(gr.keys()) == keys, tag, 'keys')
        state = gr.__getstate__()
        check(state == (tuple(keys),), tag, "state")
    check(len(gr) == len(er), tag, 'len')


def run_matrix():
    for fam in FAMILIES:
        mod = importlib.import_module('BTrees.%sBTree' % fam)
        for impl, suffix in (('C', ''), ('Py', 'Py')):
            wu = getattr(mod, 'weightedUnion' + suffix)
            wi = getattr(mod, 'weightedIntersection' + suffix)
            if impl == 'C':
                check(type(wu).__name__ == 'builtin_function_or_method',
                      fam, 'C implementation is not in use')
            for n1, n2 in PAIRS:
                for k1 in KINDS:
                    for k2 in KINDS:
                        big = 'multi' in n1 or 'multi' in n2
                        if big and fam not in ('II', 'LF', 'OI', 'QQ', 'UF'):
                            continue
                        o1, m1 = make(mod, fam, k1, suffix, KEYSETS[n1], 0)
                        o2, m2 = make(mod, fam, k2, suffix, KEYSETS[n2], 3)
                        before1 = list(o1.items()) if k1 in MAPPINGS \
                            else list(o1.keys())
                        for ws in weights_for(fam):
                            w1 = ws[0] if len(ws) > 0 else 1
                            w2 = ws[1] if len(ws) > 1 else 1
                            tag = (fam, impl, k1, n1, k2, n2, ws)
                            got = wu(o1, o2, *ws)
                            compare_result(tag + ('union',), mod, fam, suffix,
                                           got, model_union(m1, m2, w1, w2))
                            check(weight_type_ok(fam, impl, got[0], ws), tag,
                                  'weight type', type(got[0]))
                            got = wi(o1, o2, *ws)
                            compare_result(tag + ('intersection',), mod, fam,
                                           suffix, got,
                                           model_intersection(m1, m2, w1, w2))
                            check(weight_type_ok(fam, impl, got[0], ws), tag,
                                  'weight type', type(got[0]))
                        after1 = list(o1.items()) if k1 in MAPPINGS \
                            else list(o1.keys())
                        check(before1 == after1, fam, impl, k1, n1,
                              'operand changed')
                        check(not o1._p_changed and not o2._p_changed,
                              fam, impl, 'operand marked changed')


# ---------------------------------------------------------------------------
# None short-circuits
# ---------------------------------------------------------------------------

def run_none():
    for fam in FAMILIES:
        mod = importlib.import_module('BTrees.%sBTree' % fam)
        isfloat = fam[1] == 'F'
        for impl, suffix in (('C', ''), ('Py', 'Py')):
            for opname in ('weightedUnion', 'weightedIntersection'):
                op = getattr(mod, opname + suffix)
                for kind in KINDS:
                    x, _ = make(mod, fam, kind, suffix, [1, 2, 3], 0)
                    tag = (fam, impl, opname, kind)
                    rc = sys.getrefcount(x)
                    r = op(None, None)
                    check(r == (0, None) and r[1] is None, tag, 'None,None')
                    r = op(None, None, 2, 3)
                    check(r == (0, None), tag, 'None,None,2,3')
                    if impl == 'C':
                        check(type(r[0]) is (float if isfloat else int), tag)
                    r = op(None, x)
                    check(r[0] == 1 and r[1] is x, tag, 'None,x')
                    r = op(x, None)
                    check(r[0] == 1 and r[1] is x, tag, 'x,None')
                    r = op(None, x, 2, 3)
                    check(r[0] == 3 and r[1] is x, tag, 'None,x,2,3')
                    if impl == 'C':
                        check(type(r[0]) is (float if isfloat else int), tag)
                    r = op(x, None, 2, 3)
                    check(r[0] == 2 and r[1] is x, tag, 'x,None,2,3')
                    r = op(x, None, 5)
                    check(r[0] == 5 and r[1] is x, tag, 'x,None,5')
                    r = op(None, x, 5)
                    check(r[0] == 1 and r[1] is x, tag, 'None,x,5')
                    check(type(r) is tuple and len(r) == 2, tag)
                    check(sys.getrefcount(r[1]) == rc + 1, tag, 'refcount held')
                    del r
                    check(sys.getrefcount(x) == rc, tag, 'refcount of operand',
                          sys.getrefcount(x), rc)
                    # None is neither a set nor a mapping: anything goes as
                    # the other operand, it is handed back untouched.
                    if impl == 'C':
                        marker = object()
                        r = op(None, marker, 2, 3)
                        check(r[0] == 3 and r[1] is marker, tag)
                        r = op(marker, None, 2, 3)
                        check(r[0] == 2 and r[1] is marker, tag)


# ---------------------------------------------------------------------------
# reference counts
# ---------------------------------------------------------------------------

class K:
    """an orderable object key; comparisons can be made to blow up"""
    bomb = None
    ncmp = 0

    def __init__(self, n):
        self.n = n

    def _tick(self):
        K.ncmp += 1
        if K.bomb is not None and K.ncmp >= K.bomb:
            raise RuntimeError('boom')

    def __lt__(self, other):
        self._tick()
        return self.n < other.n

    def __gt__(self, other):
        self._tick()
        return self.n > other.n

    def __le__(self, other):
        self._tick()
        return self.n <= other.n

    def __ge__(self, other):
        self._tick()
        return self.n >= other.n

    def __eq__(self, other):
        return isinstance(other, K) and self.n == other.n

    def __ne__(self, other):
        return not self == other

    def __hash__(self):
        return hash(self.n)

    def __repr__(self):
        return 'K(%d)' % self.n


def run_refcounts():
    keys = [K(i) for i in range(60)]
    for fam in ('OI', 'OL', 'OU', 'OQ'):
        mod = importlib.import_module('BTrees.%sBTree' % fam)
        for impl, suffix in (('C', ''), ('Py', 'Py')):
            for opname in ('weightedUnion', 'weightedIntersection'):
                op = getattr(mod, opname + suffix)
                for k1 in KINDS:
                    for k2 in KINDS:
                        tag = (fam, impl, opname, k1, k2)
                        ka = [k for k in keys if k.n % 2 == 0 or k.n > 50]
                        kb = [k for k in keys if k.n % 3 == 0 and k.n < 45]
                        o1, _ = make(mod, fam, k1, suffix, ka, 0) \
                            if k1 not in MAPPINGS else (
                            getattr(mod, fam + k1 + suffix)(
                                {k: k.n % 5 + 1 for k in ka}), None)
                        o2, _ = make(mod, fam, k2, suffix, kb, 0) \
                            if k2 not in MAPPINGS else (
                            getattr(mod, fam + k2 + suffix)(
                                {k: k.n % 4 + 1 for k in kb}), None)
                        gc.collect()
                        rc_keys = [sys.getrefcount(k) for k in keys]
                        rc1, rc2 = sys.getrefcount(o1), sys.getrefcount(o2)
                        pair = op(o1, o2, 2, 3)
                        check(sys.getrefcount(pair) == 2, tag, 'tuple rc')
                        w, res = pair
                        del pair
                        check(sys.getrefcount(res) == 2, tag, 'result rc',
                              sys.getrefcount(res))
                        check(sys.getrefcount(o1) == rc1
                              and sys.getrefcount(o2) == rc2, tag, 'operand rc')
                        inres = set(k.n for k in res.keys())
                        if opname == 'weightedUnion':
                            exp = set(k.n for k in ka) | set(k.n for k in kb)
                        else:
                            exp = set(k.n for k in ka) & set(k.n for k in kb)
                        check(inres == exp, tag, 'keys')
                        if impl == 'C':
                            # exactly one new reference per result entry
                            now = [sys.getrefcount(k) for k in keys]
                            want = [rc + (1 if k.n in exp else 0)
                                    for rc, k in zip(rc_keys, keys)]
                            check(now == want, tag, 'key refcounts')
                        # identity of the stored keys: taken from operand 1
                        # whenever the key is in operand 1 (mapping-first swap
                        # makes this the mapping operand for set+mapping)
                        del res, w
                        gc.collect()
                        now = [sys.getrefcount(k) for k in keys]
                        check(now == rc_keys, tag, 'key refcounts after release')


def run_error_paths():
    # 1. a comparison raising in the middle of the merge loop
    keys = [K(i) for i in range(40)]
    for fam in ('OI', 'OQ'):
        mod = importlib.import_module('BTrees.%sBTree' % fam)
        for impl, suffix in (('C', ''), ('Py', 'Py')):
            for opname in ('weightedUnion', 'weightedIntersection'):
                op = getattr(mod, opname + suffix)
                for k1 in KINDS:
                    for k2 in KINDS:
                        for bomb in (1, 2, 7, 19):
                            tag = (fam, impl, opname, k1, k2, bomb)
                            ka = [k for k in keys if k.n % 2 == 0]
                            kb = [k for k in keys if k.n % 3 == 0]
                            c1 = getattr(mod, fam + k1 + suffix)
                            c2 = getattr(mod, fam + k2 + suffix)
                            o1 = c1({k: 2 for k in ka}) if k1 in MAPPINGS \
                                else c1(ka)
                            o2 = c2({k: 3 for k in kb}) if k2 in MAPPINGS \
                                else c2(kb)
                            gc.collect()
                            rc_keys = [sys.getrefcount(k) for k in keys]
                            rc1 = sys.getrefcount(o1)
                            rc2 = sys.getrefcount(o2)
                            K.ncmp = 0
                            K.bomb = bomb
                            try:
                                op(o1, o2, 2, 3)
                            except RuntimeError as e:
                                raised = str(e) == 'boom'
                                del e
                            else:
                                raised = False
                            finally:
                                K.bomb = None
                            check(raised, tag, 'comparison error not propagated')
                            gc.collect()
                            now = [sys.getrefcount(k) for k in keys]
                            check(now == rc_keys, tag, 'keys leaked on error')
                            check(sys.getrefcount(o1) == rc1
                                  and sys.getrefcount(o2) == rc2, tag,
                                  'operand leaked on error')
                            # and the operation still works afterwards
                            w, res = op(o1, o2, 2, 3)
                            both_sets = (k1 not in MAPPINGS
                                         and k2 not in MAPPINGS)
                            check(w == (5 if both_sets and opname ==
                                        'weightedIntersection' else 1), tag)
                            del res

    # 2. argument errors (recorded expectations per implementation)
    import BTrees.IIBTree as ii
    import BTrees.IFBTree as if_
    import BTrees.OIBTree as oi
    cases = [
        # (callable, args, expected exception class or expected result)
        (ii.weightedUnion, ([1, 2], ii.IISet()), TypeError),
        (ii.weightedUnion, (ii.IISet(), [1, 2]), TypeError),
        (ii.weightedIntersection, ([1, 2], ii.IISet()), TypeError),
        (ii.weightedIntersection, (ii.IISet(), [1, 2]), TypeError),
        (ii.weightedUnion, (ii.IISet(), ii.IISet(), 'x'), TypeError),
        (ii.weightedIntersection, (ii.IISet(), ii.IISet(), 1, 'x'), TypeError),
        (ii.weightedUnion, (ii.IISet(),), TypeError),
        (ii.weightedIntersection, (ii.IISet(),), TypeError),
        (ii.weightedUnion, (ii.IISet(), ii.IISet(), 1, 2, 3), TypeError),
        (ii.weightedIntersection, (ii.IISet(), ii.IISet(), 1, 2, 3), TypeError),
        (ii.weightedUnion, (ii.IISet(), ii.IISet(), 1.5), TypeError),
        (ii.weightedUnion, (ii.IISet(), ii.IISet(), 2 ** 40), OverflowError),
        (oi.weightedUnion, (oi.OISet(), 5), TypeError),
        (oi.weightedIntersection, (oi.OISet(), 5), TypeError),
        (ii.weightedUnionPy, ([1, 2], ii.IISetPy()), TypeError),
        (ii.weightedIntersectionPy, ([1, 2], ii.IISetPy()), TypeError),
        (ii.weightedUnionPy, (ii.IISetPy(), ii.IISetPy(), 1, 2, 3), TypeError),
        (ii.weightedIntersectionPy, (ii.IISetPy(), ii.IISetPy(), 1, 2, 3),
         TypeError),
        (ii.weightedUnionPy, (ii.IISetPy(),), TypeError),
        (ii.weightedUnionPy, (5, ii.IISetPy()), TypeError),
        # C operands have no MERGE_DEFAULT attribute
        (ii.weightedUnionPy, (ii.IISet(), ii.IISet()), TypeError),
        (ii.weightedIntersectionPy, (ii.IISet(), ii.IISet()), TypeError),
        # an integer key is a one-element set for the C integer-key families
        (ii.weightedUnion, (ii.IISet([1, 5]), 5), (1, ('set', [1, 5]))),
        (ii.weightedUnion, (5, ii.IISet([1, 5])), (1, ('set', [1, 5]))),
        (ii.weightedUnion, (7, ii.IIBucket({1: 2}), 2, 3),
         (1, ('map', [(1, 6), (7, 2)]))),
        (ii.weightedUnion, (ii.IIBucket({1: 2}), 7, 2, 3),
         (1, ('map', [(1, 4), (7, 3)]))),
        (ii.weightedIntersection, (ii.IIBucket({5: 3}), 5, 2, 7),
         (1, ('map', [(5, 13)]))),
        (ii.weightedIntersection, (5, ii.IIBucket({5: 3}), 2, 7),
         (1, ('map', [(5, 23)]))),
        (ii.weightedIntersection, (5, 5, 2, 7), (9, ('set', [5]))),
        (ii.weightedIntersection, (5, 6, 2, 7), (9, ('set', []))),
        (if_.weightedIntersection, (5, 5, 0.5, 7), (7.5, ('set', [5]))),
        # pure Python: a plain iterable on the right is taken as a set
        (ii.weightedUnionPy, (ii.IISetPy([3]), [1, 2]),
         (1, ('set', [1, 2, 3]))),
        (ii.weightedUnionPy, (ii.IIBucketPy({2: 5}), [1, 2], 2, 3),
         (1, ('map', [(1, 3), (2, 13)]))),
        (ii.weightedIntersectionPy, (ii.IIBucketPy({2: 5}), [1, 2], 2, 3),
         (1, ('map', [(2, 13)]))),
        (ii.weightedIntersectionPy, (ii.IISetPy([2]), [1, 2], 2, 3),
         (5, ('set', [2]))),
        # pure Python: the weights are only touched where the formula needs
        # them (w1 + w2 for two sets in an intersection, never in a union of
        # two sets, never by the None short-circuits)
        (ii.weightedIntersectionPy,
         (ii.IISetPy([2]), ii.IISetPy([2, 3]), 'a', 'b'), ('ab', ('set', [2]))),
        (ii.weightedIntersectionPy,
         (ii.IISetPy([2]), ii.IISetPy([2, 3]), 'a', 1), TypeError),
        (ii.weightedUnionPy,
         (ii.IISetPy([2]), ii.IISetPy([2, 3]), 'a', None),
         (1, ('set', [2, 3]))),
        (ii.weightedUnionPy, (None, ii.IISetPy([2]), 'a', 'b'),
         ('b', ('set', [2]))),
        (ii.weightedIntersectionPy, (ii.IISetPy([2]), None, 'a', 'b'),
         ('a', ('set', [2]))),
        (ii.weightedIntersectionPy, (ii.IIBucketPy({2: 5}), ii.IISetPy([2]),
                                     'a', 1), TypeError),
        (ii.weightedUnionPy, (ii.IISetPy([2]), {1: 10, 2: 20}, 2, 3),
         (1, ('map', [(1, 30), (2, 62)]))),
        (ii.weightedIntersectionPy, (ii.IISetPy([2]), {1: 10, 2: 20}, 2, 3),
         (1, ('map', [(2, 62)]))),
    ]
    for func, args, expected in cases:
        tag = (getattr(func, '__name__', func), args)
        try:
            got = func(*args)
        except Exception as e:
            check(isinstance(expected, type) and type(e) is expected, tag,
                  'raised', type(e), e)
        else:
            if isinstance(expected, type):
                check(False, tag, 'did not raise', got)
                continue
            ew, (shape, content) = expected
            check(got[0] == ew and type(got[0]) is type(ew), tag, 'weight', got)
            if shape == 'set':
                check('Set' in type(got[1]).__name__
                      and list(got[1].keys()) == content, tag, got)
            else:
                check('Bucket' in type(got[1]).__name__
                      and list(got[1].items()) == content, tag, got)


def run_subclasses():
    # operands that are subclasses of the BTrees classes
    import BTrees.LFBTree as lf

    class MyTree(lf.LFBTree):
        pass

    class MySet(lf.LFTreeSet):
        pass

    class MyTreePy(lf.LFBTreePy):
        pass

    class MySetPy(lf.LFTreeSetPy):
        pass

    for wu, wi, T, S, B, St in (
            (lf.weightedUnion, lf.weightedIntersection, MyTree, MySet,
             lf.LFBucket, lf.LFSet),
            (lf.weightedUnionPy, lf.weightedIntersectionPy, MyTreePy, MySetPy,
             lf.LFBucketPy, lf.LFSetPy)):
        t = T({1: 0.5, 2: 1.5, 9: 2.0})
        s = S([2, 3])
        w, r = wu(s, t, 2, 4)
        check(w == 1 and type(r) is B
              and list(r.items()) == [(1, 2.0), (2, 8.0), (3, 2.0), (9, 8.0)],
              'subclass union', list(r.items()))
        w, r = wi(s, t, 2, 4)
        check(w == 1 and type(r) is B and list(r.items()) == [(2, 8.0)],
              'subclass intersection', list(r.items()))
        w, r = wi(s, s, 2, 4)
        check(w == 6 and type(r) is St and list(r.keys()) == [2, 3],
              'subclass set intersection')
        w, r = wu(s, s, 2, 4)
        check(w == 1 and type(r) is St and list(r.keys()) == [2, 3],
              'subclass set union')


def run_wide_weights():
    """weights that need the full width of the value type (no truncation
    through a narrower temporary), checked against the model"""
    cases = [
        ('LL', (2 ** 40, 2 ** 41)), ('LL', (-2 ** 62, 5)),
        ('OL', (2 ** 40, -2 ** 41)), ('QL', (2 ** 61, 2 ** 61)),
        ('QQ', (2 ** 63 + 5, 7)), ('LQ', (2 ** 63 + 5, 7)),
        ('OQ', (7, 2 ** 63 + 5)),
        ('UU', (2 ** 31 + 5, 9)), ('IU', (9, 2 ** 31 + 5)),
        ('OU', (2 ** 31, 2 ** 31 - 1)),
        ('II', (2 ** 31 - 1, -2 ** 31)), ('UI', (-2 ** 31, 2 ** 31 - 1)),
        ('OI', (2 ** 30, 2 ** 30 - 1)),
        ('IF', (2.0 ** 100, 2.0 ** 99)), ('LF', (-2.0 ** -100, 2.0 ** -100)),
        # exact in single precision, lost by any detour through an integer
        ('UF', (4194304.0, 0.5)), ('QF', (0.5, 4194303.0)),
    ]
    for fam, ws in cases:
        mod = importlib.import_module('BTrees.%sBTree' % fam)
        for impl, suffix in (('C', ''), ('Py', 'Py')):
            wu = getattr(mod, 'weightedUnion' + suffix)
            wi = getattr(mod, 'weightedIntersection' + suffix)
            for k1 in KINDS:
                for k2 in KINDS:
                    c1 = getattr(mod, fam + k1 + suffix)
                    c2 = getattr(mod, fam + k2 + suffix)
                    m1 = {1: 1, 2: 1} if k1 in MAPPINGS else frozenset([1, 2])
                    m2 = {2: 1, 3: 1} if k2 in MAPPINGS else frozenset([2, 3])
                    if k1 in MAPPINGS and k2 in MAPPINGS and (
                            fam[1] == 'I' or ws[0] == ws[1] == 2 ** 61):
                        # v1*w1 + v2*w2 must stay inside the value type
                        m2 = {3: 1, 4: 1}
                    o1, o2 = c1(m1), c2(m2)
                    tag = (fam, impl, k1, k2, ws, 'wide')
                    for op, model in ((wu, model_union),
                                      (wi, model_intersection)):
                        if (fam[1] == 'I' and model is model_intersection
                                and k1 not in MAPPINGS
                                and k2 not in MAPPINGS
                                and not -2 ** 31 <= ws[0] + ws[1] < 2 ** 31):
                            continue        # w1+w2 would overflow an int
                        got = op(o1, o2, *ws)
                        compare_result(tag + (op.__name__,), mod, fam, suffix,
                                       got, model(m1, m2, *ws))
                        check(weight_type_ok(fam, impl, got[0], ws), tag)
                        # None short-circuits carry the same weights
                        for a, b, ew, eo in ((None, o2, ws[1], o2),
                                             (o1, None, ws[0], o1),
                                             (None, None, 0, None)):
                            r = op(a, b, *ws)
                            check(r[0] == ew and r[1] is eo, tag, 'none', r)
                            check(weight_type_ok(fam, impl, r[0], ws), tag)


def main():
    run_matrix()
    run_wide_weights()
    run_none()
    run_refcounts()
    run_error_paths()
    run_subclasses()
    print('%d checks, %d failures' % (nchecks, len(failures)))
    return 1 if failures else 0


if __name__ == '__main__':
    sys.exit(main())
