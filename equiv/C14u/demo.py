"""Differential demo for refactoring u (C: set_operation / copyRemaining /
appendCurrent in SetOpTemplate.c).

Run as:  PYTHONPATH=<tree>/src /venv/bin/python demo.py

Exercises the C set algebra (union, intersection, difference, weightedUnion,
weightedIntersection and the operators | & -) over every kind of input the
set iteration protocol accepts (Set, Bucket, TreeSet, BTree with tiny nodes,
plain iterables, single integer keys), in several families, against a plain
dict model; injects a failure into the n-th key comparison of every
operation, and into the activation of a ghost leaf in the middle of an
operation; checks results, result types, that the inputs are untouched, and
that every key and value is back at its baseline reference count.

Exit status 0: everything behaved as specified.  A fingerprint of all
observations is printed so that two source trees can be compared by hand.
"""
import gc
import hashlib
import os
import itertools
import random
import sys

import BTrees.IFBTree as IF
import BTrees.IIBTree as II
import BTrees.LLBTree as LL
import BTrees.OIBTree as OI
import BTrees.OLBTree as OL
import BTrees.OOBTree as OO


assert OO.OOBTree is not OO.OOBTreePy, "the C extensions are required"

FINGERPRINT = hashlib.sha256()
# Recorded on the unmodified tree (and reproduced on the refactored one).  Set
# the environment variable C14_DEMO_SKIP_FINGERPRINT=1 to only run the
# model-based checks.
EXPECTED_FINGERPRINT = (
    '9b0104b1a67cf7d210123d1cae484629707c0fb1e30a97d049e00541d4d56eb7')
COUNTS = {}


def note(*parts):
    FINGERPRINT.update((' '.join(str(p) for p in parts) + '\n').encode())


def bump(name, by=1):
    COUNTS[name] = COUNTS.get(name, 0) + by


def check(cond, *msg):
    if not cond:
        print('FAILED:', *msg)
        sys.exit(1)


# ---------------------------------------------------------------------------
# fault injection


class Boom(Exception):
    pass


class Ctl:
    count = 0
    fail_at = None


def arm(n=None):
    Ctl.count = 0
    Ctl.fail_at = n


def tick():
    Ctl.count += 1
    if Ctl.count == Ctl.fail_at:
        raise Boom('comparison %d' % Ctl.count)


class K:
    """An object key whose every rich comparison is counted."""
    __slots__ = ('v',)

    def __init__(self, v):
        self.v = v

    def __lt__(self, other):
        tick()
        return self.v < other.v

    def __le__(self, other):
        tick()
        return self.v <= other.v

    def __gt__(self, other):
        tick()
        return self.v > other.v

    def __ge__(self, other):
        tick()
        return self.v >= other.v

    def __eq__(self, other):
        tick()
        return self.v == other.v

    def __ne__(self, other):
        tick()
        return self.v != other.v

    def __hash__(self):
        return hash(self.v)

    def __repr__(self):
        return 'K(%r)' % (self.v,)


class V:
    __slots__ = ('v',)

    def __init__(self, v):
        self.v = v

    def __repr__(self):
        return 'V(%r)' % (self.v,)


def unkey(k):
    return k.v if isinstance(k, K) else k


class Family:
    def __init__(self, mod, prefix, objkeys, valkind):
        self.mod = mod
        self.prefix = prefix
        self.objkeys = objkeys
        self.valkind = valkind     # 'obj', 'int', 'float'
        self.Set = getattr(mod, prefix + 'Set')
        self.Bucket = getattr(mod, prefix + 'Bucket')
        self.TreeSet = type('Small' + prefix + 'TreeSet',
                            (getattr(mod, prefix + 'TreeSet'),),
                            {'max_leaf_size': 2, 'max_internal_size': 2})
        self.BTree = type('Small' + prefix + 'BTree',
                          (getattr(mod, prefix + 'BTree'),),
                          {'max_leaf_size': 3, 'max_internal_size': 2})
        self.weighted = valkind != 'obj'


FAMILIES = {
    'OO': Family(OO, 'OO', True, 'obj'),
    'OI': Family(OI, 'OI', True, 'int'),
    'OL': Family(OL, 'OL', True, 'int'),
    'II': Family(II, 'II', False, 'int'),
    'LL': Family(LL, 'LL', False, 'int'),
    'IF': Family(IF, 'IF', False, 'float'),
}

KINDS_SETLIKE = ('Set', 'TreeSet', 'list')
KINDS_MAPPING = ('Bucket', 'BTree')


class Operand:
    """A container under test plus its model (a dict; value None for sets)."""

    def __init__(self, fam, kind, model, keyobjs, rnd):
        self.kind = kind
        self.model = dict(model)
        self.is_mapping = kind in KINDS_MAPPING
        keys = [keyobjs[i] for i in sorted(model)]
        if kind == 'Set':
            self.obj = fam.Set(keys)
        elif kind == 'TreeSet':
            self.obj = fam.TreeSet()
            order = keys[:]
            rnd.shuffle(order)
            for k in order:
                self.obj.add(k)
        elif kind == 'list':
            # unsorted, with duplicates: the C code sorts and squeezes it
            order = keys + keys[::3]
            rnd.shuffle(order)
            self.obj = order
        elif kind == 'Bucket':
            self.obj = fam.Bucket()
            for i in sorted(model):
                self.obj[keyobjs[i]] = model[i]
        elif kind == 'BTree':
            self.obj = fam.BTree()
            order = sorted(model)
            rnd.shuffle(order)
            for i in order:
                self.obj[keyobjs[i]] = model[i]
        else:
            raise AssertionError(kind)
        if not self.is_mapping:
            self.model = dict.fromkeys(model)

    def snapshot(self):
        if self.kind == 'list':
            return [id(k) for k in self.obj]
        if self.is_mapping:
            return [(id(k), v) for k, v in self.obj.items()]
        return [id(k) for k in self.obj.keys()]

    def check_intact(self, snap, what):
        check(self.snapshot() == snap, 'input changed by', what)
        if self.kind in ('TreeSet', 'BTree'):
            self.obj._check()


# ---------------------------------------------------------------------------
# the model of the five operations


def m_union(a, b):
    return 'Set', dict.fromkeys(set(a.model) | set(b.model))


def m_intersection(a, b):
    return 'Set', dict.fromkeys(set(a.model) & set(b.model))


def m_difference(a, b):
    keys = set(a.model) - set(b.model)
    if a.is_mapping:
        return 'Bucket', dict((k, a.model[k]) for k in keys)
    return 'Set', dict.fromkeys(keys)


def m_wunion(a, b, w1, w2):
    if not a.is_mapping and not b.is_mapping:
        return 1, 'Set', dict.fromkeys(set(a.model) | set(b.model))
    out = {}
    for k in set(a.model) | set(b.model):
        va = a.model.get(k) if a.is_mapping else 1
        vb = b.model.get(k) if b.is_mapping else 1
        if k in a.model and k in b.model:
            out[k] = va * w1 + vb * w2
        elif k in a.model:
            out[k] = va * w1
        else:
            out[k] = vb * w2
    return 1, 'Bucket', out


def m_wintersection(a, b, w1, w2):
    keys = set(a.model) & set(b.model)
    if not a.is_mapping and not b.is_mapping:
        return w1 + w2, 'Set', dict.fromkeys(keys)
    out = {}
    for k in keys:
        va = a.model[k] if a.is_mapping else 1
        vb = b.model[k] if b.is_mapping else 1
        out[k] = va * w1 + vb * w2
    return 1, 'Bucket', out


def verify(fam, result, kind, model, what):
    want_type = fam.Set if kind == 'Set' else fam.Bucket
    check(type(result) is want_type, 'result type', what, type(result))
    if kind == 'Set':
        got = [unkey(k) for k in result.keys()]
        check(got == sorted(model), 'result keys', what, got, sorted(model))
    else:
        got = [(unkey(k), v) for k, v in result.items()]
        want = sorted(model.items())
        check(len(got) == len(want), 'result size', what)
        for (gk, gv), (wk, wv) in zip(got, want):
            check(gk == wk, 'result key', what, gk, wk)
            if fam.valkind == 'obj':
                check(gv is wv, 'result value identity', what)
            elif fam.valkind == 'float':
                check(abs(gv - wv) <= 1e-3 * max(1.0, abs(wv)),
                      'result value', what, gv, wv)
            else:
                check(gv == wv, 'result value', what, gv, wv)
    check(len(result) == len(model), 'result len', what)
    # the result is a working container
    state = result.__getstate__()
    clone = want_type()
    if state is not None:
        clone.__setstate__(state)
    check(list(clone.keys()) == list(result.keys()), 'result state', what)


def operations(fam, a, b, rnd):
    """Yield (name, callable, model-callable) for one pair of operands."""
    mod = fam.mod
    yield 'union', (lambda: mod.union(a.obj, b.obj)), \
        (lambda: m_union(a, b))
    yield 'intersection', (lambda: mod.intersection(a.obj, b.obj)), \
        (lambda: m_intersection(a, b))
    if a.kind != 'list':
        yield 'difference', (lambda: mod.difference(a.obj, b.obj)), \
            (lambda: m_difference(a, b))
    if a.kind != 'list' and b.kind != 'list':
        yield 'or', (lambda: a.obj | b.obj), (lambda: m_union(a, b))
        yield 'and', (lambda: a.obj & b.obj), (lambda: m_intersection(a, b))
        yield 'sub', (lambda: a.obj - b.obj), (lambda: m_difference(a, b))
    if fam.weighted and a.kind != 'list' and b.kind != 'list':
        if fam.valkind == 'float':
            w1, w2 = rnd.choice([(1.0, 1.0), (0.5, 2.0), (-1.0, 3.0)])
        else:
            w1, w2 = rnd.choice([(1, 1), (2, 3), (-1, 0), (0, 5)])
        yield 'wunion%s%s' % (w1, w2), \
            (lambda: mod.weightedUnion(a.obj, b.obj, w1, w2)), \
            (lambda: m_wunion(a, b, w1, w2))
        yield 'wintersection%s%s' % (w1, w2), \
            (lambda: mod.weightedIntersection(a.obj, b.obj, w1, w2)), \
            (lambda: m_wintersection(a, b, w1, w2))
        yield 'wunion-default', \
            (lambda: mod.weightedUnion(a.obj, b.obj)), \
            (lambda: m_wunion(a, b, 1, 1))


def run_one(fam, name, call, model_call, a, b, inject):
    """One operation: fault-free first, then every failing comparison."""
    snap_a, snap_b = a.snapshot(), b.snapshot()
    arm()
    result = call()
    total = Ctl.count
    arm()
    expected = model_call()
    what = '%s %s(%s,%s)' % (fam.prefix, name, a.kind, b.kind)
    if len(expected) == 3:
        weight, kind, model = expected
        check(type(result) is tuple and len(result) == 2, 'weighted result')
        if fam.valkind == 'float':
            check(abs(result[0] - weight) < 1e-6, 'weight', what, result[0])
        else:
            check(result[0] == weight, 'weight', what, result[0], weight)
        result = result[1]
    else:
        kind, model = expected
    verify(fam, result, kind, model, what)
    a.check_intact(snap_a, what)
    b.check_intact(snap_b, what)
    note(what, sorted(a.model), sorted(b.model), total, kind,
         [unkey(k) for k in result.keys()],
         None if kind == 'Set' else [repr(v) for v in result.values()])
    del result
    bump('operations')
    if not inject:
        check(total == 0 or fam.objkeys, 'comparisons seen for C keys')
        return
    for nth in range(1, total + 1):
        arm(nth)
        try:
            call()
            raised = False
        except Boom:
            raised = True
        seen = Ctl.count
        arm()
        check(raised, 'comparison error swallowed', what, nth)
        check(seen == nth, 'work continued after the failure', what, nth)
        a.check_intact(snap_a, what)
        b.check_intact(snap_b, what)
        bump('injected comparison failures')
    # and it still works afterwards
    arm()
    again = call()
    check(Ctl.count == total, 'comparison count changed', what)
    arm()
    if isinstance(again, tuple):
        again = again[1]
    verify(fam, again, kind, model, what + ' (again)')


def make_models(rnd, span, valmaker):
    picks = []
    for size in (0, 1, 2, 5, 19, 40):
        keys = rnd.sample(range(span), min(size, span))
        picks.append(dict((k, valmaker(k)) for k in keys))
    # some structured ones: disjoint halves, identical, prefix/suffix
    lo = dict((k, valmaker(k)) for k in range(0, span // 2))
    hi = dict((k, valmaker(k)) for k in range(span // 2, span))
    picks.append(lo)
    picks.append(hi)
    return picks


def algebra(famname, seed, inject, span=44):
    fam = FAMILIES[famname]
    rnd = random.Random(seed)
    keyobjs = dict((i, K(i) if fam.objkeys else i) for i in range(span))
    if fam.valkind == 'obj':
        valobjs = dict((i, V(i)) for i in range(span))
        valmaker = valobjs.__getitem__
    elif fam.valkind == 'float':
        valobjs = {}
        valmaker = (lambda i: float(i % 7) + 0.5)
    else:
        valobjs = {}
        valmaker = (lambda i: (i * 37) % 11 - 3)
    gc.collect()
    tracked = ([k for k in keyobjs.values() if isinstance(k, K)]
               + list(valobjs.values()))
    baseline = [sys.getrefcount(o) for o in tracked]

    models = make_models(rnd, span, valmaker)
    kinds = KINDS_SETLIKE + KINDS_MAPPING
    pairs = 0
    for ma, mb in itertools.product(models, models):
        # every pair of contents, with kinds drawn at random; the small ones
        # get every pair of kinds
        if len(ma) <= 2 and len(mb) <= 5:
            kind_pairs = list(itertools.product(kinds, kinds))
        else:
            kind_pairs = [(rnd.choice(kinds), rnd.choice(kinds))
                          for _ in range(3)]
        for ka, kb in kind_pairs:
            a = Operand(fam, ka, ma, keyobjs, rnd)
            b = Operand(fam, kb, mb, keyobjs, rnd)
            for name, call, model_call in operations(fam, a, b, rnd):
                run_one(fam, name, call, model_call, a, b, inject)
            pairs += 1
            del a, b, call, model_call
    ma = mb = models = None
    gc.collect()
    after = [sys.getrefcount(o) for o in tracked]
    check(after == baseline, 'reference counts drifted', famname,
          [(o, x, y) for o, x, y in zip(tracked, baseline, after) if x != y])
    bump('operand pairs', pairs)


# ---------------------------------------------------------------------------
# argument errors and the key-as-a-set case


def argument_errors():
    s = OO.OOSet([K(1), K(2)])
    b = OO.OOBucket()
    b[K(1)] = V(1)
    arm()
    # a plain iterable cannot supply values
    for bad in ([K(1)], (K(3),), iter([K(1)])):
        try:
            OO.difference(bad, s)
            check(False, 'difference(list, set) accepted')
        except TypeError as e:
            note('argerr', str(e))
    # not iterable at all
    for bad in (5, object()):
        for f in (OO.union, OO.intersection):
            try:
                f(s, bad)
                check(False, 'non-iterable accepted')
            except TypeError as e:
                note('argerr', f.__name__, str(e))
    # unorderable elements in a plain iterable: the sort fails
    try:
        OO.union(s, [K(1), 'x', 3])
        check(False, 'unorderable accepted')
    except (TypeError, AttributeError) as e:
        note('argerr', type(e).__name__)
    # wrong key type inside a plain iterable for an integer family
    for bad in (['a'], [1, 'a'], [2 ** 70]):
        try:
            II.union(II.IISet([1]), bad)
            check(False, 'bad element accepted')
        except (TypeError, OverflowError) as e:
            note('argerr', type(e).__name__, str(e))
    # None short cuts
    check(OO.union(None, s) is s and OO.union(s, None) is s, 'None union')
    check(OO.intersection(None, s) is s, 'None intersection')
    check(OO.difference(s, None) is s and OO.difference(None, s) is None,
          'None difference')
    check(II.weightedUnion(None, None) == (0, None), 'None wunion')
    # a single integer key stands for a one-element set
    one = II.IISet([1, 5, 9])
    check(list(II.union(one, 5)) == [1, 5, 9], 'key as set: union')
    check(list(II.union(one, 6)) == [1, 5, 6, 9], 'key as set: union new')
    check(list(II.union(0, one)) == [0, 1, 5, 9], 'key as set: left')
    check(list(II.intersection(one, 5)) == [5], 'key as set: intersection')
    check(list(II.intersection(7, one)) == [], 'key as set: empty')
    check(list(II.difference(one, 9)) == [1, 5], 'key as set: difference')
    check(list(II.union(3, 4)) == [3, 4] and list(II.union(4, 4)) == [4],
          'two keys')
    m = II.IIBTree({1: 10, 5: 50})
    w, r = II.weightedUnion(m, 5, 2, 3)
    check(w == 1 and type(r) is II.IIBucket
          and list(r.items()) == [(1, 20), (5, 103)],
          'key as set: weighted union')
    w, r = II.weightedIntersection(m, 5, 2, 3)
    check(w == 1 and type(r) is II.IIBucket
          and list(r.items()) == [(5, 103)],
          'key as set: weighted intersection')
    bump('argument checks')


# ---------------------------------------------------------------------------
# a leaf that cannot be activated in the middle of an operation


class Jar:
    def __init__(self):
        self.saved = {}
        self.fail_oid = None
        self.loads = 0

    def register(self, obj):
        pass

    def setstate(self, obj):
        self.loads += 1
        if obj._p_oid == self.fail_oid:
            raise Boom('cannot load %r' % (obj._p_oid,))
        obj.__setstate__(self.saved[obj._p_oid])


def failing_activation():
    fam = FAMILIES['OO']
    keys = [K(i) for i in range(40)]
    vals = [V(i) for i in range(40)]
    gc.collect()
    baseline = [sys.getrefcount(o) for o in keys + vals]
    for treekind in ('TreeSet', 'BTree'):
        arm()
        if treekind == 'TreeSet':
            t = fam.TreeSet()
            for k in keys[::2]:
                t.add(k)
        else:
            t = fam.BTree()
            for k, v in list(zip(keys, vals))[::2]:
                t[k] = v
        jar = Jar()
        leaves = []
        leaf = t._firstbucket
        while leaf is not None:
            leaves.append(leaf)
            leaf = leaf._next
        for n, leaf in enumerate(leaves):
            leaf._p_jar = jar
            leaf._p_oid = b'leaf%d' % n
            jar.saved[leaf._p_oid] = leaf.__getstate__()
        other = fam.Set(keys[1::4] + keys[0::8])
        want_union = sorted(set(range(0, 40, 2)) | set(range(1, 40, 4)))
        for victim in range(len(leaves)):
            for side in (0, 1):
                for opname in ('union', 'intersection', 'difference'):
                    op = getattr(OO, opname)
                    for leaf in leaves:
                        leaf._p_deactivate()
                    check(all(leaf._p_state == -1 for leaf in leaves),
                          'leaves are not ghosts')
                    jar.fail_oid = b'leaf%d' % victim
                    args = (t, other) if side == 0 else (other, t)
                    try:
                        r = op(*args)
                        raised = False
                    except Boom:
                        raised = True
                    note('ghost', treekind, victim, side, opname, raised,
                         jar.loads)
                    # the tree can stop being read early (intersection and
                    # difference stop when the other side is exhausted)
                    if not raised:
                        check(leaves[victim]._p_state == -1,
                              'victim was loaded?')
                        del r
                    jar.fail_oid = None
                    got = op(*args)
                    if opname == 'union':
                        check([k.v for k in got.keys()] == want_union,
                              'union after a failed activation')
                    del got
                    t._check()
                    bump('failed activations', int(raised))
        del t, leaves, leaf, other, jar, args
        k = v = None
    gc.collect()
    after = [sys.getrefcount(o) for o in keys + vals]
    check(after == baseline, 'reference counts drifted (ghosts)',
          [(o, x, y) for o, x, y in zip(keys + vals, baseline, after)
           if x != y])


def main():
    algebra('OO', 1, True)
    algebra('OI', 2, True)
    algebra('OL', 3, True, span=30)
    algebra('II', 4, False)
    algebra('LL', 5, False, span=30)
    algebra('IF', 6, False, span=30)
    argument_errors()
    failing_activation()
    for name in sorted(COUNTS):
        print('%-40s %d' % (name, COUNTS[name]))
    digest = FINGERPRINT.hexdigest()
    print('fingerprint', digest)
    if digest != EXPECTED_FINGERPRINT and not os.environ.get(
            'C14_DEMO_SKIP_FINGERPRINT'):
        # Every assertion above held, but some observation (a tree shape, a
        # comparison count, an error message, a persistence flag ...) is not
        # what the unmodified code produces.
        print('FAILED: fingerprint differs from the recorded one',
              EXPECTED_FINGERPRINT)
        sys.exit(1)
    print('OK')


if __name__ == '__main__':
    main()
