"""Differential demo for refactoring t (BucketTemplate.c: Bucket_grow,
bucket_alloc_vectors, bucket_split).

Run as:  PYTHONPATH=<tree>/src /venv/bin/python demo.py

What is exercised
  * Bucket_grow from an empty bucket (size 0 -> MIN_BUCKET_ALLOC), repeated
    doubling, growth of key-only buckets (Set), growth after the bucket was
    emptied again (vectors released, size back to 0), growth with an explicit
    new size (multiunion -> bucket_append) and growth from the set-operation
    and conflict-merge code.
  * bucket_split for mapping and set leaves, at many leaf sizes, through
    BTree/TreeSet subclasses with small max_leaf_size / max_internal_size.
  * reference counts of object keys/values around growth and splits.
  * the allocation-failure unwind paths, best effort: a child process lowers
    RLIMIT_AS so that the big reallocs/mallocs done by Bucket_grow and
    bucket_split fail, and checks MemoryError + unchanged contents + the
    container remains usable.

Everything is compared with a plain dict / set model.  Exit status 0 means
behaviour is as specified.
"""
import gc
import os
import random
import subprocess
import sys

import BTrees  # noqa: F401

FAMILIES = ['OO', 'LL', 'IF', 'OI', 'LO', 'II', 'QQ', 'UF', 'OL', 'fs']


def mod(name):
    return __import__('BTrees.%sBTree' % name, fromlist=['x'])


def must_be_c(m, name):
    t = getattr(m, name + 'BTree')
    tpy = getattr(m, name + 'BTreePy')
    if t is tpy:
        print("C extension for %s is not in use" % name)
        sys.exit(1)


class Gen(object):
    """Key/value generators for one family."""

    def __init__(self, name, rnd):
        self.name = name
        self.rnd = rnd
        self.k, self.v = name[0], name[1]

    def key(self):
        r = self.rnd
        if self.name == 'fs':
            return bytes([r.randrange(97, 123), r.randrange(97, 123)])
        if self.k == 'O':
            if r.random() < 0.5:
                return r.randrange(-400, 400)
            return r.randrange(-400, 400) * 1.0 + 0.5
        if self.k in 'IL':
            return r.randrange(-500, 500)
        return r.randrange(0, 1000)

    def value(self):
        r = self.rnd
        if self.name == 'fs':
            return bytes([r.randrange(65, 91) for _ in range(6)])
        if self.v == 'O':
            return ('v', r.randrange(10 ** 6))
        if self.v in 'IL':
            return r.randrange(-10 ** 6, 10 ** 6)
        if self.v == 'F':
            return r.randrange(-4000, 4000) * 0.25
        return r.randrange(0, 10 ** 6)


def fail(msg):
    print("FAIL: " + msg)
    sys.exit(1)


def expect(cond, msg):
    if not cond:
        fail(msg)


def same_mapping(c, model, what):
    items = list(c.items())
    want = sorted(model.items())
    expect(items == want, "%s: items differ" % what)
    expect(len(c) == len(model), "%s: len differs" % what)
    expect(list(c.keys()) == [k for k, _ in want], "%s: keys differ" % what)
    expect(list(c.values()) == [v for _, v in want], "%s: values" % what)


def same_set(c, model, what):
    expect(list(c) == sorted(model), "%s: members differ" % what)
    expect(len(c) == len(model), "%s: len differs" % what)


def tree_check(t, what):
    t._check()


# ---------------------------------------------------------------------------
# 1. plain buckets and sets: Bucket_grow in all its modes

def bucket_workload(name, rnd):
    m = mod(name)
    g = Gen(name, rnd)
    B = getattr(m, name + 'Bucket')
    S = getattr(m, name + 'Set')
    for rounds in range(3):
        b, model = B(), {}
        s, smodel = S(), set()
        # phase A: grow from empty through several doublings
        for n in range(rnd.choice([15, 16, 17, 33, 70, 300])):
            k, v = g.key(), g.value()
            b[k] = v
            model[k] = v
            s.add(k)
            smodel.add(k)
            if n % 16 == 0:
                same_mapping(b, model, name + 'Bucket grow')
                same_set(s, smodel, name + 'Set grow')
        same_mapping(b, model, name + 'Bucket grown')
        same_set(s, smodel, name + 'Set grown')
        # phase B: empty them completely (vectors are released) ...
        for k in list(model):
            del b[k]
            del model[k]
            s.remove(k)
            smodel.discard(k)
        same_mapping(b, model, name + 'Bucket emptied')
        same_set(s, smodel, name + 'Set emptied')
        # ... and grow again from scratch, mixed with deletions
        for n in range(200):
            k = g.key()
            if rnd.random() < 0.3 and k in model:
                del b[k]
                del model[k]
                s.remove(k)
                smodel.discard(k)
            else:
                v = g.value()
                b[k] = v
                model[k] = v
                expect(s.add(k) == (0 if k in smodel else 1),
                       name + 'Set.add result')
                smodel.add(k)
        same_mapping(b, model, name + 'Bucket regrown')
        same_set(s, smodel, name + 'Set regrown')
        # state round trip (the pickled form) must describe the same thing
        b2 = B()
        b2.__setstate__(b.__getstate__())
        same_mapping(b2, model, name + 'Bucket state copy')
        s2 = S()
        s2.__setstate__(s.__getstate__())
        same_set(s2, smodel, name + 'Set state copy')
        # grow the copies too: their capacity is exactly their length
        for n in range(40):
            k, v = g.key(), g.value()
            b2[k] = v
            model[k] = v
            s2.add(k)
            smodel.add(k)
        same_mapping(b2, model, name + 'Bucket state copy grown')
        same_set(s2, smodel, name + 'Set state copy grown')
        # update()/setdefault()/pop() go through the same insertion code
        b3 = B()
        b3.update(model)
        same_mapping(b3, model, name + 'Bucket.update')
        k = g.key()
        v = g.value()
        expect(b3.setdefault(k, v) == model.setdefault(k, v), 'setdefault')
        k = g.key()
        expect(b3.pop(k, None) == model.pop(k, None), 'pop')
        same_mapping(b3, model, name + 'Bucket after setdefault/pop')


# ---------------------------------------------------------------------------
# 2. trees with tiny nodes: bucket_split for mappings and sets

def make_small(m, name, leaf, internal):
    T = type('Small%sBTree' % name, (getattr(m, name + 'BTree'),),
             {'max_leaf_size': leaf, 'max_internal_size': internal})
    TS = type('Small%sTreeSet' % name, (getattr(m, name + 'TreeSet'),),
              {'max_leaf_size': leaf, 'max_internal_size': internal})
    return T, TS


def leaf_sizes(t):
    sizes = []
    b = t._firstbucket
    while b is not None:
        sizes.append(len(b))
        b = b._next
    return sizes


def tree_workload(name, rnd):
    m = mod(name)
    g = Gen(name, rnd)
    for leaf, internal in [(2, 2), (3, 2), (4, 3), (5, 4), (8, 3), (17, 5)]:
        T, TS = make_small(m, name, leaf, internal)
        t, model = T(), {}
        ts, smodel = TS(), set()
        for n in range(350):
            k = g.key()
            r = rnd.random()
            if r < 0.25 and k in model:
                del t[k]
                del model[k]
                ts.remove(k)
                smodel.discard(k)
            else:
                v = g.value()
                t[k] = v
                model[k] = v
                ts.add(k)
                smodel.add(k)
            if n % 25 == 0:
                tree_check(t, name)
                tree_check(ts, name)
                same_mapping(t, model, '%s tree leaf=%d' % (name, leaf))
                same_set(ts, smodel, '%s treeset leaf=%d' % (name, leaf))
        tree_check(t, name)
        tree_check(ts, name)
        same_mapping(t, model, '%s tree leaf=%d' % (name, leaf))
        same_set(ts, smodel, '%s treeset leaf=%d' % (name, leaf))
        # leaf chain: every leaf within bounds, total is right
        for tree, total in ((t, len(model)), (ts, len(smodel))):
            sizes = leaf_sizes(tree)
            expect(sum(sizes) == total, 'leaf chain total')
            expect(all(0 < x <= leaf for x in sizes) or total == 0,
                   'leaf size bound %r' % (sizes,))
        # ascending insertion: every split happens in the last leaf, and the
        # shape is fully determined
        t2 = T()
        keys = sorted(model)
        for k in keys:
            t2[k] = model[k]
        tree_check(t2, name)
        same_mapping(t2, model, name + ' ascending')
        sizes = leaf_sizes(t2)
        expect(sizes == expected_ascending_leaves(len(keys), leaf),
               'ascending leaf sizes %r (leaf=%d n=%d)' % (sizes, leaf,
                                                           len(keys)))
        # state round trip of the whole tree
        t3 = T()
        t3.__setstate__(t.__getstate__())
        same_mapping(t3, model, name + ' tree state copy')


def expected_ascending_leaves(n, leaf):
    """Leaf sizes after inserting n ascending keys one at a time: a leaf
    that would exceed 'leaf' entries is split at its midpoint, the lower
    half keeps len//2 entries."""
    sizes = []
    cur = 0
    for _ in range(n):
        cur += 1
        if cur > leaf:
            low = cur // 2
            sizes.append(low)
            cur = cur - low
    if cur:
        sizes.append(cur)
    return sizes


# ---------------------------------------------------------------------------
# 3. callers that pass an explicit size or grow a result bucket

def setop_workload(name, rnd):
    m = mod(name)
    g = Gen(name, rnd)
    B = getattr(m, name + 'Bucket')
    S = getattr(m, name + 'Set')
    T, TS = make_small(m, name, 4, 3)
    for n1, n2 in [(0, 5), (1, 1), (16, 16), (17, 40), (100, 3), (64, 64)]:
        d1 = dict((g.key(), g.value()) for _ in range(n1))
        d2 = dict((g.key(), g.value()) for _ in range(n2))
        for mk1, mk2 in [(B, B), (S, S), (T, TS), (S, T)]:
            a = mk1(d1) if mk1 in (B, T) else mk1(list(d1))
            b = mk2(d2) if mk2 in (B, T) else mk2(list(d2))
            u = m.union(a, b)
            expect(list(u) == sorted(set(d1) | set(d2)), name + ' union')
            i = m.intersection(a, b)
            expect(list(i.keys()) == sorted(set(d1) & set(d2)),
                   name + ' intersection')
            d = m.difference(a, b)
            expect(list(d.keys()) == sorted(set(d1) - set(d2)),
                   name + ' difference')
            if mk1 in (B, T):
                expect(list(d.items()) ==
                       sorted((k, d1[k]) for k in set(d1) - set(d2)),
                       name + ' difference values')
            # results must themselves be growable
            for res in (u, i):
                if hasattr(res, 'add'):
                    k = g.key()
                    before = set(res)
                    res.add(k)
                    expect(list(res) == sorted(before | set([k])),
                           'grow result')
    if hasattr(m, 'multiunion'):
        for sizes in [(1,), (3, 0, 5), (16, 16), (17, 100, 1), (40,) * 6]:
            parts = []
            want = set()
            for j, n in enumerate(sizes):
                ks = [g.key() for _ in range(n)]
                want.update(ks)
                kind = j % 4
                if kind == 0:
                    parts.append(S(ks))
                elif kind == 1:
                    parts.append(B(dict((k, g.value()) for k in ks)))
                elif kind == 2:
                    parts.append(TS(ks))
                else:
                    parts.append(T(dict((k, g.value()) for k in ks)))
            r = m.multiunion(parts)
            expect(list(r) == sorted(want), name + ' multiunion')
            k = g.key()
            r.add(k)
            want.add(k)
            expect(list(r) == sorted(want), name + ' multiunion result grow')


# ---------------------------------------------------------------------------
# 4. reference counts around growth and splitting (object keys and values)

class K(object):
    __slots__ = ('n',)

    def __init__(self, n):
        self.n = n

    def __lt__(self, other):
        return self.n < other.n

    def __eq__(self, other):
        return self.n == other.n

    def __hash__(self):
        return hash(self.n)


def refcount_workload(rnd):
    m = mod('OO')
    T, TS = make_small(m, 'OO', 4, 3)
    keys = [K(i) for i in range(120)]
    vals = [object() for i in range(120)]
    gc.collect()
    base_k = [sys.getrefcount(k) for k in keys]
    base_v = [sys.getrefcount(v) for v in vals]

    order = list(range(120))
    rnd.shuffle(order)
    b = m.OOBucket()
    s = m.OOSet()
    for i in order:
        b[keys[i]] = vals[i]
        s.add(keys[i])
    # a bucket and a set own exactly one reference each
    expect([sys.getrefcount(k) for k in keys] == [x + 2 for x in base_k],
           'bucket/set key refcounts')
    expect([sys.getrefcount(v) for v in vals] == [x + 1 for x in base_v],
           'bucket value refcounts')
    del b, s
    expect([sys.getrefcount(k) for k in keys] == base_k, 'key refs released')
    expect([sys.getrefcount(v) for v in vals] == base_v, 'val refs released')

    t = T()
    ts = TS()
    for i in order:
        t[keys[i]] = vals[i]
        ts.add(keys[i])
    tree_check(t, 'OO')
    tree_check(ts, 'OO')
    # values live in exactly one leaf
    expect([sys.getrefcount(v) for v in vals] == [x + 1 for x in base_v],
           'tree value refcounts')
    # keys live in one leaf per tree, plus once per interior separator
    now_k = [sys.getrefcount(k) for k in keys]
    extra = [now_k[j] - base_k[j] for j in range(len(keys))]
    expect(all(e >= 2 for e in extra), 'tree key refcounts low')
    seps = count_separators(t) + count_separators(ts)
    expect(sum(extra) == 2 * len(keys) + seps,
           'tree key refcounts: %d != %d' % (sum(extra),
                                             2 * len(keys) + seps))
    del t, ts
    gc.collect()
    expect([sys.getrefcount(k) for k in keys] == base_k, 'tree key release')
    expect([sys.getrefcount(v) for v in vals] == base_v, 'tree val release')


def count_separators(t):
    state = t.__getstate__()
    if state is None:
        return 0
    items = state[0]
    n = 0
    for j, x in enumerate(items):
        if j % 2:
            n += 1
        elif isinstance(x, type(t)):
            n += count_separators(x)
    return n


# ---------------------------------------------------------------------------
# 5. allocation failures, best effort, in a child process

CHILD = r'''
import resource, sys
from BTrees.LLBTree import LLBucket, LLSet, LLBTree, LLTreeSet, multiunion, union

MB = 1 << 20

class Pairs(object):
    def __init__(self, n):
        self.n = n
    def items(self):
        return ((i, i + 1) for i in range(self.n))

def vmsize():
    with open('/proc/self/statm') as f:
        return int(f.read().split()[0]) * resource.getpagesize()

def limit(headroom):
    if headroom is None:
        resource.setrlimit(resource.RLIMIT_AS, (resource.RLIM_INFINITY, HARD))
    else:
        resource.setrlimit(resource.RLIMIT_AS, (vmsize() + headroom, HARD))

HARD = resource.getrlimit(resource.RLIMIT_AS)[1]
hits = 0

def sound(c, n, what):
    # contents are exactly 0..n-1 (mapping: k -> k+1)
    if len(c) != n:
        print("FAIL", what, "len", len(c), n); sys.exit(1)
    if n:
        ks = c.keys()
        if ks[0] != 0 or ks[n - 1] != n - 1 or ks[n // 2] != n // 2:
            print("FAIL", what, "keys"); sys.exit(1)
        if hasattr(c, 'items'):
            if c[0] != 1 or c[n - 1] != n or c[n // 3] != n // 3 + 1:
                print("FAIL", what, "values"); sys.exit(1)

# (a) growth by doubling of a mapping bucket and of a set, realloc fails
for headroom in (0, 3, 6, 12, 24):
    for kind in (LLBucket, LLSet):
        c = kind()
        n = 0
        N = 1 << 19          # capacity reaches 2**19 entries = 4 MB / vector
        if kind is LLBucket:
            c.update(Pairs(N))
        else:
            c.update(range(N))
        n = N
        sound(c, n, 'filled')
        limit(headroom * MB)
        try:
            try:
                if kind is LLBucket:
                    c[n] = n + 1        # capacity == len: must grow
                else:
                    c.add(n)
                n += 1
            except MemoryError:
                hits += 1
        finally:
            limit(None)
        sound(c, n, 'after failed growth' )
        # still usable: grows fine without the limit
        for j in range(3):
            if kind is LLBucket:
                c[n] = n + 1
            else:
                c.add(n)
            n += 1
        sound(c, n, 'after recovery')
        del c

# (b) split of a huge leaf: the two mallocs of bucket_split fail
class Wide(LLBTree):
    max_leaf_size = 1 << 19
class WideSet(LLTreeSet):
    max_leaf_size = 1 << 19

for headroom in (0, 1, 3, 5, 8):
    for kind in (Wide, WideSet):
        t = kind()
        N = 1 << 19
        if kind is Wide:
            t.update(Pairs(N))
        else:
            t.update(range(N))
        n = N
        sound(t, n, 'tree filled')
        limit(headroom * MB)
        try:
            try:
                if kind is Wide:
                    t[n] = n + 1      # leaf is full: insert, then split
                else:
                    t.add(n)
                n += 1
            except MemoryError:
                hits += 1
                # the entry may or may not have been added before the
                # failure; the container tells
                n = len(t)
                if n not in (N, N + 1):
                    print("FAIL split len", n); sys.exit(1)
        finally:
            limit(None)
        t._check()
        sound(t, n, 'after failed split')
        while n < N + 5:
            if kind is Wide:
                t[n] = n + 1
            else:
                t.add(n)
            n += 1
        t._check()
        sound(t, n, 'after split recovery')
        del t

# (c) first allocation of a result set with an explicit size (multiunion)
big = LLSet(range(1 << 19))
for headroom in (0, 2, 6):
    limit(headroom * MB)
    r = None
    try:
        try:
            r = multiunion([big])
        except MemoryError:
            hits += 1
    finally:
        limit(None)
    if r is not None:
        sound(r, 1 << 19, 'multiunion')
    sound(big, 1 << 19, 'multiunion input')
print("child ok, MemoryErrors seen:", hits)
'''


def fault_workload():
    env = dict(os.environ)
    p = subprocess.run([sys.executable, '-c', CHILD], env=env,
                       stdout=subprocess.PIPE, stderr=subprocess.STDOUT,
                       timeout=50)
    out = p.stdout.decode('utf-8', 'replace')
    sys.stdout.write(out)
    expect(p.returncode == 0, 'fault-injection child failed')
    expect('child ok' in out, 'fault-injection child did not finish')


def main():
    for name in FAMILIES:
        must_be_c(mod(name), name)
    rnd = random.Random(170017)
    for name in FAMILIES:
        bucket_workload(name, rnd)
        tree_workload(name, rnd)
        setop_workload(name, rnd)
    refcount_workload(rnd)
    if sys.platform.startswith('linux'):
        fault_workload()
    print("demo t: OK")


if __name__ == '__main__':
    main()
