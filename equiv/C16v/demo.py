"""Differential demo for refactoring v (BTreeItemsTemplate.c: the set-operation
cursors nextBTreeItems / nextTreeSetItems with their new helper
cursor_seek_failed, the iterator step BTreeIter_next, and getBucketEntry).

Run as:  PYTHONPATH=<tree>/src /venv/bin/python demo.py

Trees with tiny nodes are only *read* here: through the module-level set
operations (which walk trees with the cursors), byValue, multiunion, the
iterators (keys / values / items, ranges, exhaustion, mutation under the
iterator) and indexing / slicing of the lazy sequences.  Every result is
compared with a plain-Python model, and after every operation the reference
counts of all pooled key and value objects and of all buckets of the trees
must be back at what they were before.
"""
import gc
import hashlib
import operator
import random
import sys

import BTrees  # noqa: F401


def check(cond, *what):
    if not cond:
        raise AssertionError(what)


def module(name):
    return __import__('BTrees.%sBTree' % name, fromlist=['x'])


def family(name):
    mod = module(name)
    return (getattr(mod, name + 'Bucket'), getattr(mod, name + 'Set'),
            getattr(mod, name + 'BTree'), getattr(mod, name + 'TreeSet'))


FAMILIES = ['OO', 'OI', 'IO', 'II', 'LL', 'IF', 'LF', 'UU', 'QQ', 'OL']
for _n in FAMILIES:
    check(not family(_n)[2].__name__.endswith('Py'), 'C extension not in use')


class K(object):
    boom = False
    ncmp = 0
    __slots__ = ('n',)

    def __init__(self, n):
        self.n = n

    def _chk(self):
        K.ncmp += 1
        if K.boom:
            raise RuntimeError('comparison failed')

    def __lt__(self, other):
        self._chk()
        return self.n < other.n

    def __eq__(self, other):
        self._chk()
        return isinstance(other, K) and self.n == other.n

    def __hash__(self):
        return hash(self.n)

    def __repr__(self):
        return 'K(%d)' % self.n


class V(object):
    __slots__ = ('n',)

    def __init__(self, n):
        self.n = n

    def __lt__(self, other):
        return self.n < other.n

    def __eq__(self, other):
        return isinstance(other, V) and self.n == other.n

    def __hash__(self):
        return hash(self.n)

    def __repr__(self):
        return 'V(%d)' % self.n


NKEYS = 48
NVALS = 9
KPOOL = [K(i) for i in range(NKEYS)]
VPOOL = [V(i) for i in range(NVALS)]


def mk_key(letter, i):
    if letter == 'O':
        return KPOOL[i]
    if letter in 'UQ':
        return i * 3
    return i * 3 - 40


def mk_val(letter, j):
    if letter == 'O':
        return VPOOL[j]
    if letter == 'F':
        return j * 0.5 + 1.0
    return j * 4 + 1          # (positive, for the weighted operations)


def plain(x):
    """a picture of a result without references to pool objects"""
    if type(x) in (K, V):
        return ('#', x.n)
    if isinstance(x, (tuple, list)):
        return tuple(plain(y) for y in x)
    return x


def rc_snapshot(buckets):
    return ([sys.getrefcount(k) for k in KPOOL],
            [sys.getrefcount(v) for v in VPOOL],
            [sys.getrefcount(b) for b in buckets])


def expect_exc(exc, f, *a):
    try:
        f(*a)
    except exc as e:
        return e
    check(False, 'no exception', exc, f, a)


def chain(t):
    out = []
    b = t._firstbucket
    while b is not None:
        out.append(b)
        b = b._next
    return out


# ---------------------------------------------------------------------------
def build(fam, rng):
    """-> list of (container, model dict or set, kind)"""
    kl, vl = fam
    Bucket, Set, BTree, TreeSet = family(fam)

    class SmallTree(BTree):
        max_leaf_size = 3
        max_internal_size = 2

    class SmallTreeSet(TreeSet):
        max_leaf_size = 2
        max_internal_size = 3

    out = []
    for cls, mapping in ((SmallTree, True), (SmallTree, True),
                         (SmallTreeSet, False), (SmallTreeSet, False),
                         (SmallTree, True), (Bucket, True), (Set, False),
                         (SmallTree, True), (SmallTreeSet, False)):
        n = rng.choice([0, 1, 2, 5, 11, 20, 33])
        if len(out) in (4,):
            n = 0               # an empty tree takes part too
        idx = rng.sample(range(NKEYS), n)
        c = cls()
        if mapping:
            model = {}
            for i in idx:
                j = rng.randrange(NVALS)
                c[mk_key(kl, i)] = mk_val(vl, j)
                model[i] = j
        else:
            model = {}
            for i in idx:
                c.add(mk_key(kl, i))
                model[i] = None
        # churn a little so that the trees are not perfectly regular
        for i in rng.sample(sorted(model), len(model) // 3):
            if mapping:
                del c[mk_key(kl, i)]
            else:
                c.remove(mk_key(kl, i))
            del model[i]
        if hasattr(c, '_check'):
            c._check()
        out.append((c, model, mapping))
    return out


def run_family(fam, rng, nops):
    kl, vl = fam
    mod = module(fam)
    Bucket, Set, BTree, TreeSet = family(fam)
    conts = build(fam, rng)
    buckets = []
    for c, model, mapping in conts:
        if hasattr(c, '_firstbucket'):
            buckets.extend(chain(c))
    base = rc_snapshot(buckets)
    dig = hashlib.sha256()

    def settle(where):
        now = rc_snapshot(buckets)
        check(now[0] == base[0], 'key refcounts', where,
              [(i, a - b) for i, (a, b) in enumerate(zip(now[0], base[0]))
               if a != b])
        check(now[1] == base[1], 'value refcounts', where,
              [(i, a - b) for i, (a, b) in enumerate(zip(now[1], base[1]))
               if a != b])
        check(now[2] == base[2], 'bucket refcounts', where,
              [(i, a - b) for i, (a, b) in enumerate(zip(now[2], base[2]))
               if a != b])

    def keys_of(model):
        return sorted(model)

    def as_items(result):
        """result container -> [(key index, value picture)]"""
        if result is None:
            return None
        if hasattr(result, 'items'):
            return [(plain(k), plain(v)) for k, v in result.items()]
        return [(plain(k), None) for k in result.keys()]

    def kpic(i):
        return plain(mk_key(kl, i))

    def vpic(j):
        return plain(mk_val(vl, j))

    has_weighted = hasattr(mod, 'weightedUnion')
    has_multi = hasattr(mod, 'multiunion')
    opnames = ['union', 'intersection', 'difference', 'iter', 'iter',
               'index', 'byValue', 'or', 'and', 'sub', 'mutate_iter',
               'cmpfail', 'partial']
    if has_weighted:
        opnames += ['wunion', 'winter']
    if has_multi:
        opnames += ['multi']

    for step in range(nops):
        op = rng.choice(opnames)
        where = (fam, step, op)
        (c1, m1, map1) = rng.choice(conts)
        (c2, m2, map2) = rng.choice(conts)
        if op in ('union', 'or'):
            if op == 'or':
                if not hasattr(c1, '_firstbucket') and map1:
                    continue
                r = c1 | c2
            else:
                r = mod.union(c1, c2)
            got = as_items(r)
            exp = [(kpic(i), None) for i in sorted(set(m1) | set(m2))]
            check(got == exp, 'union', where, got, exp)
            check(not hasattr(r, 'values') or not hasattr(r, 'items'),
                  'union gives a set', where)
            del r, got, exp
        elif op in ('intersection', 'and'):
            if op == 'and':
                r = c1 & c2
            else:
                r = mod.intersection(c1, c2)
            got = as_items(r)
            exp = [(kpic(i), None) for i in sorted(set(m1) & set(m2))]
            check(got == exp, 'intersection', where, got, exp)
            del r, got, exp
        elif op in ('difference', 'sub'):
            if op == 'sub':
                r = c1 - c2
            else:
                r = mod.difference(c1, c2)
            got = as_items(r)
            if map1:
                exp = [(kpic(i), vpic(m1[i])) for i in sorted(m1)
                       if i not in m2]
            else:
                exp = [(kpic(i), None) for i in sorted(m1) if i not in m2]
            check(got == exp, 'difference', where, got, exp)
            del r, got, exp
        elif op in ('wunion', 'winter'):
            w1 = rng.choice([1, 2, 3])
            w2 = rng.choice([1, 5])
            f = mod.weightedUnion if op == 'wunion' else \
                mod.weightedIntersection
            try:
                w, r = f(c1, c2, w1, w2)
            except TypeError as e:
                # (sets and mappings cannot always be mixed)
                dig.update(('TypeError:%s' % e).encode())
                del e
                settle(where + ('TypeError',))
                continue
            got = as_items(r)
            dig.update(repr((w, got)).encode())
            v1 = lambda i: (mk_val(vl, m1[i]) if map1 else 1)   # noqa: E731
            v2 = lambda i: (mk_val(vl, m2[i]) if map2 else 1)   # noqa: E731
            if map1 or map2 or op == 'wunion':
                if op == 'wunion':
                    ks = sorted(set(m1) | set(m2))
                else:
                    ks = sorted(set(m1) & set(m2))
                if not (map1 or map2):
                    exp = [(kpic(i), None) for i in ks]
                else:
                    exp = []
                    for i in ks:
                        if i in m1 and i in m2:
                            x = v1(i) * w1 + v2(i) * w2
                        elif i in m1:
                            x = v1(i) * w1
                        else:
                            x = v2(i) * w2
                        exp.append((kpic(i), x))
                check(got == exp, op, where, got, exp)
                del exp
            del r, got, w
        elif op == 'multi':
            args = [rng.choice(conts)[0] for _ in range(rng.randrange(0, 5))]
            exp = set()
            for a in args:
                for (c, m, _) in conts:
                    if c is a:
                        exp |= set(m)
            if rng.random() < 0.3:
                extra = rng.randrange(NKEYS)
                args.append(mk_key(kl, extra))
                exp.add(extra)
            r = mod.multiunion(args)
            got = list(r.keys())
            check(got == [mk_key(kl, i) for i in sorted(exp)], 'multiunion',
                  where, got)
            del r, got, args
        elif op == 'byValue':
            if not (map1 and hasattr(c1, '_firstbucket')):
                continue
            jmin = rng.randrange(NVALS)
            vmin = mk_val(vl, jmin)
            r = c1.byValue(vmin)
            if vl == 'O':
                exp = sorted((mk_val(vl, m1[i]), mk_key(kl, i)) for i in m1
                             if m1[i] >= jmin)
                exp.reverse()
                check(len(r) == len(exp), 'byValue len', where)
                gv = gk = ev = ek = None
                for (gv, gk), (ev, ek) in zip(r, exp):
                    check(gv is ev and (gk is ek if kl == 'O' else gk == ek),
                          'byValue', where)
                del gv, gk, ev, ek
                del exp
            else:
                dig.update(repr(plain(r)).encode())
                if vl != 'F':
                    # the values come back divided by the minimum
                    exp = sorted(((mk_val(vl, m1[i]) // vmin, i)
                                  for i in m1 if m1[i] >= jmin),
                                 reverse=True)
                    check([(v, plain(k)) for v, k in r] ==
                          [(v, kpic(i)) for v, i in exp], 'byValue', where,
                          r)
                    del exp
            del r, vmin
            # an unusable minimum is refused before anything is walked
            if vl != 'O':
                e = expect_exc(TypeError, c1.byValue, 'x')
                del e
        elif op == 'iter':
            if not hasattr(c1, '_firstbucket'):
                continue
            ks = keys_of(m1)
            lo = rng.choice([None] + list(range(NKEYS)))
            hi = rng.choice([None] + list(range(NKEYS)))
            exmin = rng.random() < 0.3
            exmax = rng.random() < 0.3
            kw = {}
            if lo is not None:
                kw['min'] = mk_key(kl, lo)
            if hi is not None:
                kw['max'] = mk_key(kl, hi)
            if exmin:
                kw['excludemin'] = True
            if exmax:
                kw['excludemax'] = True
            # (with no bound given, "exclude" drops the end key itself)
            sel = [i for i in ks
                   if (i != ks[0] if lo is None and exmin else
                       lo is None or (i > lo if exmin else i >= lo))
                   and (i != ks[-1] if hi is None and exmax else
                        hi is None or (i < hi if exmax else i <= hi))]
            got = [plain(k) for k in c1.keys(**kw)]
            check(got == [kpic(i) for i in sel], 'keys range', where, kw)
            got = [plain(k) for k in c1.iterkeys(**kw)] if map1 else got
            check(got == [kpic(i) for i in sel], 'iterkeys range', where, kw)
            if map1:
                got = [plain(v) for v in c1.values(**kw)]
                check(got == [vpic(m1[i]) for i in sel], 'values', where)
                got = [plain(x) for x in c1.iteritems(**kw)]
                check(got == [(kpic(i), vpic(m1[i])) for i in sel], 'items',
                      where)
                got = [plain(x) for x in c1.items(**kw)]
                check(got == [(kpic(i), vpic(m1[i])) for i in sel], 'items',
                      where)
                for x in c1.items(**kw):
                    check(type(x) is tuple and len(x) == 2, 'pair', where)
                x = None
                del x
            del got, kw
            # exhaustion is sticky
            it = iter(c1)
            n = sum(1 for _ in it)
            check(n == len(ks), 'count', where)
            for _ in range(3):
                e = expect_exc(StopIteration, next, it)
                del e
            del it
            check([plain(k) for k in c1] == [kpic(i) for i in ks], '__iter__',
                  where)
        elif op == 'partial':
            # iterators and cursors given up half way
            # (real iterators, and the sequence protocol on the lazy
            # sequences; buckets and sets have real iterators too)
            if not m1:
                continue
            its = []
            makers = [lambda: iter(c1)]
            if map1:
                makers += [c1.iterkeys, c1.itervalues, c1.iteritems]
            if hasattr(c1, '_firstbucket'):
                makers.append(lambda: iter(c1.keys()))
                if map1:
                    makers += [lambda: iter(c1.values()),
                               lambda: iter(c1.items())]
            for mk in makers:
                it = mk()
                for _ in range(rng.randrange(0, len(m1) + 1)):
                    next(it)
                its.append(it)
            del makers, mk
            rng.shuffle(its)
            del it
            while its:
                its.pop()
            del its
        elif op == 'index':
            if not hasattr(c1, '_firstbucket'):
                continue
            ks = keys_of(m1)
            seq = c1.items() if map1 else c1.keys()
            kseq = c1.keys()
            check(len(seq) == len(ks), 'len(items)', where)
            for _ in range(12):
                n = rng.randrange(-len(ks) - 3, len(ks) + 3)
                if -len(ks) <= n < len(ks):
                    got = plain(seq[n])
                    exp = ((kpic(ks[n]), vpic(m1[ks[n]])) if map1
                           else kpic(ks[n]))
                    check(got == exp, 'index', where, n, got, exp)
                    check(plain(kseq[n]) == kpic(ks[n]), 'key index', where)
                else:
                    e = expect_exc(IndexError, operator.getitem, seq, n)
                    del e
            a = rng.randrange(-len(ks) - 2, len(ks) + 3)
            b = rng.randrange(-len(ks) - 2, len(ks) + 3)
            sl = seq[a:b]
            got = [plain(x) for x in sl]
            exp = [((kpic(i), vpic(m1[i])) if map1 else kpic(i))
                   for i in ks[a:b]]
            check(got == exp, 'slice', where, a, b, got, exp)
            x = None
            del sl, seq, kseq, got, exp, x
        elif op == 'mutate_iter':
            # the bucket under a running iterator changes size: RuntimeError,
            # and it stays that way;  the tree is put back as it was
            if not (hasattr(c1, '_firstbucket') and len(m1) >= 2):
                continue
            ks = keys_of(m1)
            it = c1.iteritems() if map1 else iter(c1)
            first = next(it)
            del first
            # take out everything that is left in the first bucket
            b0 = c1._firstbucket
            victims = [k for k in b0.keys()][1:]
            saved = []
            for k in victims:
                if map1:
                    saved.append((k, c1[k]))
                    del c1[k]
                else:
                    saved.append((k, None))
                    c1.remove(k)
            outcome = []
            for _ in range(3):
                try:
                    outcome.append(plain(next(it)))
                except RuntimeError as e:
                    outcome.append(str(e))
                    del e
                except StopIteration:
                    outcome.append('stop')
            dig.update(repr(outcome).encode())
            if victims:
                check(outcome[0] == 'the bucket being iterated changed size'
                      and outcome[1] == outcome[0]
                      and outcome[2] == outcome[0], 'sticky error', where,
                      outcome)
            del it, b0
            k = None
            for k, v in saved:
                if map1:
                    c1[k] = v
                else:
                    c1.add(k)
            del saved, victims, k
            v = None
            del v
            # the node structure may have changed: take new bearings
            buckets[:] = []
            for c, model, mapping in conts:
                if hasattr(c, '_firstbucket'):
                    buckets.extend(chain(c))
            c = None
            del c
            base = rc_snapshot(buckets)
            continue
        elif op == 'cmpfail':
            # a comparison fails in the middle of a merge: the cursors are
            # finished properly whatever position they are at
            if kl != 'O' or not m1 or not m2:
                continue
            for f in (mod.union, mod.intersection, mod.difference):
                for after in (0, 1, 3, 7):
                    start = K.ncmp

                    def trip(self, start=start, after=after):
                        K.ncmp += 1
                        if K.ncmp - start > after:
                            raise RuntimeError('comparison failed')

                    normal = K._chk
                    K._chk = trip
                    try:
                        try:
                            r = f(c1, c2)
                            outcome = 'ok'
                            del r
                        except RuntimeError as e:
                            outcome = 'failed'
                            del e
                    finally:
                        K._chk = normal
                    dig.update(outcome.encode())
                    settle(where + (f.__name__, after))
        settle(where)
    # all containers go: nothing is left
    del conts[:]
    del buckets[:]
    c1 = c2 = m1 = m2 = None
    gc.collect()
    now = rc_snapshot([])
    return dig.hexdigest(), now


# ---------------------------------------------------------------------------
# ghosts: a bucket that cannot be loaded in the middle of a walk
# ---------------------------------------------------------------------------
class Jar(object):
    def __init__(self):
        self.states = {}
        self.loads = 0
        self.fail_at = None

    def register(self, obj):
        pass

    def readCurrent(self, obj):
        pass

    def setstate(self, obj):
        self.loads += 1
        if self.fail_at is not None and self.loads >= self.fail_at:
            raise RuntimeError('cannot load %r' % (obj._p_oid,))
        obj.__setstate__(self.states[obj._p_oid])


def persist(t, jar, prefix):
    """give every node of t an oid, remember its state, -> list of nodes"""
    nodes = []

    def visit(node):
        nodes.append(node)
        st = node.__getstate__()
        if hasattr(node, '_firstbucket') and st is not None:
            data = st[0]
            if len(data) == 1 and isinstance(data[0], tuple):
                # a single bucket that has no oid yet is shown inlined;
                # it is the node's first bucket
                visit(node._firstbucket)
            else:
                for x in data[0::2]:
                    visit(x)
    visit(t)
    for n, node in enumerate(nodes):
        node._p_jar = jar
        node._p_oid = prefix + bytes([n // 256, n % 256])
    for node in nodes:
        jar.states[node._p_oid] = node.__getstate__()
    return nodes


def ghostify(nodes):
    for node in nodes:
        if node._p_changed:
            node._p_changed = False
        node._p_deactivate()
    for node in nodes:
        check(node._p_changed is None, 'not a ghost', node._p_oid)


def run_ghosts(fam, rng):
    kl, vl = fam
    mod = module(fam)
    Bucket, Set, BTree, TreeSet = family(fam)

    class SmallTree(BTree):
        max_leaf_size = 2
        max_internal_size = 2

    class SmallTreeSet(TreeSet):
        max_leaf_size = 2
        max_internal_size = 2

    jar = Jar()
    t1 = SmallTree()
    t2 = SmallTreeSet()
    m1, m2 = {}, {}
    for i in rng.sample(range(NKEYS), 17):
        j = rng.randrange(NVALS)
        t1[mk_key(kl, i)] = mk_val(vl, j)
        m1[i] = j
    for i in rng.sample(range(NKEYS), 14):
        t2.add(mk_key(kl, i))
        m2[i] = None
    n1 = persist(t1, jar, b'\0' * 5 + b'\1')
    n2 = persist(t2, jar, b'\0' * 5 + b'\2')
    ghostify(n1 + n2)
    gc.collect()
    base = rc_snapshot([])
    dig = hashlib.sha256()

    def settle(where):
        ghostify(n1 + n2)
        gc.collect()
        now = rc_snapshot([])
        check(now == base, 'refcounts with everything a ghost again', where,
              [(i, a - b) for i, (a, b) in enumerate(zip(now[0], base[0]))
               if a != b],
              [(i, a - b) for i, (a, b) in enumerate(zip(now[1], base[1]))
               if a != b])

    # first everything loads fine
    jar.loads = 0
    r = mod.union(t1, t2)
    check([plain(k) for k in r.keys()] ==
          [plain(mk_key(kl, i)) for i in sorted(set(m1) | set(m2))],
          'ghost union')
    total_loads = jar.loads
    del r
    settle((fam, 'ghost', 'union'))
    check(total_loads >= 10, 'loads', total_loads)

    ops = [
        ('union', lambda: mod.union(t1, t2)),
        ('intersection', lambda: mod.intersection(t1, t2)),
        ('difference', lambda: mod.difference(t1, t2)),
        ('difference2', lambda: mod.difference(t2, t1)),
        ('byValue', lambda: t1.byValue(mk_val(vl, 0))),
        ('items', lambda: list(t1.items())),
        ('iteritems', lambda: list(t1.iteritems())),
        ('keys', lambda: list(t2.keys())),
        ('index', lambda: [t1.items()[n] for n in (0, 5, -1, 3, -7)]),
        ('len', lambda: len(t1.keys())),
    ]
    if hasattr(mod, 'weightedUnion'):
        ops.append(('wunion', lambda: mod.weightedUnion(t1, t2, 2, 3)))
        ops.append(('winter', lambda: mod.weightedIntersection(t1, t2)))
    if hasattr(mod, 'multiunion'):
        ops.append(('multi', lambda: mod.multiunion([t2, t1, t2])))
    for name, f in ops:
        for fail_at in range(1, total_loads + 3):
            jar.loads = 0
            jar.fail_at = fail_at
            try:
                try:
                    r = f()
                    outcome = 'ok'
                    del r
                except RuntimeError as e:
                    outcome = 'failed:' + str(e)[:11]
                    del e
            finally:
                jar.fail_at = None
            dig.update(('%s/%d/%s/%d\n' % (name, fail_at, outcome,
                                           jar.loads)).encode())
            settle((fam, 'ghost', name, fail_at))
    # and after all those failures everything still works
    r = mod.difference(t1, t2)
    check([(plain(k), plain(v)) for k, v in r.items()] ==
          [(plain(mk_key(kl, i)), plain(mk_val(vl, m1[i])))
           for i in sorted(m1) if i not in m2], 'ghost difference')
    del r
    t1._check()
    t2._check()
    settle((fam, 'ghost', 'end'))
    jar.states.clear()
    return dig.hexdigest()


def main():
    results = {}
    start = rc_snapshot([])
    for n, fam in enumerate(FAMILIES):
        rng = random.Random(31000 + n)
        d, now = run_family(fam, rng, 450 if fam in ('OO', 'II', 'OI')
                            else 200)
        results[fam] = d
        check(now == start, 'something is still held after the run', fam)
    for n, fam in enumerate(['OO', 'II', 'OI', 'LF']):
        results[fam + ':ghosts'] = run_ghosts(fam, random.Random(32000 + n))
        gc.collect()
        check(rc_snapshot([]) == start, 'held after the ghost run', fam)
    h = hashlib.sha256()
    for name in sorted(results):
        h.update(('%s=%s\n' % (name, results[name])).encode())
    total = h.hexdigest()
    if '--print-digest' in sys.argv:
        print(total)
        return 0
    check(total == EXPECTED_TOTAL, 'result history digest differs', total)
    print('OK', total[:16], 'comparisons:', K.ncmp)
    return 0


EXPECTED_TOTAL = (
    '45ccc8be4a32501bdb0312821660ff1814cf73ecaef8a7c7d29dc7a1e4c65678')

if __name__ == '__main__':
    sys.exit(main())
