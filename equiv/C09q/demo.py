
# ---------------------------------------------------------------------------
# Common harness: paired execution of the C and the pure-Python implementation
# against an independent dict/set reference model.
# ---------------------------------------------------------------------------
import gc
import importlib
import pickle
import sys

FAILURES = []


def check(cond, *what):
    if not cond:
        FAILURES.append(what)
        if len(FAILURES) <= 25:
            print("FAIL:", *what)


def outcome(f, *args):
    try:
        return ('ok', f(*args))
    except Exception as e:  # noqa
        return ('exc', type(e).__name__)


I32 = (-2 ** 31, 2 ** 31 - 1)
I64 = (-2 ** 63, 2 ** 63 - 1)
U32 = (0, 2 ** 32 - 1)
U64 = (0, 2 ** 64 - 1)
INT_RANGE = {'I': I32, 'L': I64, 'U': U32, 'Q': U64}


class Kind:
    """Independent description of one key or value data type."""

    def __init__(self, code, is_key):
        self.code = code
        self.is_key = is_key

    def usable(self, x):
        c = self.code
        if c in INT_RANGE:
            lo, hi = INT_RANGE[c]
            return isinstance(x, int) and lo <= x <= hi
        if c == 'F':
            return isinstance(x, (int, float))
        if c == 'O':
            if not self.is_key:
                return True
            return x is None or type(x).__lt__ is not object.__lt__
        if c == 'f':
            n = 2 if self.is_key else 6
            return isinstance(x, bytes) and len(x) == n
        raise AssertionError(c)

    def convert(self, x):
        c = self.code
        if c in INT_RANGE:
            return int(x)
        if c == 'F':
            return float(x)
        return x

    def good(self):
        c = self.code
        if c in INT_RANGE:
            lo, hi = INT_RANGE[c]
            vals = [lo, lo + 1, hi - 1, hi, 0, 1, 2, 3, 5, 7, 100, 1000,
                    True, 65536, hi // 2, hi // 3]
            if lo < 0:
                vals += [-1, -2, -100, lo // 2]
            return vals
        if c == 'F':
            return [0.5, 2, -3, 1.25, 0, True, -0.75, 1024.0, 3, 7, 9, 11,
                    13.5, 15, 17, 19, 21, 23]
        if c == 'O':
            if self.is_key:
                return [None, 0, 1, 2, 3, 5, 7, -1, -2, 100, 1000, 2 ** 70,
                        -2 ** 70, 11, 13, 17, 19, 23, 29, 31]
            return [None, 'a', 1.5, (1, 2), 2 ** 70, b'x', 0, 1, 2, 3, 4,
                    5, 6, 7, 8, 9, 10, 11, 12, 13]
        if c == 'f':
            n = 2 if self.is_key else 6
            return [bytes([i, j]) * (n // 2) for i in (0, 1, 7, 200, 255)
                    for j in (0, 3, 9, 255)]
        raise AssertionError(c)

    def bad(self):
        c = self.code
        if c in INT_RANGE:
            lo, hi = INT_RANGE[c]
            return [None, 'a', 1.5, (1,), b'ab', lo - 1, hi + 1, 2 ** 70,
                    -2 ** 70, object(), [], 2 ** 64, -2 ** 63 - 1]
        if c == 'F':
            return [None, 'a', (1,), b'ab', object(), []]
        if c == 'O':
            if self.is_key:
                return [object()]
            return []
        if c == 'f':
            return [None, 'ab', 1, b'', b'abc', b'a', (1,), object(),
                    b'abcdefg']
        raise AssertionError(c)


FAMILIES = ['OO', 'OI', 'OL', 'OU', 'OQ',
            'IO', 'II', 'IF', 'IU',
            'LO', 'LL', 'LF', 'LQ',
            'UO', 'UU', 'UF', 'UI',
            'QO', 'QQ', 'QF', 'QL',
            'fs']


def family_classes(fam, kind):
    """Return (C class, Python class) for kind in BTree/Bucket/Set/TreeSet."""
    mod = importlib.import_module('BTrees.%sBTree' % fam)
    c = getattr(mod, fam + kind)
    py = getattr(mod, fam + kind + 'Py')
    check(c is not py, fam, kind, 'C extension not in use')
    return c, py


def small(cls):
    """A subclass with tiny nodes, so that few keys give interior nodes."""
    return type(cls)(cls.__name__ + 'Small', (cls,),
                     {'max_leaf_size': 3, 'max_internal_size': 3})


def norm_state(x, depth=0):
    """Implementation-independent rendering of a __getstate__() value."""
    if isinstance(x, tuple):
        return tuple(norm_state(i, depth + 1) for i in x)
    if hasattr(x, '_p_changed') and hasattr(x, '__getstate__'):
        return ('node', norm_state(x.__getstate__(), depth + 1))
    if isinstance(x, float):
        return repr(x)
    return x


def fkey(k):
    # order-independent comparison helper: floats vs ints etc.
    return k


class MapModel:
    """dict based reference model of a mapping with typed keys/values."""

    def __init__(self, kk, vk):
        self.kk, self.vk, self.d = kk, vk, {}

    def setitem(self, k, v):
        if not self.kk.usable(k) or not self.vk.usable(v):
            return ('exc', 'TypeError')
        self.d[self.kk.convert(k)] = self.vk.convert(v)
        return ('ok', None)

    def getitem(self, k):
        if self.kk.usable(k) and self.kk.convert(k) in self.d:
            return ('ok', self.d[self.kk.convert(k)])
        return ('exc', 'KeyError')

    def get(self, k, dflt):
        if self.kk.usable(k):
            return ('ok', self.d.get(self.kk.convert(k), dflt))
        return ('ok', dflt)

    def contains(self, k):
        return ('ok', self.kk.usable(k) and self.kk.convert(k) in self.d)

    def delitem(self, k):
        if not self.kk.usable(k):
            return ('exc', 'TypeError')
        if self.kk.convert(k) not in self.d:
            return ('exc', 'KeyError')
        del self.d[self.kk.convert(k)]
        return ('ok', None)

    def pop(self, k, dflt):
        if not self.kk.usable(k):
            return ('exc', 'TypeError')
        return ('ok', self.d.pop(self.kk.convert(k), dflt))

    def pop_nodefault(self, k):
        if not self.kk.usable(k):
            return ('exc', 'TypeError')
        if self.kk.convert(k) not in self.d:
            return ('exc', 'KeyError')
        return ('ok', self.d.pop(self.kk.convert(k)))

    def setdefault(self, k, v):
        # only called with a usable v or an unusable k (see notes)
        if not self.kk.usable(k) or not self.vk.usable(v):
            return ('exc', 'TypeError')
        return ('ok', self.d.setdefault(self.kk.convert(k),
                                        self.vk.convert(v)))

    def items(self):
        return sorted(self.d.items(),
                      key=lambda kv: (kv[0] is not None, kv[0]))


class SetModel:
    def __init__(self, kk):
        self.kk, self.s = kk, set()

    def add(self, k):
        if not self.kk.usable(k):
            return ('exc', 'TypeError')
        k = self.kk.convert(k)
        new = k not in self.s
        self.s.add(k)
        return ('ok', int(new))

    def remove(self, k):
        if not self.kk.usable(k):
            return ('exc', 'TypeError')
        if self.kk.convert(k) not in self.s:
            return ('exc', 'KeyError')
        self.s.remove(self.kk.convert(k))
        return ('ok', None)

    def contains(self, k):
        return ('ok', self.kk.usable(k) and self.kk.convert(k) in self.s)

    def keys(self):
        return sorted(self.s, key=lambda k: (k is not None, k))


class FakeJar:
    def __init__(self):
        self.registered = []

    def register(self, obj):
        self.registered.append(id(obj))

    def setstate(self, obj):
        pass

    def readCurrent(self, obj):
        pass


def attach(t, n):
    t._p_jar = FakeJar()
    t._p_oid = b'\0' * 7 + bytes([n])
    return t


def same_snapshot(tag, c, py, model_items, mapping):
    """C and Python object have equal contents, shape and state."""
    if mapping:
        ci, pi = list(c.items()), list(py.items())
    else:
        ci, pi = list(c.keys()), list(py.keys())
    check(ci == pi, tag, 'contents differ', ci, pi)
    check(ci == model_items, tag, 'contents differ from model', ci,
          model_items)
    check(len(c) == len(py) == len(model_items), tag, 'len')
    cs, ps = norm_state(c.__getstate__()), norm_state(py.__getstate__())
    check(cs == ps, tag, 'state differs', cs, ps)


def run_mapping_history(fam, kind, use_small=True, float_values=False):
    """Drive C, Python and the model through one history of calls."""
    kk, vk = Kind(fam[0], True), Kind(fam[1], False)
    if fam == 'fs':
        kk, vk = Kind('f', True), Kind('f', False)
    ccls, pycls = family_classes(fam, kind)
    if use_small and kind == 'BTree':
        ccls, pycls = small(ccls), small(pycls)
    c, py, m = attach(ccls(), 1), attach(pycls(), 2), MapModel(kk, vk)
    tag0 = (fam, kind)
    gk, bk, gv, bv = kk.good(), kk.bad(), vk.good(), vk.bad()
    # Object keys: the two implementations are known to disagree at HEAD
    # about reads/deletes with a default-comparison key, so those calls are
    # left to the recorded-constant section of the demo.
    rbk = [] if kk.code == 'O' else bk
    sentinel = ['default']
    step = [0]

    def both(name, mname, *args):
        step[0] += 1
        tag = tag0 + (step[0], name, args)
        c._p_changed = False
        py._p_changed = False
        rc = outcome(getattr(c, name), *args)
        rp = outcome(getattr(py, name), *args)
        before = dict(m.d)
        rm = getattr(m, mname)(*args)
        if name == 'has_key':
            # C reports the depth for trees: only truth is documented
            rc = (rc[0], bool(rc[1])) if rc[0] == 'ok' else rc
            rp = (rp[0], bool(rp[1])) if rp[0] == 'ok' else rp
        check(rc == rp, tag, 'C vs Py', rc, rp)
        check(rc == rm, tag, 'C vs model', rc, rm)
        if rc[0] == 'ok' and rm[0] == 'ok':
            check(type(rc[1]) is type(rp[1]), tag, 'result type',
                  type(rc[1]), type(rp[1]))
        if rm[0] == 'exc' or name in ('__getitem__', 'get', '__contains__',
                                      'has_key'):
            # nothing may have been changed or announced as changed
            check(not c._p_changed and not py._p_changed, tag,
                  '_p_changed set by a failing write / by a read')
        if before != m.d:
            # (a write that stores what is already there is reported
            # differently by the two implementations at HEAD: not compared)
            check(bool(c._p_changed) == bool(py._p_changed), tag,
                  '_p_changed', c._p_changed, py._p_changed)
        return rc

    def snap():
        same_snapshot(tag0 + (step[0],), c, py, m.items(), True)

    # 1. reads and failing writes on the empty container
    for k in rbk + gk[:3]:
        both('__getitem__', 'getitem', k)
        both('get', 'get', k, sentinel)
        both('__contains__', 'contains', k)
        both('has_key', 'contains', k)
    for k in bk:
        both('__setitem__', 'setitem', k, gv[0])
        both('setdefault', 'setdefault', k, gv[0])
    for k in rbk:
        both('__delitem__', 'delitem', k)
        both('pop', 'pop', k, sentinel)
        both('pop', 'pop_nodefault', k)
    snap()
    # 2. fill, interleaving failing writes
    for i, k in enumerate(gk):
        v = gv[i % len(gv)]
        both('__setitem__', 'setitem', k, v)
        if bv:
            both('__setitem__', 'setitem', k, bv[i % len(bv)])
            both('__setitem__', 'setitem', gk[(i + 1) % len(gk)],
                 bv[i % len(bv)])
        if bk:
            both('__setitem__', 'setitem', bk[i % len(bk)], v)
            both('__setitem__', 'setitem', bk[i % len(bk)],
                 bv[i % len(bv)] if bv else v)
        snap()
    # 3. reads with every key on the populated container
    for k in rbk + gk:
        both('__getitem__', 'getitem', k)
        both('get', 'get', k, sentinel)
        both('get', 'get', k, None)
        both('__contains__', 'contains', k)
        both('has_key', 'contains', k)
    snap()
    # 4. failing writes on the populated container
    for k in rbk:
        both('__delitem__', 'delitem', k)
        both('pop', 'pop', k, sentinel)
        both('pop', 'pop_nodefault', k)
    for k in bk:
        both('setdefault', 'setdefault', k, gv[1])
        for v in bv[:3]:
            both('__setitem__', 'setitem', k, v)
    snap()
    # 5. update() with a bad pair in the middle: pairs before it are kept
    pairs = [(gk[0], gv[2]), (gk[1], gv[3])]
    if bv:
        pairs.append((gk[2], bv[0]))
    elif bk:
        pairs.append((bk[0], gv[0]))
    pairs.append((gk[3], gv[4]))
    rc = outcome(c.update, pairs)
    rp = outcome(py.update, pairs)
    for k, v in pairs:
        if m.setitem(k, v)[0] == 'exc':
            rm = ('exc', 'TypeError')
            break
    else:
        rm = ('ok', None)
    check(rc[0] == rp[0] == rm[0], tag0, 'update', rc, rp, rm)
    if rm[0] == 'exc':
        check(rc == rp == rm, tag0, 'update exc', rc, rp, rm)
    snap()
    # 6. pickle round trip of both, then delete / pop / setdefault
    for proto in (2, pickle.HIGHEST_PROTOCOL):
        # (fsBucket pickles differently in C - toString - at HEAD)
        if not use_small and fam != 'fs':
            check(pickle.dumps(c, proto) == pickle.dumps(py, proto), tag0,
                  'pickles differ')
    for i, k in enumerate(gk):
        if i % 3 == 0:
            both('__delitem__', 'delitem', k)
            both('__delitem__', 'delitem', k)
        elif i % 3 == 1:
            both('pop', 'pop', k, sentinel)
            both('pop', 'pop', k, sentinel)
            both('pop', 'pop_nodefault', k)
        else:
            both('setdefault', 'setdefault', k, gv[0])
        both('__getitem__', 'getitem', k)
        both('__contains__', 'contains', k)
        if i % 4 == 0:
            snap()
    snap()
    return step[0]


def run_set_history(fam, kind, use_small=True):
    kk = Kind(fam[0], True)
    if fam == 'fs':
        kk = Kind('f', True)
    ccls, pycls = family_classes(fam, kind)
    if use_small and kind == 'TreeSet':
        ccls, pycls = small(ccls), small(pycls)
    c, py, m = attach(ccls(), 1), attach(pycls(), 2), SetModel(kk)
    tag0 = (fam, kind)
    gk, bk = kk.good(), kk.bad()
    rbk = [] if kk.code == 'O' else bk
    step = [0]

    def both(name, mname, *args):
        step[0] += 1
        tag = tag0 + (step[0], name, args)
        c._p_changed = False
        py._p_changed = False
        rc = outcome(getattr(c, name), *args)
        rp = outcome(getattr(py, name), *args)
        before = set(m.s)
        rm = getattr(m, mname)(*args)
        if name == 'has_key':
            rc = (rc[0], bool(rc[1])) if rc[0] == 'ok' else rc
            rp = (rp[0], bool(rp[1])) if rp[0] == 'ok' else rp
        check(rc == rp, tag, 'C vs Py', rc, rp)
        check(rc == rm, tag, 'C vs model', rc, rm)
        if rm[0] == 'exc' or name in ('__contains__', 'has_key'):
            check(not c._p_changed and not py._p_changed, tag,
                  '_p_changed set by a failing write / by a read')
        if before != m.s:
            check(bool(c._p_changed) == bool(py._p_changed), tag,
                  '_p_changed')

    def snap():
        same_snapshot(tag0 + (step[0],), c, py, m.keys(), False)

    for k in rbk + gk[:3]:
        both('__contains__', 'contains', k)
        both('has_key', 'contains', k)
    for k in bk:
        both('add', 'add', k)
    for k in rbk:
        both('remove', 'remove', k)
    snap()
    for i, k in enumerate(gk):
        both('add', 'add', k)
        both('add', 'add', k)
        if bk:
            both('add', 'add', bk[i % len(bk)])
        snap()
    for k in rbk + gk:
        both('__contains__', 'contains', k)
        both('has_key', 'contains', k)
    for k in rbk:
        both('remove', 'remove', k)
    snap()
    if not use_small and fam != 'fs':
        check(pickle.dumps(c, 2) == pickle.dumps(py, 2), tag0,
              'pickles differ')
    for i, k in enumerate(gk):
        if i % 2 == 0:
            both('remove', 'remove', k)
            both('remove', 'remove', k)
        both('__contains__', 'contains', k)
    snap()
    return step[0]


def refcount_stable(tag, f, objs, n=300):
    """Calling f() n times must not change the refcount of objs."""
    f()
    gc.collect()
    before = [sys.getrefcount(o) for o in objs]
    for _ in range(n):
        f()
    gc.collect()
    after = [sys.getrefcount(o) for o in objs]
    check(before == after, tag, 'refcount drift', before, after)


def finish(name, nsteps):
    if FAILURES:
        print("%s: %d FAILURES" % (name, len(FAILURES)))
        sys.exit(1)
    print("%s: OK (%d paired steps)" % (name, nsteps))
    sys.exit(0)

# ---------------------------------------------------------------------------
# C09q specific: `in`, has_key() and discard() (bucket_contains,
# BTree_contains, bucket_has_key, BTree_has_key, Set_discard, TreeSet_discard)
# ---------------------------------------------------------------------------
def c09q_specific():
    n = 0
    o = object()
    TE = ('exc', 'TypeError')

    class Evil:
        def __init__(self, exc):
            self.exc = exc

        def __lt__(self, other):
            raise self.exc('lt')

        __gt__ = __le__ = __ge__ = __lt__

        def __eq__(self, other):
            raise self.exc('eq')

        __hash__ = None

    def probe(t, k):
        r = []
        for f in (t.__contains__, t.has_key):
            x = outcome(f, k)
            if x[0] == 'ok':
                # exactly the bool singletons
                check(x[1] is True or x[1] is False, type(t).__name__, k,
                      'not a bool', x)
            r.append(x)
        return tuple(r)

    sizes = {'BTree': (0, 1, 10, 700), 'Bucket': (0, 1, 10),
             'TreeSet': (0, 1, 10, 700), 'Set': (0, 1, 10)}
    for fam in FAMILIES:
        kk = Kind('f' if fam == 'fs' else fam[0], True)
        vk = Kind('f' if fam == 'fs' else fam[1], False)
        keys = sorted(set(kk.convert(k) for k in kk.good()
                          if k is not None))
        if kk.code in INT_RANGE:
            lo, hi = INT_RANGE[kk.code]
            keys = sorted(set(keys) | set(range(max(lo, 5), 5 + 700, 2)))
        elif kk.code == 'O':
            keys = sorted(set(keys) | set(range(5, 5 + 700, 2)))
        for kind in ('BTree', 'Bucket', 'TreeSet', 'Set'):
            ccls, pycls = family_classes(fam, kind)
            for size in sizes[kind]:
                ks = keys[:size]
                if kind in ('BTree', 'Bucket'):
                    v = vk.good()[1]
                    c, py = ccls([(k, v) for k in ks]), \
                        pycls([(k, v) for k in ks])
                else:
                    c, py = ccls(ks), pycls(ks)
                present = set(ks)
                tests = list(keys[:size + 3])
                if kk.code != 'O':
                    tests += kk.bad()
                for k in tests:
                    n += 1
                    want = (('ok', kk.usable(k) and kk.convert(k) in present),
                            ) * 2
                    got_c, got_py = probe(c, k), probe(py, k)
                    check(got_c == want, fam, kind, size, k, 'C', got_c)
                    check(got_py == want, fam, kind, size, k, 'Py', got_py)
                # has_key and `in` answer the same for keys near the ends
                if kind in ('TreeSet', 'Set'):
                    # discard(): absent or unusable keys are ignored and
                    # nothing is changed; present keys are removed
                    state_c = norm_state(c.__getstate__())
                    if kk.code != 'O':
                        for k in kk.bad():
                            n += 1
                            c._p_changed = False
                            rc, rp = outcome(c.discard, k), \
                                outcome(py.discard, k)
                            check(rc == rp == ('ok', None), fam, kind, size,
                                  'discard', k, rc, rp)
                            check(not c._p_changed, fam, kind, 'changed')
                    for k in keys[size:size + 3]:
                        rc, rp = outcome(c.discard, k), outcome(py.discard, k)
                        check(rc == rp == ('ok', None), fam, kind, size,
                              'discard absent', k, rc, rp)
                    check(norm_state(c.__getstate__()) == state_c, fam, kind,
                          size, 'failed discard changed the set')
                    check(list(c) == list(py) == ks, fam, kind, size)
                    for k in ks[::2]:
                        rc, rp = outcome(c.discard, k), outcome(py.discard, k)
                        check(rc == rp == ('ok', None), fam, kind, size,
                              'discard present', k, rc, rp)
                        check(probe(c, k) == probe(py, k)
                              == (('ok', False),) * 2, fam, kind, k)
                    check(list(c) == list(py) == ks[1::2], fam, kind, size,
                          'after discards')
                    check(norm_state(c.__getstate__())
                          == norm_state(py.__getstate__()), fam, kind, size,
                          'state after discards')

    # Object keys whose comparison fails (recorded at HEAD for the C classes)
    from BTrees.OOBTree import OOBTree, OOBucket, OOSet, OOTreeSet
    for cls, size in [(OOBucket, 10), (OOBTree, 10), (OOBTree, 300),
                      (OOSet, 10), (OOTreeSet, 10), (OOTreeSet, 300)]:
        isset = 'Set' in cls.__name__
        t = cls(range(size)) if isset else cls([(i, i) for i in range(size)])
        before = norm_state(t.__getstate__())
        for k in (o, 'a', (1,)):
            n += 1
            check(probe(t, k) == (TE, TE), cls.__name__, size, k, probe(t, k))
            if isset:
                # TypeError from the comparison: "can't be in the set"
                check(outcome(t.discard, k) == ('ok', None), cls.__name__,
                      'discard', k)
        for exc in (ValueError, RuntimeError, OverflowError, MemoryError):
            n += 1
            want = ('exc', exc.__name__)
            check(probe(t, Evil(exc)) == (want, want), cls.__name__, exc,
                  probe(t, Evil(exc)))
            if isset:
                check(outcome(t.discard, Evil(exc)) == want, cls.__name__,
                      'discard', exc)
        # a KeyError out of the comparison reads as "absent"
        check(probe(t, Evil(KeyError)) == (('ok', False),) * 2,
              cls.__name__, 'KeyError', probe(t, Evil(KeyError)))
        if isset:
            check(outcome(t.discard, Evil(KeyError)) == ('ok', None),
                  cls.__name__, 'discard KeyError')
        # a subclass of TypeError is a TypeError; a subclass of KeyError is
        # not "the" KeyError (exact match in BTree_ShouldSuppressKeyError)

        class MyTE(TypeError):
            pass

        class MyKE(KeyError):
            pass

        check(probe(t, Evil(MyTE)) == (('exc', 'MyTE'),) * 2, cls.__name__,
              probe(t, Evil(MyTE)))
        check(probe(t, Evil(MyKE)) == (('exc', 'MyKE'),) * 2, cls.__name__,
              probe(t, Evil(MyKE)))
        if isset:
            check(outcome(t.discard, Evil(MyTE)) == ('ok', None),
                  cls.__name__, 'discard MyTE')
            check(outcome(t.discard, Evil(MyKE)) == ('exc', 'MyKE'),
                  cls.__name__, 'discard MyKE')
        check(norm_state(t.__getstate__()) == before, cls.__name__,
              'changed by failing calls')
        check(sys.exc_info() == (None, None, None), 'exc_info')

    # reference counts: keys and results
    from BTrees.IIBTree import IIBTree, IIBucket, IISet, IITreeSet
    for cls, size in [(IIBucket, 10), (IIBTree, 1000), (IISet, 10),
                      (IITreeSet, 1000), (OOBucket, 10), (OOBTree, 300),
                      (OOSet, 10), (OOTreeSet, 300)]:
        isset = 'Set' in cls.__name__
        t = cls(range(size)) if isset else cls([(i, i) for i in range(size)])
        three = 3
        for k in (three, 10 ** 6, 'a' * 40, (1, 2.5), object(), Evil(ValueError),
                  Evil(KeyError)):
            n += 1
            fs = [lambda: outcome(t.__contains__, k),
                  lambda: outcome(t.has_key, k)]
            if isset and k is not three:
                fs.append(lambda: outcome(t.discard, k))
            for f in fs:
                refcount_stable((cls.__name__, size, type(k).__name__), f,
                                [k, KeyError, TypeError, ValueError])
    return n


if __name__ == '__main__':
    total = 0
    for fam in FAMILIES:
        for kind in ('BTree', 'Bucket'):
            total += run_mapping_history(fam, kind, True)
            total += run_mapping_history(fam, kind, False)
        for kind in ('TreeSet', 'Set'):
            total += run_set_history(fam, kind, True)
            total += run_set_history(fam, kind, False)
    total += c09q_specific()
    finish('C09q demo', total)
