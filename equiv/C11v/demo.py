"""Differential demo for refactoring v (Python: _base.py multiunion,
Set.add / Set.update / Set._set, _BucketBase._search).

Run as:  PYTHONPATH=<tree>/src /venv/bin/python demo.py

For all 16 integer-key families the pure-Python multiunion (mod.multiunionPy)
is compared with sorted(set(...)) over every operand kind (lone keys, Python and
C sets / buckets / trees with tiny nodes, lists, tuples, dicts, generators,
ghosts behind a stand-in jar), including both extremes of the key range and
totals on both sides of 800.  Error paths: non-iterable non-key operands,
out-of-range keys, failing iterators, failing ghost loads -- with the partial
state that Set.update leaves behind.  The helpers are also driven directly:
Set.add / insert / update return values and persistence effects (register
calls, _p_changed), dispatch through overridden add / _set / _to_key in
subclasses, and the exact probe sequence of _search (observed through keys
that log their comparisons in an OO bucket/set) against a reference binary
search.

Exits 0 when everything is as specified.
"""
import bisect
import importlib
import pickle
import random
import sys

FAMILIES = ['II', 'IU', 'IO', 'IF', 'LL', 'LQ', 'LO', 'LF',
            'QL', 'QQ', 'QO', 'QF', 'UI', 'UU', 'UO', 'UF']
RANGES = {
    'I': (-2**31, 2**31 - 1),
    'L': (-2**63, 2**63 - 1),
    'U': (0, 2**32 - 1),
    'Q': (0, 2**64 - 1),
}

checks = 0


def check(cond, *msg):
    global checks
    checks += 1
    if not cond:
        print("FAIL:", *msg)
        sys.exit(1)


class Boom(Exception):
    pass


class Jar:
    """Tiny stand-in for a ZODB connection."""

    def __init__(self):
        self.states = {}
        self.fail = set()
        self.loads = []
        self.registered = []

    def add(self, obj):
        oid = ('%08d' % (len(self.states) + 1)).encode()
        obj._p_jar = self
        obj._p_oid = oid
        self.states[oid] = obj.__getstate__()
        obj._p_changed = False
        obj._p_deactivate()
        assert obj._p_changed is None
        return obj

    def setstate(self, obj):
        self.loads.append(obj._p_oid)
        if obj._p_oid in self.fail:
            raise Boom('load failed')
        obj.__setstate__(self.states[obj._p_oid])

    def register(self, obj):
        self.registered.append(obj._p_oid)


def rand_key(rng, lo, hi):
    r = rng.random()
    if r < 0.15:
        return rng.choice((lo, lo + 1, hi, hi - 1, (lo + hi) // 2,
                           (lo + hi) // 2 + 1))
    if r < 0.5:
        base = rng.choice((lo, hi - 300, (lo + hi) // 2 - 150,
                           0 if lo < 0 else 1000))
        return min(hi, max(lo, base + rng.randrange(300)))
    return rng.randrange(lo, hi + 1)


class Family:
    def __init__(self, prefix):
        self.prefix = prefix
        self.mod = mod = importlib.import_module('BTrees.%sBTree' % prefix)
        self.lo, self.hi = RANGES[prefix[0]]
        g = lambda n: getattr(mod, prefix + n)  # noqa: E731
        self.SetPy, self.BucketPy = g('SetPy'), g('BucketPy')
        self.TreeSetPy, self.BTreePy = g('TreeSetPy'), g('BTreePy')
        self.Set, self.Bucket = g('Set'), g('Bucket')
        self.TreeSet, self.BTree = g('TreeSet'), g('BTree')
        check(self.Set is not self.SetPy, prefix, 'C extension missing')
        self.multiunionPy = mod.multiunionPy
        check(type(self.multiunionPy).__name__ == 'set_operation', prefix,
              'python multiunion missing')
        ns = {'max_leaf_size': 4, 'max_internal_size': 3}
        self.SmallTreeSetPy = type('SmallTreeSetPy', (self.TreeSetPy,), dict(ns))
        self.SmallBTreePy = type('SmallBTreePy', (self.BTreePy,), dict(ns))
        self.SmallTreeSet = type('SmallTreeSet', (self.TreeSet,), dict(ns))
        self.SmallBTree = type('SmallBTree', (self.BTree,), dict(ns))
        vkind = prefix[1]
        if vkind == 'O':
            self.val = lambda k: str(k)
        elif vkind == 'F':
            self.val = lambda k: 0.5
        else:
            self.val = lambda k: 7

    def pairs(self, keys):
        return [(k, self.val(k)) for k in keys]

    def make_operand(self, kind, keys):
        uniq = sorted(set(keys))
        if kind == 'int':
            k = keys[0] if keys else self.hi
            return k, [k]
        simple = {
            'pyset': self.SetPy, 'cset': self.Set,
            'pytreeset': self.SmallTreeSetPy, 'ctreeset': self.SmallTreeSet,
            'bigpytreeset': self.TreeSetPy,
            'list': list, 'tuple': tuple, 'frozenset': frozenset,
        }
        if kind in simple:
            return simple[kind](keys), keys
        mappings = {
            'pybucket': self.BucketPy, 'cbucket': self.Bucket,
            'pybtree': self.SmallBTreePy, 'cbtree': self.SmallBTree,
        }
        if kind in mappings:
            return mappings[kind](self.pairs(uniq)), uniq
        if kind == 'dict':
            return dict.fromkeys(keys, 'v'), keys
        if kind == 'gen':
            return (k for k in list(keys)), keys
        if kind == 'keysview':
            return self.SmallBTreePy(self.pairs(uniq)).keys(), uniq
        raise AssertionError(kind)


KINDS = ['int', 'pyset', 'cset', 'pytreeset', 'ctreeset', 'bigpytreeset',
         'list', 'tuple', 'frozenset', 'pybucket', 'cbucket', 'pybtree',
         'cbtree', 'dict', 'gen', 'keysview']
BTREES_KINDS = {'pyset', 'cset', 'pytreeset', 'ctreeset', 'bigpytreeset',
                'pybucket', 'cbucket', 'pybtree', 'cbtree'}


def verify_result(fam, res, expected, rng, what):
    check(type(res) is fam.SetPy, what, 'result type', type(res))
    got = list(res)
    check(got == expected, what, 'wrong union', len(got), len(expected),
          got[:8], expected[:8])
    check(len(res) == len(expected), what, 'len')
    check(res._p_changed is False and res._p_jar is None, what,
          'fresh result state', res._p_changed)
    check(res.__getstate__() == (tuple(expected),), what, 'state')
    if not expected:
        check(not res, what, 'empty result is falsy')
        return
    check(res.minKey() == expected[0] and res.maxKey() == expected[-1],
          what, 'min/max')
    members = set(expected)
    for k in [rng.choice(expected) for _ in range(5)] + [expected[0], expected[-1]]:
        check(k in res and res.has_key(k), what, 'membership', k)
    for _ in range(4):
        a, b = sorted((rand_key(rng, fam.lo, fam.hi), rand_key(rng, fam.lo, fam.hi)))
        check(list(res.keys(a, b)) == [k for k in expected if a <= k <= b],
              what, 'range query', a, b)
        check((a in res) == (a in members), what, 'membership2', a)
    for k in (fam.lo, fam.hi):
        check((k in res) == (k in members), what, 'extreme', k)


def random_round(fam, rng, total_hint):
    nops = rng.choice((0, 1, 1, 2, 3, 5, 8))
    operands, model, kinds = [], [], []
    for _ in range(nops):
        kind = rng.choice(KINDS)
        size = rng.choice((0, 1, 2, 5, 30, total_hint // max(1, nops),
                           total_hint // max(1, nops) + 7))
        keys = [rand_key(rng, fam.lo, fam.hi) for _ in range(size)]
        op, ks = fam.make_operand(kind, keys)
        operands.append(op)
        model.extend(ks)
        kinds.append(kind)
    expected = sorted(set(model))
    outer = rng.choice(('list', 'tuple', 'gen', 'kw'))
    what = (fam.prefix, kinds, outer)
    if outer == 'tuple':
        res = fam.multiunionPy(tuple(operands))
    elif outer == 'gen':
        # the Python version accepts any iterable of operands
        res = fam.multiunionPy(op for op in operands)
    elif outer == 'kw':
        res = fam.multiunionPy(seqs=operands)
    else:
        res = fam.multiunionPy(operands)
    verify_result(fam, res, expected, rng, what)
    for op, kind in zip(operands, kinds):
        if kind in BTREES_KINDS:
            check(not op._p_changed or kind.startswith('py') and
                  op._p_changed is True and op._p_jar is None, what,
                  'operand state', kind, op._p_changed)
    if len(expected) <= 200:
        back = pickle.loads(pickle.dumps(res, 2))
        check(type(back) is fam.Set and list(back) == expected, what, 'pickle')


def expect_error(call, exc, what):
    try:
        call()
    except exc as e:
        check(type(e) is exc, what, 'exception type', type(e))
        return e
    check(False, what, 'no exception')


def context_chain(exc):
    """The implicit exception chain (__context__) below exc, outermost first."""
    chain = []
    while exc.__context__ is not None:
        exc = exc.__context__
        chain.append(exc)
    return chain


def error_paths(fam, rng):
    lo, hi = fam.lo, fam.hi
    p = fam.prefix
    mu = fam.multiunionPy
    good = fam.SetPy([lo, hi])
    # a lone operand that is neither iterable nor a key
    for bad in (None, 1.5, object(), hi + 1, lo - 1, 2**70, -2**70):
        for pos in (0, 1, 2):
            items = [good, [lo + 1]]
            items.insert(pos, bad)
            e = expect_error(lambda: mu(items), TypeError, (p, 'bad operand', bad))
            # the conversion error is raised while handling the TypeError
            # of iter(): the chain is part of the behaviour
            check(type(context_chain(e)[-1]) is TypeError and
                  'iterable' in str(context_chain(e)[-1]), p, 'context', bad)
    # a bad element inside an iterable
    for bad in ('a', None, 1.5, hi + 1, lo - 1):
        for inner in ([bad], [lo + 5, bad], [lo + 5, bad, lo + 6]):
            e = expect_error(lambda: mu([good, inner]), TypeError,
                             (p, 'bad element', bad))
            check(not any('iterable' in str(c) for c in context_chain(e)),
                  p, 'no iter context')
    # strings are iterables of 1-character strings, not keys
    expect_error(lambda: mu(['ab']), TypeError, (p, 'str operand'))
    # not an iterable of operands
    expect_error(lambda: mu(5), TypeError, (p, 'seq not iterable'))
    expect_error(lambda: mu(), TypeError, (p, 'no args'))

    def raising(n):
        for i in range(n):
            yield lo + i
        raise Boom('iter')

    for n in (0, 1, 4):
        expect_error(lambda: mu([good, raising(n)]), Boom, (p, 'iter raises'))
        expect_error(lambda: mu(x for x in [good, raising(n)]), Boom,
                     (p, 'iter raises 2'))

    def outer_raising():
        yield good
        raise Boom('outer')

    expect_error(lambda: mu(outer_raising()), Boom, (p, 'outer raises'))

    class BadIter:
        def __iter__(self):
            raise Boom('no iter')

    expect_error(lambda: mu([good, BadIter()]), Boom, (p, '__iter__ raises'))

    class TypeErrorIter:
        """iter() raises TypeError -> treated as a lone key -> conversion
        fails with TypeError as well."""
        def __iter__(self):
            raise TypeError('custom')

    e = expect_error(lambda: mu([good, TypeErrorIter()]), TypeError,
                     (p, '__iter__ raises TypeError'))
    check(str(context_chain(e)[-1]) == 'custom', p, 'custom context')

    class IndexLike:
        """Not iterable but usable as an integer (__index__)."""
        def __init__(self, v):
            self.v = v

        def __index__(self):
            return self.v

    res = mu([good, IndexLike(lo + 3), [IndexLike(lo + 4)]])
    check(list(res) == [lo, lo + 3, lo + 4, hi], p, '__index__ keys', list(res))
    check(all(type(k) is int for k in res), p, 'keys are plain ints')

    class StopNow:
        """An iterator whose __next__ raises StopIteration at once, and an
        element producer that leaks StopIteration from a nested call."""
        def __iter__(self):
            return self

        def __next__(self):
            raise StopIteration

    check(list(mu([StopNow(), good])) == [lo, hi], p, 'empty iterator')


def direct_set_api(fam, rng):
    """Set.add / insert / update / _set / _search, driven directly and
    compared with a sorted list."""
    lo, hi = fam.lo, fam.hi
    p = fam.prefix
    S = fam.SetPy
    check(S.insert is S.add or S.__dict__.get('insert') is S.__dict__.get('add'),
          p, 'insert is add')
    for trial in range(6):
        s = S()
        model = []
        for step in range(rng.choice((0, 1, 2, 30, 120))):
            k = rand_key(rng, lo, hi)
            i = bisect.bisect_left(model, k)
            present = i < len(model) and model[i] == k
            # _search: index if present, else -(insertion point) - 1
            check(s._search(k) == (i if present else -i - 1), p, '_search', k)
            op = rng.randrange(4)
            if op == 0:
                r = s.add(k)
                check(r is (not present), p, 'add result', r)
            elif op == 1:
                r = s.insert(k)
                check(r is (not present), p, 'insert result', r)
            elif op == 2:
                r = s._set(k)
                check(r == ((not present), None) and type(r) is tuple, p,
                      '_set result', r)
            else:
                batch = [k] + [rand_key(rng, lo, hi) for _ in range(3)]
                check(s.update(iter(batch)) is None, p, 'update result')
                for b in batch[1:]:
                    j = bisect.bisect_left(model, b)
                    if not (j < len(model) and model[j] == b):
                        model.insert(j, b)
                i = bisect.bisect_left(model, k)
                present = i < len(model) and model[i] == k
            if not present:
                model.insert(i, k)
            check(list(s) == model, p, 'set contents')
        check(s._search(lo) == (0 if model and model[0] == lo else -1), p,
              '_search lo')
        if model and model[-1] != hi:
            check(s._search(hi) == -len(model) - 1, p, '_search hi')
    # partial state after a failing update: everything before the bad
    # element has been added, nothing after it
    for bad, exc in (('x', TypeError), (hi + 1, TypeError), (None, TypeError)):
        s = S([lo + 10])
        expect_error(lambda: s.update([lo + 3, lo + 1, bad, lo + 2]), exc,
                     (p, 'update bad element'))
        check(list(s) == [lo + 1, lo + 3, lo + 10], p, 'partial update', list(s))

    def raising():
        yield lo + 7
        yield lo + 5
        raise Boom('mid')

    s = S()
    expect_error(lambda: s.update(raising()), Boom, (p, 'update iter raises'))
    check(list(s) == [lo + 5, lo + 7], p, 'partial update 2')
    expect_error(lambda: s.update(5), TypeError, (p, 'update non-iterable'))
    expect_error(lambda: s.update(None), TypeError, (p, 'update None'))
    check(list(s) == [lo + 5, lo + 7], p, 'unchanged after bad update')
    # add() of a bad key leaves the set alone
    for bad in ('x', None, 1.5, hi + 1, lo - 1):
        expect_error(lambda: s.add(bad), TypeError, (p, 'add bad key', bad))
        check(list(s) == [lo + 5, lo + 7], p, 'unchanged after bad add')

    # dispatch: update goes through self.add (looked up once per call),
    # add through self._to_key and self._set
    log = []

    class Traced(S):
        def add(self, key):
            log.append(('add', key))
            return S.add(self, key)

        def _set(self, key, value=None, ifunset=False):
            log.append(('_set', key))
            return S._set(self, key, value, ifunset)

        def _search(self, key):
            log.append(('_search', key))
            return S._search(self, key)

    t = Traced()
    t.update([lo + 2, lo + 1, lo + 2])
    check(log == [('add', lo + 2), ('_set', lo + 2), ('_search', lo + 2),
                  ('add', lo + 1), ('_set', lo + 1), ('_search', lo + 1),
                  ('add', lo + 2), ('_set', lo + 2), ('_search', lo + 2)],
          p, 'dispatch order', log)
    check(list(t) == [lo + 1, lo + 2], p, 'traced contents')
    del log[:]
    t2 = Traced([lo + 9])            # constructor -> update -> add
    check(log[:1] == [('add', lo + 9)] and list(t2) == [lo + 9], p, 'ctor')

    class StopInAdd(S):
        def add(self, key):
            raise StopIteration('from add')

    # a StopIteration escaping from add() is not the end of the input
    expect_error(lambda: StopInAdd().update([lo]), StopIteration,
                 (p, 'StopIteration from add propagates'))

    # persistence effects
    jar = Jar()
    s = jar.add(S([lo, lo + 4, hi]))
    check(s._p_changed is None, p, 'ghost')
    r = s.add(lo + 4)               # present: loads, does not modify
    check(r is False and s._p_changed is False and jar.registered == [] and
          jar.loads == [s._p_oid], p, 'add present on ghost', r, s._p_changed)
    r = s.add(lo + 2)               # absent: modifies, registers once
    check(r is True and s._p_changed is True and
          jar.registered == [s._p_oid], p, 'add absent', jar.registered)
    s.update([lo + 2, lo + 3])
    check(jar.registered == [s._p_oid] and s._p_changed is True, p,
          'still registered once')
    check(list(s) == [lo, lo + 2, lo + 3, lo + 4, hi], p, 'contents after adds')
    s._p_changed = False
    s.update([lo, hi, lo + 3])      # nothing new: stays unmodified
    check(s._p_changed is False and jar.registered == [s._p_oid], p,
          'update with nothing new')
    s._p_deactivate()
    jar.fail = {s._p_oid}
    expect_error(lambda: s.add(lo + 1), Boom, (p, 'add on unloadable ghost'))
    expect_error(lambda: s.update([lo + 1]), Boom, (p, 'update on unloadable ghost'))
    check(s._p_changed is None, p, 'still a ghost')


def ghost_operands(fam, rng):
    lo, hi = fam.lo, fam.hi
    p = fam.prefix
    mu = fam.multiunionPy
    jar = Jar()
    ka = sorted({rand_key(rng, lo, hi) for _ in range(30)})
    kb = sorted({rand_key(rng, lo, hi) for _ in range(30)})
    kc = sorted({rand_key(rng, lo, hi) for _ in range(30)})
    a = jar.add(fam.SetPy(ka))
    b = jar.add(fam.BucketPy(fam.pairs(kb)))
    c = jar.add(fam.Set(kc))
    expected = sorted(set(ka + kb + kc + [hi]))
    for trial in range(2):
        del jar.loads[:]
        res = mu([a, hi, b, c])
        check(list(res) == expected, p, 'ghost union')
        check(jar.loads == [a._p_oid, b._p_oid, c._p_oid], p, 'load order',
              jar.loads)
        check(jar.registered == [], p, 'operands not modified')
        for o in (a, b, c):
            check(o._p_changed is False, p, 'operand state', o._p_changed)
            o._p_deactivate()
            check(o._p_changed is None, p, 'operand can be ghostified')
    for failing in (a, b, c):
        jar.fail = {failing._p_oid}
        expect_error(lambda: mu([[lo], a, b, c]), Boom, (p, 'ghost load fails'))
        check(failing._p_changed is None, p, 'failed ghost stays ghost')
        jar.fail = set()
        for o in (a, b, c):
            o._p_deactivate()
            check(o._p_changed is None, p, 'ghostify after failure')


class Probe:
    """An object key that logs every comparison made with it."""
    log = []

    def __init__(self, v):
        self.v = v

    def __eq__(self, other):
        Probe.log.append(('eq', self.v, other.v))
        return self.v == other.v

    def __lt__(self, other):
        Probe.log.append(('lt', self.v, other.v))
        return self.v < other.v

    def __gt__(self, other):
        Probe.log.append(('gt', self.v, other.v))
        return self.v > other.v

    def __hash__(self):
        return hash(self.v)


def probe_sequences(rng):
    """_search is shared by all bucket classes; observe its comparisons
    through logging keys in an OO set and bucket."""
    import BTrees.OOBTree as OO
    # compare(x, y) is specified as (x > y) - (y > x): two questions, in
    # that order, after the failed == test.
    def ref(keys, key, log):
        low, high = 0, len(keys)
        while low < high:
            i = (low + high) // 2
            k = keys[i]
            if k is key:
                return i
            log.append(('eq', k.v, key.v))
            if k.v == key.v:
                return i
            log.append(('gt', k.v, key.v))
            log.append(('gt', key.v, k.v))
            if k.v < key.v:
                low = i + 1
            else:
                high = i
        return -1 - low

    for cls in (OO.OOSetPy, OO.OOBucketPy):
        for n in (0, 1, 2, 3, 7, 8, 31, 100):
            values = sorted(rng.sample(range(1000), n))
            keys = [Probe(v) for v in values]
            if cls is OO.OOSetPy:
                s = cls()
                s.__setstate__((tuple(keys),))
            else:
                s = cls()
                flat = []
                for k in keys:
                    flat.extend((k, k.v))
                s.__setstate__((tuple(flat),))
            targets = [Probe(v) for v in (values[:3] + values[-3:] +
                                          [-1, 1001] + rng.sample(range(1000), 6))]
            targets += keys[:2] + keys[-2:]      # identical objects
            for tkey in targets:
                expected_log = []
                expected = ref(keys, tkey, expected_log)
                Probe.log = []
                got = s._search(tkey)
                check(got == expected, cls.__name__, n, '_search value',
                      got, expected)
                check(Probe.log == expected_log, cls.__name__, n,
                      '_search probe sequence', Probe.log[:6], expected_log[:6])


def main():
    rng = random.Random(0xC11 + 2)
    probe_sequences(rng)
    for prefix in FAMILIES:
        fam = Family(prefix)
        check(list(fam.multiunionPy([])) == [], prefix, 'empty')
        check(list(fam.multiunionPy([fam.hi, fam.lo, fam.hi])) ==
              [fam.lo, fam.hi], prefix, 'extremes as ints')
        for total in (3, 40, 300, 790, 810, 1300, 2500):
            for _ in range(8):
                random_round(fam, rng, total)
        error_paths(fam, rng)
        direct_set_api(fam, rng)
        ghost_operands(fam, rng)
    print("OK: %d checks" % checks)


if __name__ == '__main__':
    main()
