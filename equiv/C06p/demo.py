"""Equivalence demonstration for refactoring C06p.

C06p extracts the per-child part of _BTree_setstate() (BTreeTemplate.c) into
the helper _BTree_setstate_child().  The demonstration checks property C06
(state / pickle / copy round trips, C and pure Python byte-identical and
mutually loadable) over all 22 families, 4 kinds, histories crossing the three
state forms and pickle protocols 0..5 against a dict model, and then drives
the touched code directly: embedded-leaf states (mapping and set flavour),
ready-made children (accepted / rejected types, recorded messages), first
bucket validation, reference counts of children and separators (success and
failure paths) and absence of persistence notifications.

Run:  PYTHONPATH=<worktree>/src /venv/bin/python demo.py   (exit status 0)
"""
import copy
import gc
import io
import pickle
import pickletools
import struct
import sys

import BTrees
from persistent import Persistent
from BTrees import check as btcheck

sys.setrecursionlimit(20000)   # pickling a tree without ZODB recurses along
                               # the bucket chain

FAMILIES = ['OO', 'OI', 'OL', 'OU', 'OQ', 'IO', 'II', 'IF', 'IU',
            'LO', 'LL', 'LF', 'LQ', 'UO', 'UU', 'UF', 'UI',
            'QO', 'QQ', 'QF', 'QL', 'fs']
KINDS = ['Bucket', 'Set', 'BTree', 'TreeSet']
PROTOCOLS = range(0, pickle.HIGHEST_PROTOCOL + 1)
assert list(PROTOCOLS) == [0, 1, 2, 3, 4, 5]

CHECKS = [0]


def ok(cond, *msg):
    CHECKS[0] += 1
    if not cond:
        raise AssertionError(' '.join(str(m) for m in msg))


def mod(fam):
    return __import__('BTrees.%sBTree' % fam, fromlist=['*'])


def cls_of(fam, kind, impl):
    """impl is 'C' or 'Py'."""
    m = mod(fam)
    c = getattr(m, fam + kind + ('Py' if impl == 'Py' else ''))
    if impl == 'C':
        ok(c is not getattr(m, fam + kind + 'Py'), 'C extension missing', fam)
    return c


# ---------------------------------------------------------------------------
# keys and values of every native kind; i is a small non-negative integer and
# key(i) is strictly increasing in i
# ---------------------------------------------------------------------------
def key_of(fam, i):
    c = fam[0]
    if fam == 'fs':
        return struct.pack('>H', i)
    if c == 'O':
        return i
    if c == 'I':
        return i - 1000                       # negative and positive
    if c == 'L':
        return (i - 5) * (2 ** 33)            # needs 64 bits
    if c == 'U':
        return i + (2 ** 31 if i > 3 else 0)  # above the signed range
    if c == 'Q':
        return i * (2 ** 40) + (2 ** 63 if i > 3 else 0)
    raise AssertionError(fam)


def value_of(fam, i):
    c = fam[1]
    if fam == 'fs':
        return struct.pack('>HI', i, i * 7)
    if c == 'O':
        return ('v', i) if i % 3 else None
    if c == 'I':
        return -i
    if c == 'L':
        return -i * (2 ** 33)
    if c == 'U':
        return i + 2 ** 31
    if c == 'Q':
        return i + 2 ** 63
    if c == 'F':
        return i * 0.5                        # exact as a C float
    raise AssertionError(fam)


def is_set(kind):
    return 'Set' in kind


def build(cls, kind, fam, history, model=None):
    """Apply history (list of ('+', i) / ('-', i)) to a fresh container; the
    model (a dict) gets the same operations applied."""
    obj = cls()
    if model is None:
        model = {}
    for op, i in history:
        k = key_of(fam, i)
        if op == '+':
            if is_set(kind):
                obj.add(k)
                model[k] = None
            else:
                obj[k] = value_of(fam, i)
                model[k] = value_of(fam, i)
        else:
            if is_set(kind):
                obj.remove(k)
            else:
                del obj[k]
            del model[k]
    return obj, model


def contents(obj, kind):
    if is_set(kind):
        return [(k, None) for k in obj.keys()]
    return list(obj.items())


def expected(model):
    return sorted(model.items())


def leaf_size(fam, kind):
    return cls_of(fam, 'BTree', 'Py').max_leaf_size


def histories(fam):
    """name -> history.  Crosses the three state forms in both directions."""
    n = leaf_size(fam, 'BTree')
    grow = [('+', i) for i in range(2 * n + 7)]
    return {
        'empty': [],
        'one': [('+', 5)],
        'few': [('+', i) for i in (9, 2, 7, 4, 1, 8, 3)] + [('-', 7), ('-', 1)],
        'full-leaf': [('+', i) for i in range(n)],
        'just-split': [('+', i) for i in range(n + 1)],
        'grown': grow,
        'grown-shrunk': grow + [('-', i) for i in range(3, 2 * n + 7)],
        'grown-emptied': grow + [('-', i) for i in range(2 * n + 7)],
        'emptied-regrown': ([('+', 1), ('-', 1)] +
                            [('+', i) for i in (6, 5)]),
    }


# ---------------------------------------------------------------------------
# independent description of a state
# ---------------------------------------------------------------------------
def base_name(obj):
    n = type(obj).__name__      # type(), not __class__: the latter is swapped
    for suffix in ('_C', '_Py', 'Py'):
        if n.endswith(suffix):
            return n[:-len(suffix)]
    return n


def is_tree(x):
    return hasattr(x, '_firstbucket')


def is_node(x):
    return isinstance(x, Persistent)


def norm(x, seen=None):
    """Replace every node in a state by (class name, normalized state) so
    that C and Python states can be compared by value."""
    if seen is None:
        seen = {}
    if isinstance(x, tuple):
        return tuple(norm(e, seen) for e in x)
    if is_node(x):
        if id(x) in seen:
            return ('ref', seen[id(x)])
        seen[id(x)] = len(seen)
        return (base_name(x), norm(x.__getstate__(), seen))
    return x


def flat(model, kind):
    out = []
    for k, v in sorted(model.items()):
        out.append(k)
        if not is_set(kind):
            out.append(v)
    return tuple(out)


def leaf_items(leafstate, kind):
    items = leafstate[0]
    if is_set(kind):
        return [(k, None) for k in items]
    return [(items[i], items[i + 1]) for i in range(0, len(items), 2)]


def subtree_keys(node, kind):
    """Keys below a node, from the states alone (not following `next`)."""
    st = node.__getstate__()
    if not is_tree(node):
        return [k for k, _ in leaf_items(st, kind)]
    if st is None:
        return []
    if len(st) == 1:
        return [k for k, _ in leaf_items(st[0][0], kind)]
    out = []
    for child in st[0][::2]:
        out.extend(subtree_keys(child, kind))
    return out


def walk_state(obj, kind):
    """Contents reconstructed from __getstate__() alone, plus the form."""
    state = obj.__getstate__()
    if kind in ('Bucket', 'Set'):
        ok(isinstance(state, tuple) and len(state) in (1, 2), 'leaf form')
        return leaf_items(state, kind), 'leaf'
    if state is None:
        return [], 'none'
    ok(isinstance(state, tuple), 'tree state is a tuple')
    if len(state) == 1:
        ok(isinstance(state[0], tuple) and len(state[0]) == 1, 'embedded form')
        leafstate = state[0][0]
        ok(len(leafstate) == 1, 'embedded leaf has no next')
        return leaf_items(leafstate, kind), 'embedded'
    ok(len(state) == 2, 'tree form')
    items, first = state
    ok(len(items) % 2 == 1, 'odd number of entries')
    # descend along child 0 to the first leaf
    node = items[0]
    depth = 1
    while node is not None and is_tree(node):
        st = node.__getstate__()
        # (an inner node left with one oid-less leaf embeds it as well)
        node = st[0][0] if len(st) == 2 else None
        depth += 1
    ok(node is None or node is first, 'firstbucket is the leftmost leaf')
    out = []
    leaf = first
    nleaves = 0
    while leaf is not None:
        st = leaf.__getstate__()
        out.extend(leaf_items(st, kind))
        leaf = st[1] if len(st) == 2 else None
        nleaves += 1
    # separators bound their children
    for j in range(1, len(items), 2):
        sep, child = items[j], items[j + 1]
        ck = subtree_keys(child, kind)
        pk = subtree_keys(items[j - 1], kind)
        ok(not pk or pk[-1] < sep, 'separator above left child')
        ok(not ck or sep <= ck[0], 'separator not above right child')
    return out, 'tree/%d' % depth


def sound(obj, kind):
    if kind in ('BTree', 'TreeSet'):
        obj._check()
        if type(obj) in btcheck._type2kind:     # not for subclasses
            btcheck.check(obj)


class PyUnpickler(pickle.Unpickler):
    """Load a pickle into the pure-Python classes."""

    def find_class(self, module, name):
        if module.startswith('BTrees.') and not name.endswith('Py'):
            name += 'Py'
        return super().find_class(module, name)


def py_loads(data):
    return PyUnpickler(io.BytesIO(data)).load()


def ops(data):
    return [(o.name, a) for o, a, _ in pickletools.genops(data)]


def use(obj, kind, fam, model):
    """The loaded container must be fully usable."""
    model = dict(model)
    for i in (900, 0, 901):
        k = key_of(fam, i)
        if is_set(kind):
            obj.add(k)
            model[k] = None
        else:
            obj[k] = value_of(fam, i)
            model[k] = value_of(fam, i)
    for k in list(model)[::3]:
        if is_set(kind):
            obj.remove(k)
        else:
            del obj[k]
        del model[k]
    ok(contents(obj, kind) == expected(model), 'usable after load')
    ok(len(obj) == len(model))
    for k in model:
        ok(k in obj)
    sound(obj, kind)


def roundtrip_checks(fam, kind, hname, history, protocols=PROTOCOLS,
                     byte_identical=True, classes=None):
    """The C06 property for one (family, kind, history)."""
    objs = {}
    model = None
    for impl in ('C', 'Py'):
        cls = classes[impl] if classes else cls_of(fam, kind, impl)
        objs[impl], model = build(cls, kind, fam, history)
    exp = expected(model)
    tag = (fam, kind, hname)

    forms = {}
    for impl, obj in objs.items():
        ok(contents(obj, kind) == exp, tag, impl, 'history vs model')
        sound(obj, kind)
        got, forms[impl] = walk_state(obj, kind)
        ok(got == exp, tag, impl, 'state walk vs model', forms[impl])
    ok(forms['C'] == forms['Py'], tag, 'same state form', forms)
    ok(norm(objs['C'].__getstate__()) == norm(objs['Py'].__getstate__()),
       tag, 'normalized states equal')

    # independently computed state for the two simple forms
    if kind in ('BTree', 'TreeSet'):
        if not model:
            for obj in objs.values():
                ok(obj.__getstate__() is None, tag)
        elif forms['C'] == 'embedded':
            for obj in objs.values():
                ok(obj.__getstate__() == (((flat(model, kind),),),), tag)
    else:
        for obj in objs.values():
            ok(obj.__getstate__() == (flat(model, kind),), tag)

    if fam == 'fs' and forms['C'].startswith('tree'):
        # The Python fs tree shares one bytes object between a separator and
        # the leaf key it was copied from (pickle memoizes it); the C tree
        # stores char[2] and makes new objects.  Same values, other opcodes
        # - already so in the unmodified code; byte identity not checked.
        byte_identical = False
    for proto in protocols:
        dumps = {impl: pickle.dumps(obj, proto) for impl, obj in objs.items()}
        if byte_identical:
            ok(dumps['C'] == dumps['Py'], tag, proto, 'byte-identical pickles')
            ok(ops(dumps['C']) == ops(dumps['Py']), tag, proto)
        for src, data in dumps.items():
            for loader, dst in ((pickle.loads, 'C'), (py_loads, 'Py')):
                if classes and src != dst:
                    continue    # subclasses pickle under their own names
                new = loader(data)
                want = classes[dst] if classes else cls_of(fam, kind, dst)
                ok(type(new) is want, tag, proto, src, dst, type(new))
                ok(contents(new, kind) == exp, tag, proto, src, dst)
                ok(len(new) == len(exp) and bool(new) == bool(exp))
                sound(new, kind)
                ok(norm(new.__getstate__()) == norm(objs[src].__getstate__()))
                if byte_identical:
                    ok(pickle.dumps(new, proto) == data, tag, proto, 're-dump')
                if proto in (0, 2, 5):
                    use(new, kind, fam, model)

    # __getstate__/__setstate__ directly; copy; deepcopy
    for impl, obj in objs.items():
        cls = type(obj)
        new = cls()
        state = obj.__getstate__()
        new.__setstate__(state)
        ok(contents(new, kind) == exp, tag, impl, 'setstate(getstate)')
        ok(norm(new.__getstate__()) == norm(state))
        sound(new, kind)
        # loading a second, different state replaces the first one
        new.__setstate__(cls().__getstate__() if kind in ('BTree', 'TreeSet')
                         else ((),))
        ok(contents(new, kind) == [] and len(new) == 0, tag, impl, 'reset')
        new.__setstate__(state)
        ok(contents(new, kind) == exp, tag, impl, 'setstate twice')
        del new

        if not (classes and impl == 'Py'):
            # (a pure-Python *subclass* keeps its own name but its leaves
            # reduce to the C leaf class, which it then refuses: not covered)
            dc = copy.deepcopy(obj)
            ok(contents(dc, kind) == exp, tag, impl, 'deepcopy')
            sound(dc, kind)
            use(dc, kind, fam, model)
            ok(contents(obj, kind) == exp, tag, impl, 'deepcopy independent')
        if impl == 'C':
            # (copy.copy of a multi-level pure-Python tree hands Python nodes
            # to the C class and is not part of this demonstration)
            sc = copy.copy(obj)
            ok(type(sc) is cls and contents(sc, kind) == exp, tag, 'copy')
            sound(sc, kind)

    # direct cross-implementation setstate where the state holds no nodes
    st_c = objs['C'].__getstate__()
    if norm(st_c) == st_c:
        for a, b in (('C', 'Py'), ('Py', 'C')):
            new = type(objs[b])()
            new.__setstate__(objs[a].__getstate__())
            ok(contents(new, kind) == exp, tag, a, '->', b)
            sound(new, kind)
            use(new, kind, fam, model)
    return forms['C']


def expect_error(fn, exc_name, message=None):
    try:
        fn()
    except BaseException as e:      # noqa
        ok(type(e).__name__ == exc_name,
           'expected', exc_name, 'got', type(e).__name__, e)
        if message is not None:
            ok(str(e) == message, 'message', repr(str(e)), '!=', repr(message))
        return e
    raise AssertionError('no exception, expected ' + exc_name)


class Jar:
    """Minimal data manager: records change notifications."""

    def __init__(self):
        self.registered = []
        self.oids = 0

    def register(self, obj):
        self.registered.append(obj)

    def setstate(self, obj):
        raise AssertionError('unexpected ghost load')

    def adopt(self, obj):
        self.oids += 1
        obj._p_jar = self
        obj._p_oid = struct.pack('>Q', self.oids)


def make_small_subclasses(fam, kind):
    """Subclasses with tiny nodes so that short histories give deep trees."""
    out = {}
    for impl in ('C', 'Py'):
        base = cls_of(fam, kind, impl)
        name = 'Small_%s_%s_%s' % (fam, kind, impl)
        if name not in globals():
            globals()[name] = type(name, (base,), {
                'max_leaf_size': 4, 'max_internal_size': 3,
                '__module__': __name__, '__slots__': ()})
        out[impl] = globals()[name]
    return out


def common_checks(families=FAMILIES, kinds=KINDS):
    seen_forms = set()
    for fam in families:
        for kind in kinds:
            for hname, history in histories(fam).items():
                if kind in ('Bucket', 'Set') and hname.startswith('grown'):
                    history = history[:40] + [h for h in history[40:]
                                              if h[0] == '-' and h[1] < 40]
                form = roundtrip_checks(fam, kind, hname, history)
                seen_forms.add((kind in ('BTree', 'TreeSet'), form))
        # deep trees (3+ levels) through tiny-node subclasses
        for kind in ('BTree', 'TreeSet'):
            if kind not in kinds:
                continue
            classes = make_small_subclasses(fam, kind)
            deep = [('+', i) for i in range(60)]
            for hname, history in (
                    ('deep', deep),
                    ('deep-shrunk', deep + [('-', i) for i in range(54)]),
                    ('deep-holes', deep + [('-', i) for i in range(0, 60, 2)]),
            ):
                form = roundtrip_checks(fam, kind, hname, history,
                                        protocols=(0, 2, 5),
                                        byte_identical=False, classes=classes)
                seen_forms.add((True, form))
    return seen_forms


def check_forms(forms):
    """All three state forms were reached: None, embedded leaf, and
    children+separators+firstbucket with one and with several node levels."""
    ok((True, 'none') in forms and (True, 'embedded') in forms, forms)
    ok((True, 'tree/1') in forms, forms)
    ok(any(f[1] in ('tree/3', 'tree/4') for f in forms), forms)
    ok((False, 'leaf') in forms, forms)


# ---------------------------------------------------------------------------
# focus: BTreeTemplate.c _BTree_setstate(), the per-child part
# ---------------------------------------------------------------------------
def rc(o):
    return sys.getrefcount(o) - 1      # minus the argument reference


def focus_tree_setstate_children():
    # 1. embedded leaf, both the mapping (noval=0) and the set (noval=1) path,
    #    every family; the leaf that is created is the family's exact leaf type
    for fam in FAMILIES:
        for kind, leafkind in (('BTree', 'Bucket'), ('TreeSet', 'Set')):
            model = {}
            for i in (3, 1, 2):
                model[key_of(fam, i)] = (None if is_set(kind)
                                         else value_of(fam, i))
            state = (((flat(model, kind),),),)
            for impl in ('C', 'Py'):
                t = cls_of(fam, kind, impl)()
                ok(t.__setstate__(state) is None)
                ok(contents(t, kind) == expected(model), fam, kind, impl)
                ok(type(t._firstbucket) is cls_of(fam, leafkind, impl))
                ok(t._firstbucket.__getstate__() == (flat(model, kind),))
                ok(t.__getstate__() == state)
                sound(t, kind)
                use(t, kind, fam, model)

    # 2. ready-made children: accepted and rejected types (C implementation;
    #    messages recorded from the unmodified code)
    from BTrees.OOBTree import OOBTree, OOBucket, OOSet, OOTreeSet
    from BTrees.IIBTree import IIBTree, IIBucket, IISet, IITreeSet

    class SubBucket(OOBucket):
        pass

    class SubTree(OOBTree):
        pass

    b2 = SubBucket({5: 'b'})
    b1 = OOBucket()
    b1.__setstate__(((1, 'a'), b2))         # b1 -> b2
    # a leaf subclass is an instance of the leaf type: accepted
    t = OOBTree()
    t.__setstate__(((b1, 5, b2), b1))
    ok(t._firstbucket is b1 and list(t.items()) == [(1, 'a'), (5, 'b')])
    ok(t.__getstate__() == ((b1, 5, b2), b1))
    # a child tree of the exact type: accepted
    b0 = OOBucket({1: 'a'})
    inner = OOBTree()
    inner.__setstate__(((b0,), b0))
    outer = OOBTree()
    outer.__setstate__(((inner,), b0))
    ok(list(outer.items()) == [(1, 'a')])
    ok(outer.__getstate__() == ((inner,), b0))
    # a subclass of the tree type is not the same type: rejected
    sub = SubTree()
    sub.__setstate__(((b0,), b0))
    e = expect_error(lambda: OOBTree().__setstate__(((sub,), b1)),
                     'TypeError')
    ok(str(e).startswith('tree child ') and str(e).endswith(
        'SubTree is neither BTrees.OOBTree.OOBTree nor '
        'BTrees.OOBTree.OOBucket'), str(e))
    # ... but a SubTree accepts SubTree children
    sub2 = SubTree()
    sub2.__setstate__(((sub,), b0))
    ok(list(sub2.items()) == [(1, 'a')])

    table = [
        (OOBTree, ((1,),), 'TypeError',
         'tree child int is neither BTrees.OOBTree.OOBTree nor '
         'BTrees.OOBTree.OOBucket'),
        (OOBTree, ((b1, 2, None), b1), 'TypeError',
         'tree child NoneType is neither BTrees.OOBTree.OOBTree nor '
         'BTrees.OOBTree.OOBucket'),
        (OOBTree, ((OOSet(),),), 'TypeError',
         'tree child BTrees.OOBTree.OOSet is neither BTrees.OOBTree.OOBTree '
         'nor BTrees.OOBTree.OOBucket'),
        (OOTreeSet, ((OOBucket(),),), 'TypeError',
         'tree child BTrees.OOBTree.OOBucket is neither '
         'BTrees.OOBTree.OOTreeSet nor BTrees.OOBTree.OOSet'),
        (OOTreeSet, ((OOBTree(),),), 'TypeError',
         'tree child BTrees.OOBTree.OOBTree is neither '
         'BTrees.OOBTree.OOTreeSet nor BTrees.OOBTree.OOSet'),
        (IIBTree, ((OOBucket(),),), 'TypeError',
         'tree child BTrees.OOBTree.OOBucket is neither '
         'BTrees.IIBTree.IIBTree nor BTrees.IIBTree.IIBucket'),
        (IIBTree, ((IIBucket(), 'x', IIBucket()),), 'TypeError', None),
        (IITreeSet, ((IISet(), 2 ** 40, IISet()),), 'TypeError', None),
        # embedded leaf state that the leaf rejects
        (OOBTree, (((),),), 'TypeError',
         '__setstate__() takes at least 1 argument (0 given)'),
        (OOBTree, (((1, 2, 3),),), 'TypeError',
         '__setstate__() takes at most 2 arguments (3 given)'),
        (OOBTree, (((5,),),), 'TypeError',
         'tuple required for first state element'),
        (OOTreeSet, (((5,),),), 'TypeError',
         'tuple required for first state element'),
        (OOTreeSet, (((),),), 'TypeError', None),
        (IIBTree, ((((1, 2, 'x', 4),),),), 'TypeError', None),
        (IITreeSet, ((((1, 'x'),),),), 'TypeError', None),
        # first bucket problems after all children were accepted
        (OOBTree, ((inner,),), 'TypeError',
         'No firstbucket in non-empty BTree'),
        (OOBTree, ((b1,), 5), 'TypeError',
         'No firstbucket in non-empty BTree'),
    ]
    for cls, state, exc, msg in table:
        t = cls()
        expect_error(lambda: t.__setstate__(state), exc, msg)
        # whatever was loaded before the failure is not visible
        ok(len(t) == 0 and list(t.keys()) == [] and not t, cls, state)
        # and the object can still be given a proper state afterwards
        t.__setstate__(None)
        ok(t.__getstate__() is None)

    # 3. reference counts: a loaded tree owns one reference to every child
    #    and one more to its first bucket
    buckets = [OOBucket({i: i}) for i in range(0, 50, 10)]
    for a, b in zip(buckets, buckets[1:]):
        a.__setstate__((a.__getstate__()[0], b))
    seps = [object.__new__(type('K', (int,), {}), i) for i in range(10, 50, 10)]
    items = [buckets[0]]
    for s, b in zip(seps, buckets[1:]):
        items += [s, b]
    items = tuple(items)
    before = [rc(b) for b in buckets]
    before_seps = [rc(s) for s in seps]
    t = OOBTree()
    t.__setstate__((items, buckets[0]))
    ok([rc(b) for b in buckets] ==
       [before[0] + 2] + [n + 1 for n in before[1:]])
    ok([rc(s) for s in seps] == [n + 1 for n in before_seps])
    ok(list(t.keys()) == list(range(0, 50, 10)))
    t.__setstate__(None)
    ok([rc(b) for b in buckets] == before)
    ok([rc(s) for s in seps] == before_seps)
    # without an explicit firstbucket, child 0 is used
    t.__setstate__(((buckets[0],),))
    ok(rc(buckets[0]) == before[0] + 2 and t._firstbucket is buckets[0])
    del t
    ok(rc(buckets[0]) == before[0])

    # rejected child in the middle: recorded behaviour of the unmodified
    # code is that children accepted before the failure stay referenced
    before = [rc(b) for b in buckets]
    t = OOBTree()
    expect_error(lambda: t.__setstate__(
        ((buckets[0], 10, buckets[1], 20, 7), buckets[0])), 'TypeError')
    del t
    gc.collect()
    ok([rc(b) - n for b, n in zip(buckets, before)] == [1, 1, 0, 0, 0],
       [rc(b) - n for b, n in zip(buckets, before)])

    # embedded leaf that fails half-way (second key is not an int): the
    # first value had been stored already
    from BTrees.IOBTree import IOBTree
    v = ['value']
    n0 = rc(v)
    t = IOBTree()
    expect_error(lambda: t.__setstate__(((((1, v, 'x', v),),),)), 'TypeError')
    ok(len(t) == 0)
    del t
    gc.collect()
    ok(rc(v) - n0 == 1, rc(v) - n0)

    # 4. no change notification from __getstate__/__setstate__
    jar = Jar()
    t = OOBTree()
    jar.adopt(t)
    t.__setstate__(((b1, 5, b2), b1))
    ok(t._p_changed is False and jar.registered == [])
    t.__getstate__()
    ok(t._p_changed is False and jar.registered == [])
    t[7] = 7            # goes to b2, which has no jar: nothing to report
    ok(jar.registered == [])
    # a persistent single child is stored by reference, not embedded
    t = OOBTree({1: 1})
    ok(len(t.__getstate__()) == 1)
    jar.adopt(t._firstbucket)
    fb = t._firstbucket
    ok(t.__getstate__() == ((fb,), fb))
    t2 = pickle.loads(pickle.dumps(t, 2))
    ok(list(t2.items()) == [(1, 1)])
    sound(t2, 'BTree')


def main():
    forms = common_checks()
    check_forms(forms)
    focus_tree_setstate_children()
    print('OK: %d checks' % CHECKS[0])


if __name__ == '__main__':
    main()
