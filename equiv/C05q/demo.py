# Equivalence demonstration for refactoring C05q (property C05: evicting nodes
# from the object cache never changes behaviour).
# Run as:  PYTHONPATH=<worktree>/src /venv/bin/python demo.py
# Exit status 0 = every check passed and the digest of all observations equals
# the one recorded with the unmodified sources.
#
# ---------------------------------------------------------------------------
# Shared harness: a ZODB-free object cache ("jar") for BTrees nodes.
#
# * Jar keeps the committed state of every persistent node (the tuples returned
#   by __getstate__, which reference the child nodes directly), hands out oids,
#   and owns a persistent.PickleCache, so nodes can really be turned into
#   ghosts (_p_deactivate) and are reloaded through Jar.setstate().
# * sweep() plays the role of cache.minimize(): it asks *every* node to become
#   a ghost.  Nodes that are pinned (sticky, _p_state == 2) or modified refuse.
# * K is an object key whose comparisons call a hook, so that a sweep (or an
#   exception) can be placed inside any key comparison of an operation.
# ---------------------------------------------------------------------------
import hashlib
import random
import sys

from persistent import Persistent, PickleCache

GHOST, UPTODATE, CHANGED, STICKY = -1, 0, 1, 2


class LoadFailure(Exception):
    """Raised by Jar.setstate() when a fault is injected."""


class CmpError(Exception):
    """Raised by K comparisons when a fault is injected."""


class Jar(object):

    def __init__(self):
        self.cache = PickleCache(self, 100000)
        self.states = {}
        self.order = []          # nodes, in oid order
        self.loads = 0
        self.fail_at = None      # fail the n-th load from now (1-based)
        self.fail_only = None    # ... counting only nodes accepted by this
        self.log = []            # oids loaded, in order

    # -- data manager protocol used by persistent --------------------------
    def setstate(self, obj):
        self.loads += 1
        if self.fail_at is not None and (
                self.fail_only is None or self.fail_only(obj)):
            self.fail_at -= 1
            if self.fail_at == 0:
                self.fail_at = None
                raise LoadFailure(obj._p_oid)
        self.log.append(obj._p_oid)
        obj.__setstate__(self.states[obj._p_oid])

    def register(self, obj):
        pass

    def readCurrent(self, obj):
        pass

    # -- "transaction" ------------------------------------------------------
    def commit(self, root):
        """Give oids to new nodes reachable from root, save changed states."""
        seen = set()
        todo = [root]
        while todo:
            o = todo.pop()
            if id(o) in seen:
                continue
            seen.add(id(o))
            new = o._p_jar is None
            if new:
                o._p_oid = (len(self.order) + 1).to_bytes(8, 'big')
                o._p_jar = self
                self.cache[o._p_oid] = o
                self.order.append(o)
            if o._p_state == GHOST and not new:
                st = self.states[o._p_oid]      # unchanged, do not load
            else:
                st = o.__getstate__()
                if new or o._p_changed:
                    self.states[o._p_oid] = st
                    o._p_changed = False
            stack = [st]
            while stack:
                s = stack.pop()
                if isinstance(s, tuple):
                    stack.extend(s)
                elif isinstance(s, Persistent):
                    todo.append(s)

    # -- cache control / observation ---------------------------------------
    def sweep(self):
        for o in self.order:
            o._p_deactivate()

    def states_vector(self):
        return tuple(o._p_state for o in self.order)

    def sticky(self):
        return [o._p_oid for o in self.order if o._p_state == STICKY]

    def lru(self):
        return tuple(oid for oid, _ in self.cache.lru_items())


class K(object):
    """Totally ordered object key; every comparison calls K.hook()."""
    __slots__ = ('v',)
    hook = None

    def __init__(self, v):
        self.v = v

    def _c(self, other):
        h = K.hook
        if h is not None:
            h()
        return other.v

    def __lt__(self, other):
        return self.v < self._c(other)

    def __le__(self, other):
        return self.v <= self._c(other)

    def __gt__(self, other):
        return self.v > self._c(other)

    def __ge__(self, other):
        return self.v >= self._c(other)

    def __eq__(self, other):
        if not isinstance(other, K):
            return NotImplemented
        return self.v == self._c(other)

    def __ne__(self, other):
        if not isinstance(other, K):
            return NotImplemented
        return self.v != self._c(other)

    def __hash__(self):
        return hash(self.v)

    def __repr__(self):
        return 'K(%r)' % (self.v,)


def plain(x):
    """Normalise a result so that it can be compared / hashed."""
    if isinstance(x, K):
        return ('K', x.v)
    if isinstance(x, (tuple, list)):
        return tuple(plain(y) for y in x)
    return x


def outcome(fn, *args):
    """('ok', result) or ('err', exception class name)."""
    try:
        return ('ok', plain(fn(*args)))
    except Exception as e:      # noqa
        return ('err', type(e).__name__)


class Trace(object):
    """Everything observed, folded into one digest."""

    def __init__(self):
        self.h = hashlib.sha256()
        self.n = 0

    def add(self, *things):
        self.n += 1
        self.h.update(repr(things).encode('ascii', 'backslashreplace'))
        self.h.update(b'\n')

    def digest(self):
        return self.h.hexdigest()[:24]


failures = []


def check(cond, *msg):
    if not cond:
        failures.append(msg)
        if len(failures) <= 20:
            print('FAIL:', *msg)


def small(cls, leaf=4, internal=4):
    """Subclass of a tree class with tiny nodes (=> deep trees)."""
    return type(cls)('Small' + cls.__name__, (cls,),
                     {'max_leaf_size': leaf, 'max_internal_size': internal})


def finish(trace, expected):
    d = trace.digest()
    print('observations: %d   digest: %s' % (trace.n, d))
    if expected is None:
        print('(no recorded digest)')
    else:
        check(d == expected, 'digest differs from the recorded one', expected)
    if failures:
        print('%d check(s) FAILED' % len(failures))
        sys.exit(1)
    print('OK')
    sys.exit(0)
# ---------------------------------------------------------------------------
# C05q: PreviousBucket -- walking the bucket chain backwards.  Reached from
#   * BTreeItems_seek (indexing keys()/values()/items() towards the left)
#   * BTree_rangeSearch (excludemax=True when the last bucket holds one key)
# ---------------------------------------------------------------------------
from BTrees.OOBTree import OOBTree, OOTreeSet
from BTrees.IOBTree import IOBTree
from BTrees.LFBTree import LFBTree

EXPECTED_DIGEST = "88d220682c2a712ffe03f771"   # recorded with the unmodified sources

trace = Trace()
rng = random.Random(1717)


def build(cls, keys, mk):
    is_set = 'Set' in cls.__name__
    t = small(cls)()
    for k in keys:
        if is_set:
            t.add(mk(k))
        else:
            t[mk(k)] = k * 10
    jar = Jar()
    jar.commit(t)
    return t, jar


def evict(jar, how):
    if how == 'all':
        jar.sweep()
    elif how == 'random':
        for i in range(len(jar.order)):
            if rng.random() < 0.5:
                jar.order[i]._p_deactivate()


def observe(jar, *what):
    check(not jar.sticky(), what, 'pinned after return', jar.sticky())
    trace.add(what, jar.states_vector(), jar.lru())


def seek_tests(cls, keys, mk, label, kind):
    """Index a BTreeItems object in all directions, against a list model."""
    is_set = 'Set' in cls.__name__
    t, jar = build(cls, keys, mk)
    if kind == 'keys':
        model = [plain(mk(k)) for k in keys]
        view = lambda *a, **kw: t.keys(*a, **kw)              # noqa
    elif kind == 'values':
        model = [k * 10 for k in keys]
        view = lambda *a, **kw: t.values(*a, **kw)            # noqa
    else:
        model = [(plain(mk(k)), k * 10) for k in keys]
        view = lambda *a, **kw: t.items(*a, **kw)             # noqa
    n = len(model)
    jar.sweep()
    refs0 = [sys.getrefcount(o) for o in jar.order]

    # a fixed walk mixing short and long moves to the left and to the right,
    # including out-of-range indexes on both sides
    walk = [n - 1, 0, n // 2, n // 2 - 1, n // 2 - 6, -1, -2, -n, -n - 1,
            n, 3, 2, 1, 0, -1, -5, -9, -13, 5, -n + 1, n - 2, -3, 7, 6]
    walk += [rng.randrange(-n - 2, n + 2) for _ in range(60)]
    for how in ('all', 'random', 'none'):
        v = view()
        for i in walk:
            evict(jar, how)
            got = outcome(lambda: v[i])
            want = outcome(lambda: model[i])
            check(got == want, label, kind, how, i, got, want)
            observe(jar, label, kind, how, i, got)
        del v

    # a fresh view each time, straight to a negative index: the walk starts
    # at the first bucket and ends at the bucket before the current one
    for i in (-1, -2, -4, -5, -n // 2, -n + 3, -n):
        jar.sweep()
        v = view()
        got = outcome(lambda: v[i])
        check(got == outcome(lambda: model[i]), label, kind, 'fresh', i, got)
        observe(jar, label, kind, 'fresh', i, got)
        del v

    # slices are built from two seeks
    for lo, hi in ((-5, -1), (-n, 3), (2, -2), (-3, n + 5), (-1, -5)):
        jar.sweep()
        v = view()
        got = outcome(lambda: list(v[lo:hi]))
        want = outcome(lambda: model[lo:hi])
        check(got == want, label, kind, 'slice', lo, hi, got, want)
        observe(jar, label, kind, 'slice', lo, hi, got)
        del v

    # a view over a sub-range: its first bucket is not the tree's first bucket
    if kind == 'keys' and n > 40:
        lo, hi = keys[17], keys[n - 9]
        v = view(mk(lo), mk(hi))
        sub = [plain(mk(k)) for k in keys if lo <= k <= hi]
        for i in (len(sub) - 1, 0, -1, -2, -len(sub), -len(sub) - 1, 4, 1, -7):
            evict(jar, 'all')
            got = outcome(lambda: v[i])
            want = outcome(lambda: sub[i])
            check(got == want, label, 'range', i, got, want)
            observe(jar, label, 'range', i, got)
        del v

    # reversed() indexes through the sequence slot (no length computation
    # before each seek): every step is a move to the left by one, and every
    # bucket boundary is a walk from the first bucket with whatever happens
    # to be loaded
    for how in ('all', 'random', 'none'):
        v = view()
        got = []
        for x in reversed(v):
            got.append(plain(x))
            evict(jar, how)
            observe(jar, label, kind, 'reversed', how, got[-1])
        check(got == model[::-1], label, kind, 'reversed', how)
        del v

    # the m-th reload fails while stepping to the left
    for steps in sorted(set(x for x in (0, 1, 5, n // 2) if x < n)):
        m = 0
        while True:
            m += 1
            v = view()
            it = reversed(v)
            for _ in range(steps):
                next(it)
            jar.sweep()
            jar.fail_at = m
            got = outcome(next, it)
            fired = jar.fail_at is None
            jar.fail_at = None
            observe(jar, label, kind, 'loadfail', steps, m, got)
            if not fired:
                check(got == ('ok', model[n - 1 - steps]), label, 'E', got)
                break
            check(got == ('err', 'LoadFailure'), label, kind, 'E', steps, m, got)
            # the view itself is still usable afterwards
            again = outcome(lambda: v[n - 1 - steps])
            check(again == ('ok', model[n - 1 - steps]), label, 'E again', again)
            observe(jar, label, kind, 'after loadfail', steps, m, again)
            del v, it

    # v[i] computes len(v) first and ignores a failure of that; whatever
    # comes out (recorded below), nothing may stay pinned
    for i in (-1, -6):
        for m in (1, 2, 3, 7):
            v = view()
            jar.sweep()
            jar.fail_at = m
            got = outcome(lambda: v[i])
            jar.fail_at = None
            observe(jar, label, kind, 'subscript loadfail', i, m, got)
            del v

    v = it = None
    jar.sweep()
    check(all(s == GHOST for s in jar.states_vector()), label, 'not evictable')
    check(refs0 == [sys.getrefcount(o) for o in jar.order], label, kind,
          'node reference counts changed')
    t._check()


def unlinked_bucket_test():
    """The current bucket of a view gets unlinked from the chain: the walk
    runs off the end of the chain (PreviousBucket's 'no such bucket')."""
    keys = list(range(100))
    t, jar = build(IOBTree, keys, lambda k: k)
    v = t.keys()
    check(v[50] == 50, 'unlinked: seek')
    # find the bucket holding 50 and empty it
    b = t._firstbucket
    while 50 not in b:
        b = b._next
    doomed = list(b.keys())
    for k in doomed:
        del t[k]
    jar.commit(t)
    jar.sweep()
    for i in (0, 10, -1, 49):
        got = outcome(lambda: v[i])
        observe(jar, 'unlinked', i, got)
        # walking left from a bucket that is no longer in the chain cannot
        # succeed; whatever it reports, it must not pin anything
        trace.add('unlinked', i, got)
    live = [k for k in keys if k not in doomed]
    check(list(t.keys()) == live, 'unlinked: contents')
    t._check()


def excludemax_tests(cls, mk, label):
    """keys(excludemax=True) when the last bucket holds a single key."""
    keys = list(range(0, 120, 3))
    t, jar = build(cls, keys, mk)
    model = list(keys)
    # shrink the last bucket down to one key, then to nothing, repeatedly
    for rounds in range(12):
        for how in ('all', 'random'):
            for kw in (dict(excludemax=True),
                       dict(excludemin=True, excludemax=True),
                       dict(min=mk(model[2]), excludemax=True),
                       dict(max=None, excludemax=True, excludemin=False)):
                evict(jar, how)
                got = outcome(lambda: list(t.keys(**kw)))
                want = model[:-1]
                if kw.get('excludemin'):
                    want = want[1:]
                if 'min' in kw:
                    want = [k for k in want if k >= model[2]]
                want = ('ok', tuple(plain(mk(k)) for k in want))
                check(got == want, label, rounds, kw.keys(), got, want)
                observe(jar, label, 'excludemax', rounds, sorted(kw), got)
            # values() and items() go through the same code
            evict(jar, how)
            got = outcome(lambda: list(t.values(excludemax=True)))
            check(got == ('ok', tuple(k * 10 for k in model[:-1])), label, got)
            observe(jar, label, 'excludemax-values', rounds, got)
        # reload failures.  Only bucket loads are made to fail: the first
        # one is the last bucket itself, the following ones are the buckets
        # of the chain walked by PreviousBucket.  (A failing reload of an
        # interior node on the way to the last bucket is not survivable in
        # the unmodified sources either: BTree_lastBucket's NULL result is
        # not checked there.)
        jar.fail_only = lambda o: 'Bucket' in type(o).__name__
        m = 0
        while True:
            m += 1
            jar.sweep()
            jar.fail_at = m
            got = outcome(lambda: list(t.keys(excludemax=True)))
            fired = jar.fail_at is None
            jar.fail_at = None
            observe(jar, label, 'excludemax-loadfail', rounds, m, got)
            if not fired:
                break
            check(got == ('err', 'LoadFailure'), label, 'E', rounds, m, got)
        jar.fail_only = None
        last_bucket = t._firstbucket
        while last_bucket._next is not None:
            last_bucket = last_bucket._next
        trace.add(label, 'last bucket size', len(last_bucket))
        del last_bucket
        del t[mk(model.pop())]
        jar.commit(t)
    t._check()


keys = list(range(0, 300, 3))
for kind in ('keys', 'values', 'items'):
    seek_tests(OOBTree, keys, K, 'OO', kind)
seek_tests(IOBTree, keys, lambda k: k, 'IO', 'items')
seek_tests(LFBTree, keys, lambda k: k, 'LF', 'keys')
seek_tests(OOTreeSet, keys, K, 'OOTreeSet', 'keys')
seek_tests(IOBTree, list(range(3)), lambda k: k, 'IO-one-bucket', 'keys')
seek_tests(IOBTree, list(range(7)), lambda k: k, 'IO-two-buckets', 'items')
unlinked_bucket_test()
excludemax_tests(OOBTree, K, 'OO')
excludemax_tests(IOBTree, lambda k: k, 'IO')

finish(trace, EXPECTED_DIGEST)
