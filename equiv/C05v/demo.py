"""Differential demo for refactoring v (pure-Python bucket-chain walking).

Run as:  PYTHONPATH=<tree>/src /venv/bin/python demo.py

The pure-Python BTrees/TreeSets (BTrees._base: _Tree.__len__,
_Tree.__getstate__, _BucketBase._deleteNextBucket, _TreeItems.__getitem__ /
__len__ / __iter__) with tiny nodes live in a stand-in jar with a real
persistent.PickleCache.  Lengths, lazy key/value/item sequences (indexing in
both directions, negative and out-of-range indices, slices, iteration that is
interrupted by cache sweeps), deletions that unlink buckets from the chain,
saved states and pickles are compared with a sorted-list model, with a twin
that is never evicted and with the C implementation; sweeps happen between
calls, between two steps of an iteration, inside key comparisons of read-only
searches, and loads of chosen nodes fail.
"""
import hashlib
import pickle
import random
import sys

from persistent import PickleCache

from BTrees.IIBTree import IIBTree, IIBTreePy, IITreeSet, IITreeSetPy
from BTrees.LOBTree import LOBTree, LOBTreePy
from BTrees.OOBTree import OOBTree, OOBTreePy, OOTreeSet, OOTreeSetPy
from BTrees.OUBTree import OUBTree, OUBTreePy

GHOST, UPTODATE, CHANGED, STICKY = -1, 0, 1, 2

TRACE = hashlib.sha256()
CHECKS = [0]


def trace(*what):
    TRACE.update(repr(what).encode())


def check(cond, *msg):
    CHECKS[0] += 1
    if not cond:
        print("FAILED:", *msg)
        sys.exit(1)


class LoadError(Exception):
    pass


class Jar:
    """A tiny stand-in for a ZODB connection: states are kept in a dict."""

    def __init__(self):
        self.cache = PickleCache(self, 10000)
        self.store = {}
        self.objects = {}
        self.registered = []
        self.loads = 0
        self.fail = set()       # oids whose load fails
        self.on_load = None     # hook run inside setstate
        self.n = 0

    # -- protocol used by persistent --
    def setstate(self, ob):
        oid = ob._p_oid
        self.loads += 1
        trace('load', oid)
        if oid in self.fail:
            raise LoadError(oid)
        if self.on_load is not None:
            self.on_load(ob)
        ob.__setstate__(self.store[oid])

    def register(self, ob):
        self.registered.append(ob)

    def readCurrent(self, ob):
        pass

    # -- helpers --
    def _refs(self, state, out):
        if isinstance(state, tuple):
            for x in state:
                self._refs(x, out)
        elif hasattr(state, '_p_oid') and hasattr(state, '_p_jar'):
            out.append(state)

    def commit(self, root):
        todo = [root] + self.registered
        self.registered = []
        seen = set()
        while todo:
            ob = todo.pop()
            if id(ob) in seen:
                continue
            seen.add(id(ob))
            if ob._p_oid is not None and ob._p_state == GHOST:
                continue
            # state first: a tree inlines its only bucket while that bucket
            # has no oid yet, exactly as ZODB's serializer would see it
            state = ob.__getstate__()
            if ob._p_oid is None:
                self.n += 1
                oid = b'%08d' % self.n
                ob._p_jar = self
                ob._p_oid = oid
                self.cache[oid] = ob
                self.objects[oid] = ob
            self.store[ob._p_oid] = state
            ob._p_changed = False
            refs = []
            self._refs(state, refs)
            todo.extend(refs)

    def nodes(self):
        return [self.objects[k] for k in sorted(self.objects)]

    def sweep(self, rnd=None, p=1.0):
        """Evict (try to) every node, or a random subset."""
        for ob in self.nodes():
            if rnd is None or rnd.random() < p:
                ob._p_deactivate()

    def states(self):
        return [ob._p_state for ob in self.nodes()]

    def assert_unpinned(self, where):
        st = self.states()
        check(STICKY not in st, "a node is left sticky after", where, st)


def small(cls, leaf, internal):
    return type(cls)('Small' + cls.__name__, (cls,),
                     {'max_leaf_size': leaf, 'max_internal_size': internal})


def outcome(fn, *a, **k):
    try:
        return ('ok', fn(*a, **k))
    except LoadError as e:
        return ('LoadError', e.args)
    except (IndexError, KeyError, ValueError, TypeError, RuntimeError) as e:
        return (type(e).__name__, e.args)


def model_range(keys, lo, hi, exlo, exhi):
    out = []
    for k in keys:
        if lo is not None and (k < lo or (exlo and k == lo)):
            continue
        if hi is not None and (k > hi or (exhi and k == hi)):
            continue
        out.append(k)
    if lo is None and exlo and out:
        out = out[1:]
    if hi is None and exhi and out:
        out = out[:-1]
    return out


def maybe_sweep(rnd, jar):
    r = rnd.random()
    if r < 0.25:
        jar.sweep()
    elif r < 0.55:
        jar.sweep(rnd, 0.5)
    elif r < 0.6:
        jar.cache.minimize()


# ---------------------------------------------------------------------------
# 1. lazy sequences and lengths under eviction

def run_sequences(pycls, ccls, seed, keygen, mapping=True,
                  valuefn=lambda k: (k, 'v')):
    rnd = random.Random(seed)
    jar = Jar()
    T = small(pycls, 4, 3)
    C = small(ccls, 4, 3)
    tree = T()
    twin = T()
    ctree = C()
    keys = sorted(set(keygen(rnd) for _ in range(90)))
    for k in keys:
        if mapping:
            tree[k] = twin[k] = ctree[k] = valuefn(k)
        else:
            tree.add(k)
            twin.add(k)
            ctree.add(k)
    jar.commit(tree)
    check(len(jar.objects) > 20, "tree too flat", len(jar.objects))
    jar.sweep()
    check(len(tree) == len(keys), "len(tree)")
    jar.assert_unpinned('len')
    check(bool(tree), "bool(tree)")

    for rnd_no in range(50):
        if rnd.random() < 0.3:
            lo = hi = None
        else:
            lo = rnd.choice([None, keygen(rnd)])
            hi = rnd.choice([None, keygen(rnd)])
        exlo = rnd.random() < 0.3
        exhi = rnd.random() < 0.3
        expect = model_range(keys, lo, hi, exlo, exhi)
        kind = rnd.choice(['keys', 'values', 'items']) if mapping else 'keys'
        maybe_sweep(rnd, jar)
        seq = getattr(tree, kind)(lo, hi, exlo, exhi)
        tseq = getattr(twin, kind)(lo, hi, exlo, exhi)
        cseq = getattr(ctree, kind)(lo, hi, exlo, exhi)
        if kind == 'keys':
            want = expect
        elif kind == 'values':
            want = [valuefn(k) for k in expect]
        else:
            want = [(k, valuefn(k)) for k in expect]
        n = len(want)
        check(list(cseq) == want, "C implementation disagrees with model")
        # length first or indexing first, both orders
        if rnd.random() < 0.5:
            maybe_sweep(rnd, jar)
            check(len(seq) == n, "len(seq)", kind, lo, hi, exlo, exhi)
            check(len(seq) == n, "cached len(seq)")
        for step in range(20):
            maybe_sweep(rnd, jar)
            i = rnd.randint(-n - 3, n + 3)
            got = outcome(seq.__getitem__, i)
            ref = outcome(want.__getitem__, i)
            if ref[0] == 'IndexError':
                check(got[0] == 'IndexError', "IndexError expected", i, got)
            else:
                check(got == ref, "item", kind, i, got, ref)
            tw = outcome(tseq.__getitem__, i)
            check(tw == got, "twin differs", i, tw, got)
            jar.assert_unpinned('index')
            trace(kind, i, got, jar.states())
        maybe_sweep(rnd, jar)
        check(len(seq) == n, "len(seq) late")
        for step in range(5):
            a = rnd.randint(-n - 2, n + 2)
            b = rnd.randint(-n - 2, n + 2)
            maybe_sweep(rnd, jar)
            check(seq[a:b] == want[a:b], "slice", a, b)
        # iteration interrupted by sweeps
        got = []
        for x in seq:
            got.append(x)
            if rnd.random() < 0.3:
                jar.sweep(rnd, 0.7)
        check(got == want, "iteration", kind, lo, hi, exlo, exhi, got, want)
        got = []
        it = getattr(tree, 'iter' + kind)(lo, hi, exlo, exhi)
        for x in it:
            got.append(x)
            if rnd.random() < 0.3:
                jar.sweep()
        check(got == want, "iterXXX")
        trace(jar.states())
    trace(jar.loads)
    return jar.loads


# ---------------------------------------------------------------------------
# 2. histories with deletions that unlink buckets; states and lengths

def run_history(pycls, ccls, seed, mapping=True):
    rnd = random.Random(seed)
    jar = Jar()
    T = small(pycls, 4, 3)
    C = small(ccls, 4, 3)
    tree = T()
    twin = T()
    ctree = C()
    model = {}
    jar.commit(tree)
    universe = list(range(0, 400, 3))
    for step in range(1500):
        growing = (step // 250) % 2 == 0
        k = rnd.choice(universe)
        r = rnd.random()
        if r < (0.6 if growing else 0.15):
            if mapping:
                tree[k] = twin[k] = ctree[k] = step
                model[k] = step
            else:
                tree.add(k)
                twin.add(k)
                ctree.add(k)
                model[k] = None
        elif r < 0.8:
            if model:
                # delete runs of neighbours so that whole buckets go away
                ks = sorted(model)
                at = rnd.randrange(len(ks))
                for kk in ks[at:at + rnd.randint(1, 6)]:
                    if mapping:
                        del tree[kk], twin[kk], ctree[kk]
                    else:
                        tree.remove(kk)
                        twin.remove(kk)
                        ctree.remove(kk)
                    del model[kk]
                    if rnd.random() < 0.3:
                        jar.sweep(rnd, 0.5)
        elif r < 0.9:
            jar.commit(tree)
            maybe_sweep(rnd, jar)
        else:
            maybe_sweep(rnd, jar)
        if step % 7 == 0:
            n = len(model)
            check(len(tree) == n == len(twin) == len(ctree), "len", step,
                  len(tree), n)
            check(bool(tree) == bool(n), "bool")
            ks = tree.keys()
            check(len(ks) == n, "len(keys())")
            if n:
                i = rnd.randrange(n)
                check(ks[i] == sorted(model)[i], "keys()[i]")
                check(ks[-1] == max(model), "keys()[-1]")
            else:
                check(outcome(ks.__getitem__, 0)[0] == 'IndexError', "empty")
            jar.assert_unpinned('len')
        if step % 50 == 0:
            tree._check()
            check(list(tree) == sorted(model) == list(ctree), "keys", step)
            # the state that would be written, for every interior node
            for node in [tree, twin] + jar.nodes():
                if hasattr(node, '_firstbucket'):
                    st = node.__getstate__()
                    check(st == expected_state(node), "state", st)
            trace('state', shape(tree.__getstate__()), jar.states())
    jar.commit(tree)
    jar.sweep()
    check(list(tree.items() if mapping else tree) ==
          (sorted(model.items()) if mapping else sorted(model)), "final")
    trace(jar.loads)
    return jar.loads


def expected_state(node):
    """What _Tree.__getstate__ has to return, spelled out independently."""
    items = node._data
    if not items:
        return None
    only = items[0].child
    if len(items) == 1 and type(only) is not type(node) \
            and only._p_oid is None:
        return ((only.__getstate__(),),)
    flat = []
    for n, item in enumerate(items):
        if n:
            flat.append(item.key)
        flat.append(item.child)
    return (tuple(flat), node._firstbucket)


def shape(state):
    """A state with the persistent nodes replaced by their summaries."""
    if state is None:
        return None
    if isinstance(state, tuple):
        return tuple(shape(x) for x in state)
    if hasattr(state, '_p_oid') and hasattr(state, '__getstate__'):
        return (type(state).__name__, shape(state.__getstate__()))
    return state


# ---------------------------------------------------------------------------
# 3. pickles and saved states of trees in every shape

def run_pickles():
    out = []
    for pycls, ccls, mapping in ((OOBTreePy, OOBTree, True),
                                 (IIBTreePy, IIBTree, True),
                                 (LOBTreePy, LOBTree, True),
                                 (OOTreeSetPy, OOTreeSet, False),
                                 (IITreeSetPy, IITreeSet, False)):
        for n in (0, 1, 5, 30, 31, 200, 1000):
            p = pycls()
            c = ccls()
            for i in range(n):
                k = (i * 37) % 1009
                if mapping:
                    p[k] = c[k] = i
                else:
                    p.add(k)
                    c.add(k)
            sp = shape(p.__getstate__())
            sc = shape(c.__getstate__())
            # class names differ (Py suffix); compare the pickles instead
            for proto in (2, 3, pickle.HIGHEST_PROTOCOL):
                dp = pickle.dumps(p, proto)
                dc = pickle.dumps(c, proto)
                check(dp == dc, "pickle differs from the C one",
                      pycls.__name__, n, proto)
            q = pickle.loads(dp)
            check(type(q) is ccls, "unpickled type")
            check(list(q) == list(p) == list(c), "unpickled content")
            check(len(q) == len(p) == n, "unpickled len")
            r = pycls()
            r.__setstate__(p.__getstate__())
            check(list(r) == list(p) and len(r) == n, "setstate/getstate")
            r._check()
            out.append((pycls.__name__, n, hashlib.sha256(dp).hexdigest()))
            trace(out[-1], repr(sp) if n < 40 else len(repr(sp)))
            check((sp is None) == (sc is None) == (n == 0), "empty state")
    return len(out)


# ---------------------------------------------------------------------------
# 4. sweeps inside the comparisons of read-only searches; failing loads

class Key:
    hook = None
    __slots__ = ('v',)

    def __init__(self, v):
        self.v = v

    def __lt__(self, other):
        if Key.hook is not None:
            Key.hook()
        if not isinstance(other, Key):
            return NotImplemented
        return self.v < other.v

    def __eq__(self, other):
        if Key.hook is not None:
            Key.hook()
        return isinstance(other, Key) and self.v == other.v

    def __hash__(self):
        return hash(self.v)

    def __repr__(self):
        return 'Key(%r)' % (self.v,)


def run_compare_sweeps(seed):
    rnd = random.Random(seed)
    jar = Jar()
    T = small(OOBTreePy, 4, 3)
    tree = T()
    vals = sorted(rnd.sample(range(1000), 70))
    for v in vals:
        tree[Key(v)] = v
    jar.commit(tree)
    count = [0]

    def hook():
        count[0] += 1
        jar.sweep()
        trace('cmp', jar.states())

    for rnd_no in range(80):
        lo = rnd.choice([None, rnd.randint(-10, 1010)])
        hi = rnd.choice([None, rnd.randint(-10, 1010)])
        exlo = rnd.random() < 0.3
        exhi = rnd.random() < 0.3
        want = model_range(vals, lo, hi, exlo, exhi)
        klo = None if lo is None else Key(lo)
        khi = None if hi is None else Key(hi)
        Key.hook = hook
        try:
            seq = tree.values(klo, khi, exlo, exhi)
            n = len(seq)
            got = list(seq)
            picks = [outcome(seq.__getitem__, i)
                     for i in (0, -1, n // 2, n, 1, 0)]
        finally:
            Key.hook = None
        check(n == len(want) and got == want, "values with sweeping "
              "comparisons", lo, hi, exlo, exhi, got, want)
        refs = [outcome(want.__getitem__, i) for i in (0, -1, n // 2, n, 1, 0)]
        check([p[0] for p in picks] == [r[0] for r in refs], "picks", picks)
        check([p for p in picks if p[0] == 'ok'] ==
              [r for r in refs if r[0] == 'ok'], "picks", picks, refs)
        jar.assert_unpinned('range search')
    check(count[0] > 300, "comparison hook did not run", count[0])
    return count[0]


def run_load_failures(seed):
    rnd = random.Random(seed)
    jar = Jar()
    T = small(IIBTreePy, 4, 3)
    tree = T()
    keys = list(range(0, 300, 3))
    for k in keys:
        tree[k] = -k
    jar.commit(tree)
    leaves = [ob for ob in jar.nodes() if type(ob).__name__.endswith('BucketPy')]
    check(len(leaves) > 20, "leaves", len(leaves))
    nfail = 0
    for victim in leaves:
        jar.sweep()
        jar.fail = {victim._p_oid}
        got = outcome(len, tree)
        check(got[0] == 'LoadError', "len with a failing bucket", got)
        seq = tree.keys()
        jar.sweep()
        got_len = outcome(len, seq)
        got_list = outcome(list, tree.items(10, 290))
        seq2 = tree.keys()
        got_last = outcome(seq2.__getitem__, -1)
        got_idx = outcome(seq2.__getitem__, len(keys) - 1)
        nfail += [got_len[0], got_list[0], got_last[0],
                  got_idx[0]].count('LoadError')
        jar.fail = set()
        jar.assert_unpinned('failing loads')
        # afterwards everything works again
        check(len(tree) == len(keys), "len after failure")
        seq3 = tree.keys()
        check(len(seq3) == len(keys) and seq3[-1] == keys[-1] and
              list(seq3) == keys, "sequence after failure")
        check(victim._p_state != GHOST, "victim was not reloaded")
        # what a sequence does after its walk was interrupted by a failure
        again = (outcome(len, seq), outcome(seq2.__getitem__, 3),
                 outcome(seq2.__getitem__, len(keys) - 1))
        trace('loadfail', got_len, got_list[0], got_last, got_idx, again,
              jar.states())
    check(nfail > 60, "failing loads were not reached", nfail)
    return nfail


def main():
    loads = []
    loads.append(run_sequences(IIBTreePy, IIBTree, 31,
                               lambda r: r.randint(-500, 500),
                               valuefn=lambda k: 2 * k + 1))
    loads.append(run_sequences(OOBTreePy, OOBTree, 32,
                               lambda r: 'k%04d' % r.randint(0, 999)))
    loads.append(run_sequences(LOBTreePy, LOBTree, 33,
                               lambda r: r.randint(-2 ** 40, 2 ** 40)))
    loads.append(run_sequences(OUBTreePy, OUBTree, 34,
                               lambda r: (r.randint(0, 30), r.randint(0, 30)),
                               valuefn=lambda k: k[0] * 100 + k[1]))
    loads.append(run_sequences(IITreeSetPy, IITreeSet, 35,
                               lambda r: r.randint(-500, 500), mapping=False))
    loads.append(run_sequences(OOTreeSetPy, OOTreeSet, 36,
                               lambda r: 'k%04d' % r.randint(0, 999),
                               mapping=False))
    hist = [run_history(IIBTreePy, IIBTree, 41),
            run_history(OOBTreePy, OOBTree, 42),
            run_history(IITreeSetPy, IITreeSet, 43, mapping=False)]
    npick = run_pickles()
    ncmp = run_compare_sweeps(44)
    nfail = run_load_failures(45)
    print("loads:", loads, hist)
    print("pickles:", npick, "comparisons:", ncmp, "failing loads:", nfail)
    print("checks:", CHECKS[0], "trace digest:", TRACE.hexdigest())
    print("OK")


if __name__ == '__main__':
    main()
