"""Differential demo for refactoring t (C Set in-place operators ``^=`` / ``&=``).

Run as:  PYTHONPATH=<tree>/src /venv/bin/python demo.py

Exercises ``set_ixor`` / ``set_iand`` of the C ``Set`` of several families
(and, as a cross check, the C ``TreeSet`` twins, the pure-Python classes and
the other in-place operators) against a plain ``set`` model:

 * results, identity of the result (``r is s``), sortedness and pickled state;
 * every kind of right-hand operand (Set, TreeSet, Bucket, BTree, list with
   duplicates, unsorted tuple, generator, dict, frozenset, keys view, self);
 * the right-hand operand is never modified;
 * error paths: non-iterable operand, iterator failing half way, key of the
   wrong type, key that cannot be compared, failed activation of a ghost;
 * reference counts of self, of the operand and of object keys;
 * persistence effects (``_p_changed`` / registration with a stand-in jar).

Exits 0 when everything behaves as specified.
"""
import gc
import importlib
import operator
import pickle
import random
import sys

import persistent  # noqa: F401  (must be importable)

SEED = 20260930
FAMILIES = ['OO', 'II', 'LL', 'IO', 'OI', 'LO', 'LF', 'UU', 'QQ', 'IF',
            'OL', 'QO', 'UO', 'fs']

checks = 0


def ok(cond, *msg):
    global checks
    checks += 1
    if not cond:
        raise AssertionError(' '.join(str(m) for m in msg))


def mod(fam):
    return importlib.import_module('BTrees.%sBTree' % fam)


def keygen(fam, rnd):
    """Return a function producing a random key for the family."""
    k = fam[0]
    if fam == 'fs':
        alphabet = b'abcdefgh'
        return lambda: bytes([rnd.choice(alphabet), rnd.choice(alphabet)])
    if k == 'O':
        return lambda: rnd.randrange(-40, 40)
    if k in 'IL':
        return lambda: rnd.randrange(-40, 40)
    if k in 'UQ':
        return lambda: rnd.randrange(0, 80)
    raise AssertionError(fam)


def valfor(fam, key):
    v = fam[1]
    if fam == 'fs':
        return b'v' + key[:1] + b'....'[:4]
    if v == 'O':
        return ('v', key)
    if v == 'F':
        return float(abs(key)) / 2
    if v in 'UQ':
        return abs(key)
    return key * 2 if isinstance(key, int) else 1


class Jar:
    """A tiny stand-in for a ZODB connection."""

    def __init__(self):
        self.registered = []
        self.states = {}
        self.fail = False
        self.loads = 0

    def register(self, obj):
        self.registered.append(obj)

    def setstate(self, obj):
        self.loads += 1
        if self.fail:
            raise RuntimeError('cannot load %r' % (obj._p_oid,))
        obj.__setstate__(self.states[obj._p_oid])


def small_treeset(m, fam, py=False):
    base = getattr(m, fam + 'TreeSet' + ('Py' if py else ''))

    class SmallTreeSet(base):
        max_leaf_size = 3
        max_internal_size = 2
    return SmallTreeSet


def small_btree(m, fam, py=False):
    base = getattr(m, fam + 'BTree' + ('Py' if py else ''))

    class SmallBTree(base):
        max_leaf_size = 3
        max_internal_size = 2
    return SmallBTree


def operands(m, fam, keys, rnd):
    """All the shapes of right-hand operand holding exactly *keys*.

    Yields (label, factory, snapshot) where factory() builds a fresh operand
    and snapshot(obj) captures its contents (None for one-shot iterators).
    """
    keys = list(keys)
    dup = keys + keys[:len(keys) // 2 + 1]
    rnd.shuffle(dup)
    shuffled = list(keys)
    rnd.shuffle(shuffled)
    Set = getattr(m, fam + 'Set')
    Bucket = getattr(m, fam + 'Bucket')
    TS = small_treeset(m, fam)
    BT = small_btree(m, fam)
    SetPy = getattr(m, fam + 'SetPy')
    TSPy = small_treeset(m, fam, py=True)
    pairs = [(k, valfor(fam, k)) for k in keys]
    return [
        ('Set', lambda: Set(keys), list),
        ('TreeSet', lambda: TS(keys), list),
        ('Bucket', lambda: Bucket(dict(pairs)), lambda o: list(o.items())),
        ('BTree', lambda: BT(dict(pairs)), lambda o: list(o.items())),
        ('SetPy', lambda: SetPy(keys), list),
        ('TreeSetPy', lambda: TSPy(keys), list),
        ('list+dups', lambda: list(dup), list),
        ('tuple', lambda: tuple(shuffled), list),
        ('generator', lambda: (k for k in dup), None),
        ('iter', lambda: iter(shuffled), None),
        ('dict', lambda: dict(pairs), lambda o: list(o.items())),
        ('frozenset', lambda: frozenset(keys), sorted),
        ('keys()', lambda: BT(dict(pairs)).keys(), list),
    ]


OPS = {
    '__ixor__': lambda a, b: a ^ b,
    '__iand__': lambda a, b: a & b,
    '__isub__': lambda a, b: a - b,
    '__ior__': lambda a, b: a | b,
}


INPLACE = {
    '__ixor__': operator.ixor,
    '__iand__': operator.iand,
    '__isub__': operator.isub,
    '__ior__': operator.ior,
}


def check_state(s, expected, what):
    exp = sorted(expected)
    ok(list(s) == exp, what, 'contents', list(s), exp)
    ok(len(s) == len(exp), what, 'len')
    state = s.__getstate__()
    if hasattr(s, '_check'):
        s._check()
        # rebuild from the state (the local subclasses cannot be pickled)
        c = type(s)()
        c.__setstate__(state)
        ok(list(c) == exp, what, 'state round trip')
    else:
        ok(state == (tuple(exp),), what, 'state', state)
        c = pickle.loads(pickle.dumps(s))
        ok(type(c).__name__ == type(s).__name__.replace('Py', '') and
           list(c) == exp, what, 'pickle round trip')


def differential(fam, rnd, rounds):
    m = mod(fam)
    gen = keygen(fam, rnd)
    targets = [
        ('Set', getattr(m, fam + 'Set')),
        ('TreeSet', small_treeset(m, fam)),
        ('SetPy', getattr(m, fam + 'SetPy')),
        ('TreeSetPy', small_treeset(m, fam, py=True)),
    ]
    for rnd_no in range(rounds):
        na = rnd.choice([0, 1, 2, 5, 9, 17])
        nb = rnd.choice([0, 1, 3, 6, 12, 20])
        a_keys = {gen() for _ in range(na)}
        shape = rnd.randrange(5)
        if shape == 0:
            b_keys = set(a_keys)                      # equal
        elif shape == 1:
            b_keys = set(list(a_keys)[::2])           # nested
        elif shape == 2:
            b_keys = {gen() for _ in range(nb)} - a_keys   # disjoint
        else:
            b_keys = {gen() for _ in range(nb)}       # overlapping
        for tname, T in targets:
            for opname, model in OPS.items():
                for label, factory, snap in operands(m, fam, b_keys, rnd):
                    s = T(a_keys)
                    other = factory()
                    before = snap(other) if snap else None
                    r = getattr(s, opname)(other)
                    what = '%s %s.%s(%s) a=%r b=%r' % (
                        fam, tname, opname, label,
                        sorted(a_keys), sorted(b_keys))
                    ok(r is s, what, 'result is not self', r)
                    check_state(s, model(a_keys, b_keys), what)
                    if snap:
                        ok(snap(other) == before, what, 'operand modified')
                # self as operand
                s = T(a_keys)
                r = getattr(s, opname)(s)
                exp = model(a_keys, a_keys)
                ok(r is s, fam, tname, opname, 'self')
                check_state(s, exp, '%s %s.%s(self)' % (fam, tname, opname))


def errors(fam):
    m = mod(fam)
    rnd = random.Random(SEED + 1)
    gen = keygen(fam, rnd)
    base = sorted({gen() for _ in range(12)})
    extra = sorted({gen() for _ in range(12)} - set(base))[:4]
    ok(len(extra) >= 2, 'need extra keys')
    for tname, T in [('Set', getattr(m, fam + 'Set')),
                     ('TreeSet', small_treeset(m, fam))]:
        # -- not iterable: falls back to the binary operator, which fails
        for opname in ('__ixor__', '__iand__', '__isub__'):
            s = T(base)
            r = getattr(s, opname)(object())
            ok(r is NotImplemented, fam, tname, opname, 'NotImplemented', r)
            ok(list(s) == base, 'unchanged after NotImplemented')
        s = T(base)
        try:
            s ^= object()
        except TypeError:
            pass
        else:
            ok(False, 'TypeError expected')
        ok(list(s) == base, fam, tname, 'unchanged after TypeError')

        # -- the iterator fails half way: nothing has been applied yet
        class Boom(Exception):
            pass

        def failing():
            yield base[0]
            yield extra[0]
            yield base[1]
            raise Boom('half way')

        for opname in ('__ixor__', '__iand__'):
            s = T(base)
            try:
                getattr(s, opname)(failing())
            except Boom as e:
                ok(e.args == ('half way',), 'exception identity')
            else:
                ok(False, fam, tname, opname, 'Boom expected')
            ok(list(s) == base, fam, tname, opname,
               'set modified although the iterator failed', list(s))
            ok(sys.exc_info()[0] is None, 'no exception left behind')
        # update / |= report the failure too, having added what came first
        s = T(base)
        try:
            s |= failing()
        except Boom:
            pass
        else:
            ok(False, 'Boom expected from |=')
        ok(list(s) == sorted(set(base) | {extra[0]}), fam, tname, '|= partial')

        # -- a key of the wrong type
        if fam[0] != 'O':
            bad = 'x' if fam != 'fs' else 7
            s = T(base)
            try:
                s ^= [base[0], extra[0], bad, extra[1], base[1]]
            except TypeError:
                pass
            else:
                ok(False, fam, tname, 'TypeError expected for bad key')
            # classification went through (bad is "absent"), the present
            # ones were removed, the absent ones added up to the bad one
            exp = sorted((set(base) - {base[0], base[1]}) | {extra[0]})
            ok(list(s) == exp, fam, tname, '^= with bad key', list(s), exp)
            # &= merely ignores what cannot be a key
            s = T(base)
            r = s.__iand__([base[0], bad, extra[0], base[2], base[0]])
            ok(r is s and list(s) == sorted({base[0], base[2]}),
               fam, tname, '&= with bad key', list(s))
            if fam != 'fs':
                # out of range for the integer families
                s = T(base)
                r = s.__iand__([base[0], 2 ** 70, base[3]])
                ok(r is s and list(s) == sorted({base[0], base[3]}),
                   fam, tname, '&= with huge key', list(s))
        else:
            # -- a key that cannot be compared
            class Sour:
                def __lt__(self, other):
                    raise Boom('lt')
                __gt__ = __le__ = __ge__ = __lt__

                def __eq__(self, other):
                    raise Boom('eq')
                __hash__ = object.__hash__

            for opname in ('__ixor__', '__iand__'):
                s = T(base)
                sour = Sour()
                rc = sys.getrefcount(sour)
                try:
                    getattr(s, opname)([base[0], sour, base[1]])
                except Boom:
                    pass
                else:
                    ok(False, fam, tname, opname, 'Boom expected (compare)')
                ok(list(s) == base, fam, tname, opname, 'unchanged (compare)')
                gc.collect()
                ok(sys.getrefcount(sour) == rc, 'refcount of sour key',
                   sys.getrefcount(sour), rc)


def refcounts():
    from BTrees.OOBTree import OOSet

    class K:
        __slots__ = ('n',)

        def __init__(self, n):
            self.n = n

        def __lt__(self, other):
            return self.n < other.n

        def __eq__(self, other):
            return self.n == other.n

        def __hash__(self):
            return hash(self.n)

    mine = [K(i) for i in range(0, 20, 2)]
    theirs = [K(i) for i in range(0, 20, 3)] + [K(i) for i in range(0, 20, 6)]
    for opname in ('__ixor__', '__iand__'):
        for _ in range(3):
            s = OOSet(mine)
            other = list(theirs)
            gc.collect()
            rc_mine = [sys.getrefcount(k) for k in mine]
            rc_theirs = [sys.getrefcount(k) for k in theirs]
            rc_s = sys.getrefcount(s)
            rc_other = sys.getrefcount(other)
            r = getattr(s, opname)(other)
            ok(r is s)
            ok(sys.getrefcount(s) == rc_s + 1, opname, 'one new ref to self')
            del r
            ok(sys.getrefcount(s) == rc_s, opname, 'refcount of self')
            ok(sys.getrefcount(other) == rc_other, opname, 'refcount operand')
            s.clear()
            gc.collect()
            # the set held exactly one reference to each of its keys
            ok([sys.getrefcount(k) for k in mine] ==
               [c - 1 for c in rc_mine], opname, 'refcounts of my keys')
            ok([sys.getrefcount(k) for k in theirs] == rc_theirs,
               opname, 'refcounts of their keys')
        # self as operand
        s = OOSet(mine)
        rc_s = sys.getrefcount(s)
        r = getattr(s, opname)(s)
        ok(r is s and sys.getrefcount(s) == rc_s + 1)
        del r
        ok(sys.getrefcount(s) == rc_s)
        # NotImplemented
        rc_s = sys.getrefcount(s)
        r = getattr(s, opname)(42)
        ok(r is NotImplemented and sys.getrefcount(s) == rc_s)


def persistence(fam):
    m = mod(fam)
    rnd = random.Random(SEED + 2)
    gen = keygen(fam, rnd)
    base = sorted({gen() for _ in range(10)})
    extra = sorted({gen() for _ in range(12)} - set(base))[:3]
    Set = getattr(m, fam + 'Set')

    def fresh():
        jar = Jar()
        s = Set(base)
        s._p_jar = jar
        s._p_oid = b'\0' * 7 + b'\1'
        jar.states[s._p_oid] = s.__getstate__()
        s._p_changed = False
        jar.registered[:] = []
        return s, jar

    # a real change registers exactly once
    for opname, other, exp in [
            ('__ixor__', [base[0], extra[0]],
             set(base) ^ {base[0], extra[0]}),
            ('__iand__', [base[0], base[3], extra[0]], {base[0], base[3]}),
    ]:
        s, jar = fresh()
        ok(not s._p_changed)
        getattr(s, opname)(other)
        ok(s._p_changed, fam, opname, 'changed')
        ok(jar.registered == [s], fam, opname, 'registered', jar.registered)
        ok(list(s) == sorted(exp))

    # nothing to do: ^= with nothing leaves the object unchanged
    s, jar = fresh()
    s ^= []
    ok(not s._p_changed and jar.registered == [], fam, '^= [] no change')
    # &= always rewrites the contents
    s, jar = fresh()
    s &= list(base)
    ok(list(s) == base and s._p_changed, fam, '&= all')
    # ^= self on an empty set changes nothing
    jar = Jar()
    e = Set()
    e._p_jar = jar
    e._p_oid = b'\0' * 7 + b'\2'
    e._p_changed = False
    r = e.__ixor__(e)
    ok(r is e and not e._p_changed and jar.registered == [], 'empty ^= self')
    s, jar = fresh()
    r = s.__ixor__(s)
    ok(r is s and len(s) == 0 and s._p_changed and jar.registered == [s])

    # ghosts are activated, exactly as needed
    for opname, other, exp in [
            ('__ixor__', [base[1], extra[1]],
             set(base) ^ {base[1], extra[1]}),
            ('__iand__', [base[1], extra[1], base[2]], {base[1], base[2]}),
            ('__ixor__', None, set()),
    ]:
        s, jar = fresh()
        s._p_deactivate()
        ok(s._p_changed is None, 'ghost')
        # (through the slot: looking up s.__ixor__ would already activate)
        INPLACE[opname](s, s if other is None else other)
        ok(jar.loads >= 1, 'loaded')
        ok(list(s) == sorted(exp), fam, opname, 'ghost result', list(s))

    # failing activation: the error comes out, nothing is registered
    for opname, other in [('__ixor__', [base[1], extra[1]]),
                          ('__iand__', [base[1], extra[1]]),
                          ('__ixor__', None),
                          ('__ixor__', []),
                          ('__iand__', [])]:
        s, jar = fresh()
        s._p_deactivate()
        jar.fail = True
        try:
            INPLACE[opname](s, s if other is None else other)
        except RuntimeError as e:
            ok('cannot load' in str(e))
            raised = True
        else:
            raised = False
        # with nothing to look up only &= touches the set (it clears it);
        # ^= [] never looks at self
        expect_raise = not (opname == '__ixor__' and other == [])
        ok(raised == expect_raise, fam, opname, other, 'activation failure',
           raised)
        ok(jar.registered == [], 'nothing registered')
        ok(s._p_changed is None, 'still a ghost')
        jar.fail = False
        ok(list(s) == base, fam, opname, 'intact after failed activation')


def main():
    rnd = random.Random(SEED)
    for fam in FAMILIES:
        differential(fam, rnd, rounds=24 if fam in ('OO', 'II', 'LL') else 6)
    for fam in ('OO', 'II', 'LO', 'QQ', 'fs', 'OI'):
        errors(fam)
    refcounts()
    for fam in ('OO', 'II', 'LF', 'fs'):
        persistence(fam)
    print('demo t: %d checks passed' % checks)


if __name__ == '__main__':
    main()
