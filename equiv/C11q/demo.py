"""Equivalence demonstration for refactoring C11q
(sorters.c uniq: index loops -> pointer loops, early return; sort_int_nodups: negated test + early return).

Run as:  PYTHONPATH=<worktree>/src /venv/bin/python demo.py     (exit status 0 = OK)

Property C11: multiunion returns the sorted, duplicate-free union of all its
inputs (integers, sets, keys of mappings, arbitrary iterables of integers) for
every integer-keyed family (II IO IF IU  LL LO LF LQ  UU UO UF UI  QQ QO QF
QL), any number and size of inputs, any keys of the family's range including
both extremes; the result is a normal Set (membership, range queries, pickle).

Expectations are computed independently of BTrees: the reference model of a
multiunion is sorted(set(all keys)) in plain Python, range queries are checked
with bisect on that list.  Every case is run through the C implementation
(module.multiunion) and the pure-Python one (module.multiunionPy); the two are
never mixed in one call.  Besides the keys the demo checks: the result type,
len/bool/minKey/maxKey, `k in result` / has_key for members, neighbours and
both extremes, result.keys(lo, hi[, excludemin, excludemax]), the pickle
state, _p_changed / _p_jar of the result, that operands are unchanged and
their reference counts are the same before and after the call (also when the
call fails), that a failing call does not leak the half-built result, the
exception class on every error path, and the persistence notifications seen by
a fake jar (a ghost operand is loaded exactly once and is left up-to-date, not
sticky; a failing load passes through; a changed operand stays changed;
nothing is registered).

Focus of this demo: duplicate removal and the choice of the sort.
battery_uniq places the first duplicate nowhere / at the first pair / at the
last pair / in the middle / everywhere (one value, two values, runs at the
head or the tail) for sizes 1..1300 on both sides of 25 and 800, with key
strides that change the number of radix passes (so that uniq runs in place
and from the work area); for up to 30 keys the vector is gathered one integer
at a time, so its length and order are exactly the given ones."""
FOCUS = 'uniq'

import bisect
import collections
import gc
import importlib
import itertools
import pickle
import random
import sys

# ---------------------------------------------------------------------------
# the 16 integer-key families and their key ranges
# ---------------------------------------------------------------------------
KEY_RANGE = {
    'I': (-2 ** 31, 2 ** 31 - 1),
    'L': (-2 ** 63, 2 ** 63 - 1),
    'U': (0, 2 ** 32 - 1),
    'Q': (0, 2 ** 64 - 1),
}
KEY_BYTES = {'I': 4, 'L': 8, 'U': 4, 'Q': 8}
FAMILIES = ['II', 'IO', 'IF', 'IU',
            'LL', 'LO', 'LF', 'LQ',
            'UU', 'UO', 'UF', 'UI',
            'QQ', 'QO', 'QF', 'QL']

CHECKS = 0


def check(cond, *what):
    global CHECKS
    CHECKS += 1
    if not cond:
        raise AssertionError(' '.join(str(w) for w in what))


class Family:
    def __init__(self, prefix):
        self.prefix = prefix
        self.mod = importlib.import_module('BTrees.%sBTree' % prefix)
        self.lo, self.hi = KEY_RANGE[prefix[0]]
        self.nbytes = KEY_BYTES[prefix[0]]
        self.signed = self.lo < 0
        m = self.mod
        # (multiunion, Set, TreeSet, Bucket, BTree) for the C and the
        # pure-Python implementation.  The two are never mixed in one call.
        self.impls = {
            'C': (m.multiunion, m.Set, m.TreeSet, m.Bucket, m.BTree),
            'Py': (m.multiunionPy, getattr(m, prefix + 'SetPy'),
                   getattr(m, prefix + 'TreeSetPy'),
                   getattr(m, prefix + 'BucketPy'),
                   getattr(m, prefix + 'BTreePy')),
        }
        check(m.multiunion is not m.multiunionPy,
              prefix, 'C extension is not in use')

    def value(self, k):
        # a value acceptable to every value type (O, I, L, U, Q, F)
        return 1


# ---------------------------------------------------------------------------
# reference model: plain Python, independent of BTrees
# ---------------------------------------------------------------------------
def model_keys(spec):
    """spec is a list of (kind, keys); the union is just a sorted set."""
    allkeys = set()
    for _kind, keys in spec:
        allkeys.update(keys)
    return sorted(allkeys)


KINDS = ('int', 'set', 'treeset', 'bucket', 'btree', 'list', 'tuple',
         'gen', 'dict', 'pyset', 'setsub')


def build_operand(fam, impl, kind, keys):
    _mu, Set, TreeSet, Bucket, BTree = fam.impls[impl]
    if kind == 'int':
        assert len(keys) == 1
        return keys[0]
    if kind == 'set':
        return Set(keys)
    if kind == 'treeset':
        return TreeSet(keys)
    if kind == 'bucket':
        return Bucket([(k, fam.value(k)) for k in keys])
    if kind == 'btree':
        return BTree([(k, fam.value(k)) for k in keys])
    if kind == 'list':
        return list(keys)
    if kind == 'tuple':
        return tuple(keys)
    if kind == 'gen':
        return (k for k in list(keys))
    if kind == 'dict':
        return {k: 'v' for k in keys}
    if kind == 'pyset':
        return set(keys)
    if kind == 'setsub':
        sub = type('SetSub', (Set,), {})
        return sub(keys)
    raise ValueError(kind)


def verify_result(fam, impl, result, expected, tag, rng=None):
    """result must be a normal Set holding exactly `expected`."""
    _mu, Set, _ts, _b, _bt = fam.impls[impl]
    check(type(result) is Set, tag, 'result type', type(result))
    got = list(result)
    check(got == expected, tag, 'keys differ',
          len(got), len(expected), got[:5], expected[:5])
    check(len(result) == len(expected), tag, 'len')
    check(bool(result) == bool(expected), tag, 'bool')
    check(result.__getstate__() == (tuple(expected),),
          tag, 'state')
    check(not result._p_changed, tag, '_p_changed', result._p_changed)
    if not expected:
        return
    check(result.minKey() == expected[0], tag, 'minKey')
    check(result.maxKey() == expected[-1], tag, 'maxKey')
    rng = rng or random.Random(len(expected))
    # membership: members, and neighbours that are not members
    eset = set(expected)
    probes = {expected[0], expected[-1], expected[len(expected) // 2]}
    probes.update(rng.choice(expected) for _ in range(8))
    for k in list(probes):
        for d in (-1, 1):
            if fam.lo <= k + d <= fam.hi:
                probes.add(k + d)
    probes.update((fam.lo, fam.hi))
    if fam.lo <= 0 <= fam.hi:
        probes.add(0)
    for k in probes:
        check((k in result) == (k in eset), tag, 'membership', k)
        check(result.has_key(k) == (k in eset), tag, 'has_key', k)
    # range queries against bisect on the model
    bounds = sorted(probes)
    pairs = [(bounds[0], bounds[-1])]
    pairs += [tuple(sorted(rng.sample(bounds, 2))) for _ in range(6)]
    for lo, hi in pairs:
        i = bisect.bisect_left(expected, lo)
        j = bisect.bisect_right(expected, hi)
        check(list(result.keys(lo, hi)) == expected[i:j],
              tag, 'keys(lo,hi)', lo, hi)
        je = bisect.bisect_left(expected, hi)
        check(list(result.keys(lo, hi, False, True)) == expected[i:je],
              tag, 'keys(lo,hi,excl)', lo, hi)
    check(list(result.keys(None, bounds[len(bounds) // 2]))
          == expected[:bisect.bisect_right(expected,
                                           bounds[len(bounds) // 2])],
          tag, 'keys(None,hi)')
    # the result is an ordinary, mutable Set
    if impl == 'C' or len(expected) < 2000:
        clone = Set()
        clone.__setstate__(result.__getstate__())
        victim = expected[len(expected) // 2]
        clone.remove(victim)
        check(victim not in clone and len(clone) == len(expected) - 1,
              tag, 'remove')
        clone.add(victim)
        check(list(clone) == expected, tag, 'add back')


def run_spec(fam, impl, spec, tag, rng=None, seq_kind=list):
    """Build the operands of spec, call multiunion, verify against the model,
    and verify that no references to the operands were leaked or stolen."""
    mu = fam.impls[impl][0]
    operands = [build_operand(fam, impl, kind, keys) for kind, keys in spec]
    seq = seq_kind(operands)
    # (int objects are shared with the key lists of the spec: not counted)
    before = [sys.getrefcount(o) for o in operands if type(o) is not int]
    seq_before = sys.getrefcount(seq)
    result = mu(seq)
    after = [sys.getrefcount(o) for o in operands if type(o) is not int]
    check(before == after, tag, 'operand refcounts', before, after)
    check(sys.getrefcount(seq) == seq_before, tag, 'seq refcount')
    check(sys.getrefcount(result) == 2, tag, 'result refcount',
          sys.getrefcount(result))
    # operands are unchanged
    for (kind, keys), o in zip(spec, operands):
        if kind in ('set', 'treeset', 'bucket', 'btree', 'setsub'):
            check(list(o.keys()) == sorted(set(keys)), tag, 'operand changed')
            check(not o._p_changed, tag, 'operand _p_changed')
    expected = model_keys(spec)
    verify_result(fam, impl, result, expected, tag, rng)
    return result


# ---------------------------------------------------------------------------
# key generators aimed at the sort internals
# ---------------------------------------------------------------------------
def clamp(fam, k):
    return max(fam.lo, min(fam.hi, k))


def key_patterns(fam, n, rng):
    """Yield (name, keys) with len(keys) == n (duplicates allowed)."""
    lo, hi, nb = fam.lo, fam.hi, fam.nbytes
    top = 8 * (nb - 1)
    yield 'uniform', [rng.randint(lo, hi) for _ in range(n)]
    yield 'ascending', [clamp(fam, lo + i * 3) for i in range(n)]
    yield 'descending', [clamp(fam, hi - i * 5) for i in range(n)]
    yield 'allsame', [rng.randint(lo, hi)] * n
    yield 'twovalues', [rng.choice((lo, hi)) for _ in range(n)]
    yield 'extremes+small', ([lo, hi, lo, hi]
                             + [clamp(fam, i - n // 2) for i in range(n)])[:n]
    # only the low byte varies: one radix pass (result lands in the work area)
    base = rng.randint(lo >> 8, hi >> 8) << 8
    yield 'lowbyte', [clamp(fam, base + rng.randint(0, 255))
                      for _ in range(n)]
    # only the two low bytes vary: two passes (result back in place)
    base = rng.randint(lo >> 16, hi >> 16) << 16
    yield 'low2bytes', [clamp(fam, base + rng.randint(0, 65535))
                        for _ in range(n)]
    # only the most significant byte varies
    low = rng.randint(0, (1 << top) - 1)
    yield 'msbonly', [clamp(fam, (rng.randint(lo >> top, hi >> top) << top)
                            + low) for _ in range(n)]
    # most significant byte and low byte vary
    yield 'msb+lsb', [clamp(fam, (rng.randint(lo >> top, hi >> top) << top)
                            + rng.randint(0, 255)) for _ in range(n)]
    # top bit set everywhere (negative for signed, huge for unsigned) ...
    if fam.signed:
        yield 'allneg', [rng.randint(lo, -1) for _ in range(n)]
        yield 'allneg-msb-ff', [rng.randint(-(1 << top), -1)
                                for _ in range(n)]
        yield 'allpos-msb-00', [rng.randint(0, (1 << top) - 1)
                                for _ in range(n)]
        yield 'allpos', [rng.randint(0, hi) for _ in range(n)]
        yield 'around0', [rng.randint(-n, n) for _ in range(n)]
    else:
        half = (hi + 1) // 2
        yield 'topbit', [rng.randint(half, hi) for _ in range(n)]
        yield 'topbit-msb-ff', [rng.randint(hi - (1 << top) + 1, hi)
                                for _ in range(n)]
        yield 'lowhalf', [rng.randint(0, half - 1) for _ in range(n)]
        yield 'aroundhalf', [rng.randint(half - n, half + n)
                             for _ in range(n)]
    # reverse sorted with many duplicates, organ pipe
    yield 'organpipe', [clamp(fam, lo + min(i, n - i) * 7)
                        for i in range(n)]
    yield 'fewdistinct', [clamp(fam, rng.choice((lo, lo + 1, -1, 0, 1,
                                                 hi - 1, hi)))
                          for _ in range(n)]


def split_spec(keys, rng, kinds=KINDS, maxchunk=None):
    """Cut the key list into operands of random kinds."""
    spec = []
    i = 0
    n = len(keys)
    while i < n:
        kind = rng.choice(kinds)
        if kind == 'int':
            size = 1
        else:
            size = rng.randint(0, maxchunk or max(1, n // 3))
        chunk = keys[i:i + size]
        i += size
        if kind == 'int' and not chunk:
            continue
        spec.append((kind, chunk))
    return spec


# sizes on both sides of MAX_INSERTION (25) and QUICKSORT_BEATS_RADIXSORT (800)
SIZES_SMALL = (0, 1, 2, 3, 4, 5, 24, 25, 26, 27, 51, 100)
SIZES_SWITCH = (799, 800, 801, 802, 803, 804, 1023, 1500)
SIZES_BIG = (5000,)


def battery_sort(fam, impls=('C', 'Py'), seed=0, py_max=1500):
    """Total sizes on both sides of the switches, keys over the whole range.

    The total number of gathered keys is exactly the size: the operands are
    lists / fast-path sets whose keys are not de-duplicated beforehand where
    the kind allows it (lists of ints are sorted+uniq'ed by the generic
    iteration, so the duplicate-preserving kinds are 'int', 'set', 'bucket'
    with disjoint chunks and repeated operands).
    """
    rng = random.Random('%s-%d' % (fam.prefix, seed))
    for n in SIZES_SMALL + SIZES_SWITCH + SIZES_BIG:
        for name, keys in key_patterns(fam, n, rng):
            check(len(keys) == n, 'pattern size')
            check(all(fam.lo <= k <= fam.hi for k in keys), name, 'range')
            # (a) exact-size gather: distinct keys go into fast-path sets in
            # chunks; duplicates are added as single-int operands so that
            # the sorted vector really has n elements with duplicates.
            seen = set()
            distinct, dups = [], []
            for k in keys:
                if k in seen:
                    dups.append(k)
                else:
                    seen.add(k)
                    distinct.append(k)
            spec = []
            i = 0
            while i < len(distinct):
                size = rng.randint(1, max(1, len(distinct) // 2))
                spec.append((rng.choice(('set', 'bucket')),
                             distinct[i:i + size]))
                i += size
            if len(dups) > 60:
                # too many single ints are slow for nothing: put the
                # duplicates into further fast-path sets (each set holds
                # distinct keys; the sets overlap the earlier ones)
                mult = collections.Counter(dups)
                for r in range(max(mult.values())):
                    spec.append(('set', [k for k, c in mult.items()
                                         if c > r]))
            else:
                spec.extend(('int', [k]) for k in dups)
            rng.shuffle(spec)
            for impl in impls:
                if impl == 'Py' and n > py_max:
                    continue
                run_spec(fam, impl, spec,
                         '%s/%s exact n=%d %s' % (fam.prefix, impl, n, name),
                         rng)
            # (b) random mix of every operand kind
            if n <= 1500:
                spec = split_spec(keys, rng)
                for impl in impls:
                    if impl == 'Py' and n > py_max:
                        continue
                    run_spec(fam, impl, spec,
                             '%s/%s mixed n=%d %s' % (fam.prefix, impl, n,
                                                      name), rng)


def battery_operands(fam, impls=('C', 'Py')):
    """Every kind of operand, 0..many operands, fixed small cases."""
    lo, hi = fam.lo, fam.hi
    mid = (lo + hi) // 2
    for impl in impls:
        tag = '%s/%s operands' % (fam.prefix, impl)
        run_spec(fam, impl, [], tag + ' none')
        run_spec(fam, impl, [], tag + ' none(tuple)', seq_kind=tuple)
        for kind in KINDS:
            if kind != 'int':
                run_spec(fam, impl, [(kind, [])], tag + ' empty ' + kind)
                run_spec(fam, impl, [(kind, []), (kind, [])],
                         tag + ' empty x2 ' + kind)
                run_spec(fam, impl, [(kind, [hi, lo, mid])],
                         tag + ' extremes ' + kind)
                run_spec(fam, impl,
                         [(kind, [lo, lo + 1, hi - 1, hi]), ('set', []),
                          (kind, [hi, mid, mid + 1]), (kind, [])],
                         tag + ' several ' + kind, seq_kind=tuple)
                # more keys than MIN_BUCKET_ALLOC through one operand, so
                # the result vector has to grow repeatedly
                run_spec(fam, impl,
                         [(kind, [clamp(fam, mid + 3 * i) for i in range(70)]),
                          ('int', [lo]),
                          (kind, [clamp(fam, mid - 2 * i) for i in range(40)])],
                         tag + ' grow ' + kind)
            else:
                run_spec(fam, impl, [('int', [lo])], tag + ' int lo')
                run_spec(fam, impl, [('int', [hi])], tag + ' int hi')
                run_spec(fam, impl,
                         [('int', [hi]), ('int', [lo]), ('int', [hi]),
                          ('int', [mid])], tag + ' ints')
        # every ordered pair of kinds: fast path first/last (overallocate or
        # not), generic first/last
        for k1, k2 in itertools.product(KINDS, repeat=2):
            a = [lo] if k1 == 'int' else [lo, mid, 7, hi]
            b = [hi] if k2 == 'int' else [hi - 1, 7, lo, mid + 1]
            run_spec(fam, impl, [(k1, a), (k2, b)],
                     tag + ' pair %s,%s' % (k1, k2))
        # the same object many times
        mu, Set = fam.impls[impl][0], fam.impls[impl][1]
        s = Set([lo, 5, hi])
        rc = sys.getrefcount(s)
        r = mu([s] * 400)
        check(list(r) == sorted({lo, 5, hi}), tag, 'same x400')
        r = mu([s] * 50 + [6] + [s] * 50)
        check(list(r) == sorted({lo, 5, 6, hi}), tag, 'same x100 + int')
        del r
        check(sys.getrefcount(s) == rc, tag, 'same object refcount')
        # many identical single ints: a vector of n equal elements, on both
        # sides of the quicksort/radix switch
        for n in (1, 2, 26, 800, 801, 903):
            for k in (lo, hi, mid, 7):
                r = mu([k] * n)
                check(list(r) == [k], tag, 'n equal ints', n, k)
                r = mu([k] * n + [clamp(fam, k + 1)])
                check(list(r) == sorted({k, clamp(fam, k + 1)}),
                      tag, 'n equal ints + 1', n, k)
                r = mu([clamp(fam, k - 1)] + [k] * n)
                check(list(r) == sorted({k, clamp(fam, k - 1)}),
                      tag, '1 + n equal ints', n, k)
        # a sequence that is not a list/tuple
        r = mu(_Seq([Set([3, 1]), 2, [5, 4]]))
        check(list(r) == [1, 2, 3, 4, 5], tag, 'custom sequence')


class _Seq:
    """Minimal sequence: __len__ and __getitem__ only."""

    def __init__(self, items):
        self._items = items

    def __len__(self):
        return len(self._items)

    def __getitem__(self, i):
        return self._items[i]


# ---------------------------------------------------------------------------
# error paths
# ---------------------------------------------------------------------------
class Boom(Exception):
    pass


def count_instances(cls):
    gc.collect()
    return sum(1 for o in gc.get_objects() if type(o) is cls)


def expect_raises(fam, impl, exc, make_seq, tag, context=None,
                  leakcheck=True):
    """mu(make_seq()) raises exc; operands keep their refcounts; the
    half-built result set is released."""
    mu, Set = fam.impls[impl][0], fam.impls[impl][1]
    seq = make_seq()
    operands = list(seq) if isinstance(seq, (list, tuple)) else []
    before = [sys.getrefcount(o) for o in operands if type(o) is not int]
    nsets = count_instances(Set) if leakcheck else None
    try:
        mu(seq)
    except exc as e:
        err = e
    else:
        raise AssertionError(tag + ': no exception')
    check(type(err) is exc, tag, 'exception class', type(err))
    if context is not None:
        check(type(err.__context__) is context, tag, 'context',
              type(err.__context__))
    err = None
    after = [sys.getrefcount(o) for o in operands if type(o) is not int]
    check(before == after, tag, 'refcounts after error', before, after)
    if leakcheck:
        check(count_instances(Set) == nsets, tag, 'result set leaked')


def battery_errors(fam, impls=('C', 'Py')):
    lo, hi = fam.lo, fam.hi
    for impl in impls:
        mu, Set, TreeSet, Bucket, BTree = fam.impls[impl]
        tag = '%s/%s errors' % (fam.prefix, impl)

        def boom_gen():
            yield 1
            yield 2
            raise Boom

        # argument errors
        expect_raises(fam, impl, TypeError, lambda: 5, tag + ' not a seq')
        expect_raises(fam, impl, TypeError, lambda: None, tag + ' None')
        for args in ((), ([1], [2])):
            try:
                mu(*args)
            except TypeError:
                check(True)
            else:
                raise AssertionError(tag + ' arity')
        # bad operand at every position, after fast-path and generic ones
        big = [lo + i for i in range(50)]
        for bad in (1.5, None, object(), [1, 'a'], (2, None), ['x'],
                    [hi + 1], [lo - 1], hi + 1, lo - 1, [1.5], 'ab',
                    {1: 2, 'k': 3}, [[1]], [(1, 2)]):
            for prefix in ([], [Set(big)], [big], [Set(big), 3, TreeSet(big)],
                           [Bucket([(k, 1) for k in big]), Set()]):
                for suffix in ([], [Set(big)], [4]):
                    expect_raises(
                        fam, impl, TypeError,
                        lambda: prefix + [bad] + suffix,
                        tag + ' bad operand %r' % (bad,),
                        leakcheck=(len(prefix) == 2 and not suffix))
        # a non-iterable non-key: the Python version reports the failure of
        # the key conversion, chained to the failed iter()
        if impl == 'Py':
            for bad in (1.5, None, object()):
                expect_raises(fam, impl, TypeError, lambda: [Set([1]), bad],
                              tag + ' context', context=TypeError)
        # exceptions raised by the operand's iteration pass through
        expect_raises(fam, impl, Boom, lambda: [boom_gen()], tag + ' gen')
        expect_raises(fam, impl, Boom,
                      lambda: [Set(big), boom_gen(), Set(big)],
                      tag + ' gen mid')
        expect_raises(fam, impl, Boom,
                      lambda: _BoomSeq([Set(big), [1]]), tag + ' seq getitem')
        expect_raises(fam, impl, Boom, lambda: _BoomLen(), tag + ' seq len')
        # bytes: legal (small ints)
        r = mu([b'\x03\x01', Set([2])])
        check(list(r) == [1, 2, 3], tag, 'bytes operand')


class _BoomSeq(_Seq):
    def __getitem__(self, i):
        if i == len(self._items) - 1:
            raise Boom
        return self._items[i]

    def __iter__(self):
        for i in range(len(self._items)):
            yield self[i]


class _BoomLen:
    def __len__(self):
        raise Boom

    def __iter__(self):
        raise Boom

    def __getitem__(self, i):
        raise Boom


# ---------------------------------------------------------------------------
# persistence notifications (no ZODB needed: a jar is any object with
# setstate / register)
# ---------------------------------------------------------------------------
class Jar:
    def __init__(self, state=None, exc=None):
        self.calls = []
        self.state = state
        self.exc = exc

    def setstate(self, ob):
        self.calls.append('setstate')
        if self.exc is not None:
            raise self.exc()   # a fresh instance: no traceback is kept
        ob.__setstate__(self.state)

    def register(self, ob):
        self.calls.append('register')


def battery_persistence(fam, impls=('C', 'Py')):
    lo, hi = fam.lo, fam.hi
    for impl in impls:
        mu, Set, TreeSet, Bucket, BTree = fam.impls[impl]
        tag = '%s/%s persistence' % (fam.prefix, impl)
        for cls, state, keys in (
                (Set, ((lo, 3, hi),), [lo, 3, hi]),
                (Bucket, ((lo, 1, 3, 1, hi, 1),), [lo, 3, hi]),
                (Set, ((),), []),
        ):
            # a ghost operand is loaded exactly once, and is an ordinary
            # up-to-date (not sticky, not changed) object afterwards
            for position in (0, 1, 2):
                ob = cls()
                jar = Jar(state=state)
                ob._p_jar = jar
                ob._p_oid = b'\0' * 7 + b'\1'
                ob._p_deactivate()
                check(ob._p_changed is None, tag, 'ghost')
                seq = [[5, 4], 6]
                seq.insert(position, ob)
                rc = sys.getrefcount(ob)
                r = mu(seq)
                check(list(r) == sorted(set(keys) | {4, 5, 6}), tag, 'ghost',
                      cls.__name__, position)
                check(jar.calls == ['setstate'], tag, 'jar calls', jar.calls)
                check(ob._p_changed is False, tag, 'state after',
                      ob._p_changed)
                if impl == 'C':
                    check(ob._p_state == 0, tag, '_p_state', ob._p_state)
                check(sys.getrefcount(ob) == rc, tag, 'ghost refcount')
                # it can be turned into a ghost again: not left sticky
                ob._p_deactivate()
                check(ob._p_changed is None, tag, 'deactivate after')
                r = mu(seq)
                check(jar.calls == ['setstate'] * 2, tag, 'jar calls 2')
            # a ghost whose state cannot be loaded: the error passes through
            ob = cls()
            jar = Jar(exc=Boom)
            ob._p_jar = jar
            ob._p_oid = b'\0' * 7 + b'\2'
            ob._p_deactivate()
            for seq in ([ob], [Set([1, 2]), ob, 3], [[1, 2], 3, ob]):
                jar.calls[:] = []
                expect_raises(fam, impl, Boom, lambda: seq, tag + ' POSKey')
                check(jar.calls == ['setstate'], tag, 'jar calls on error',
                      jar.calls)
                check(ob._p_changed is None, tag, 'still a ghost')
            # a modified operand stays modified; nothing is registered by
            # reading it
            ob = cls()
            jar = Jar()
            ob._p_jar = jar
            ob._p_oid = b'\0' * 7 + b'\3'
            if cls is Set:
                ob.add(7)
            else:
                ob[7] = 1
            check(jar.calls == ['register'], tag, 'register', jar.calls)
            r = mu([ob, ob, [8]])
            check(list(r) == [7, 8], tag, 'changed operand')
            check(ob._p_changed is True, tag, 'changed stays changed')
            if impl == 'C':
                check(ob._p_state == 1, tag, 'changed _p_state', ob._p_state)
            check(jar.calls == ['register'], tag, 'no further calls',
                  jar.calls)
        # the result has no jar, is not registered anywhere
        r = mu([Set([1]), 2])
        check(r._p_jar is None and r._p_oid is None, tag, 'result jar')
        check(pickle.loads(pickle.dumps(r)).__getstate__() == ((1, 2),),
              tag, 'pickle')
        check(type(pickle.loads(pickle.dumps(r))) is fam.mod.Set,
              tag, 'pickle type')


def run_all(impls=('C', 'Py'), families=FAMILIES, seeds=(0,), py_max=1500):
    for prefix in families:
        fam = Family(prefix)
        battery_operands(fam, impls)
        battery_errors(fam, impls)
        battery_persistence(fam, impls)
        for seed in seeds:
            battery_sort(fam, impls, seed, py_max)
    return CHECKS


# ---------------------------------------------------------------------------
# focused batteries
# ---------------------------------------------------------------------------
def fast_spec(keys, rng, nsets=4):
    """Operands that gather exactly len(keys) elements (duplicates kept):
    distinct keys spread over fast-path sets/buckets, repeats in further
    sets."""
    mult = collections.Counter(keys)
    spec = []
    distinct = list(mult)
    rng.shuffle(distinct)
    step = max(1, len(distinct) // nsets)
    for i in range(0, len(distinct), step):
        spec.append((rng.choice(('set', 'bucket')), distinct[i:i + step]))
    if mult:
        for r in range(1, max(mult.values())):
            spec.append(('set', [k for k, c in mult.items() if c > r]))
    rng.shuffle(spec)
    return spec


def battery_radix_bytes(fam, impls=('C',), seed=0):
    """Radix sort passes: for many subsets of byte positions, keys in which
    exactly those bytes vary (all other bytes are fixed, so those passes are
    skipped).  Covers: every pass skipped / taken, the sign-aware last pass
    with the constant byte found in 0x80..0xff or in 0x00..0x7f or not at
    all, an odd or even number of passes (result in the work area or in
    place), and all four residues of n modulo the 4x unrolled copy loop."""
    rng = random.Random('radix-%s-%d' % (fam.prefix, seed))
    nb = fam.nbytes
    subsets = list(range(1 << nb))
    if nb == 8:
        subsets = ([0, 1, 0x80, 0x81, 0xff, 0x7f, 0xfe, 0x0f, 0xf0, 0x55,
                    0xaa, 0xc0, 0x03]
                   + [1 << b for b in range(8)]
                   + [rng.randrange(256) for _ in range(24)])
    sizes = (801, 802, 803, 804, 997)
    for subset in subsets:
        fixed = rng.getrandbits(8 * nb)
        for variant in range(3):
            n = rng.choice(sizes)
            # how many distinct values each varying byte takes
            width = (256, 2, 17)[variant]
            keys = []
            for _ in range(n):
                k = fixed
                for b in range(nb):
                    if subset >> b & 1:
                        k &= ~(0xff << (8 * b))
                        if b == nb - 1 and variant == 1:
                            # straddle the sign bit
                            byte = rng.choice((0x7f, 0x80))
                        else:
                            byte = rng.randrange(width) * (256 // width)
                        k |= byte << (8 * b)
                if fam.signed and k >= 1 << (8 * nb - 1):
                    k -= 1 << (8 * nb)
                keys.append(k)
            if variant == 2:
                keys[rng.randrange(n)] = fam.lo
                keys[rng.randrange(n)] = fam.hi
            spec = fast_spec(keys, rng)
            check(sum(len(k) for _kind, k in spec) == n, 'exact gather')
            for impl in impls:
                run_spec(fam, impl, spec,
                         '%s/%s radix bytes %#x v%d n=%d'
                         % (fam.prefix, impl, subset, variant, n), rng)


def battery_uniq(fam, impls=('C',), seed=0):
    """Duplicate removal: where the first duplicate sits (nowhere, first
    pair, last pair, everywhere), in place (quicksort sizes, or an even
    number of radix passes) and from the work area (odd number of radix
    passes)."""
    rng = random.Random('uniq-%s-%d' % (fam.prefix, seed))
    lo, hi = fam.lo, fam.hi
    span_base = {True: -600, False: (hi // 2) - 600}[fam.signed]
    for n in (1, 2, 3, 4, 25, 26, 27, 100, 799, 800, 801, 802, 900, 1300):
        for base, stride in ((span_base, 1), (lo, 1), (hi - n, 1),
                             (lo, (hi - lo) // (n + 1)),
                             # stride 256: the low byte is constant, a
                             # different number of radix passes
                             (span_base * 256, 256),
                             (span_base * 65536, 65536)):
            distinct = [clamp(fam, base + i * stride) for i in range(n)]
            distinct = sorted(set(distinct))
            m = len(distinct)
            shapes = {
                'nodup': distinct,
                'dup-first': distinct[:-1] + distinct[:1],
                'dup-last': distinct[:-1] + distinct[-2:-1]
                if m > 1 else distinct,
                'dup-second': distinct[:-1] + distinct[1:2]
                if m > 2 else distinct,
                'dup-mid': distinct[:-1] + [distinct[m // 2]],
                'all-twice': (distinct[:m // 2] * 2
                              + distinct[m // 2:m // 2 + m % 2]),
                'one-value': distinct[:1] * m,
                'two-values': [distinct[0], distinct[-1]] * (m // 2)
                + distinct[:m % 2],
                'tail-run': distinct[:m - m // 3] + distinct[-1:] * (m // 3),
                'head-run': distinct[:1] * (m // 3) + distinct[:m - m // 3],
            }
            for name, keys in shapes.items():
                check(len(keys) == m, name, 'shape size', len(keys), m)
                if m <= 30:
                    # gathered in exactly this order, one int at a time
                    order = list(keys)
                    rng.shuffle(order)
                    spec = [('int', [k]) for k in order]
                else:
                    spec = fast_spec(keys, rng)
                check(sum(len(k) for _kind, k in spec) == m, 'exact gather')
                for impl in impls:
                    run_spec(fam, impl, spec,
                             '%s/%s uniq %s n=%d stride=%d'
                             % (fam.prefix, impl, name, m, stride), rng)


def battery_gather(fam, impls=('C', 'Py'), seed=0, rounds=60):
    """Random operand lists of every kind, long and short, with the fast
    path (exact Set / Bucket) and the generic path interleaved."""
    rng = random.Random('gather-%s-%d' % (fam.prefix, seed))
    lo, hi = fam.lo, fam.hi
    for _ in range(rounds):
        n = rng.choice((0, 1, 5, 40, 200, 700, 850))
        pool = [rng.choice((lo, hi, rng.randint(lo, hi),
                            clamp(fam, rng.randint(-50, 50))))
                for _ in range(n)]
        spec = split_spec(pool, rng, maxchunk=rng.choice((1, 3, 20, 300)))
        for impl in impls:
            run_spec(fam, impl, spec,
                     '%s/%s gather n=%d' % (fam.prefix, impl, n), rng,
                     seq_kind=rng.choice((list, tuple, _Seq)))


def battery_c_vs_py(fam, seed=0, rounds=25):
    """The two implementations agree on results, states and pickles."""
    rng = random.Random('cvspy-%s-%d' % (fam.prefix, seed))
    lo, hi = fam.lo, fam.hi
    for _ in range(rounds):
        n = rng.choice((0, 1, 7, 60, 400, 810, 1200))
        pool = [rng.choice((lo, hi, rng.randint(lo, hi),
                            clamp(fam, rng.randint(-9, 9))))
                for _ in range(n)]
        spec = split_spec(pool, rng)
        rc = run_spec(fam, 'C', spec, fam.prefix + ' c-vs-py C', rng)
        rp = run_spec(fam, 'Py', spec, fam.prefix + ' c-vs-py Py', rng)
        check(list(rc) == list(rp), fam.prefix, 'C and Py differ')
        check(rc.__getstate__() == rp.__getstate__(), fam.prefix, 'states')
        check(pickle.dumps(rc, 2) == pickle.dumps(rp, 2), fam.prefix,
              'pickles differ')
        check(rc._p_changed == rp._p_changed, fam.prefix, '_p_changed')


def main(focus):
    import time
    t0 = time.time()
    for prefix in FAMILIES:
        fam = Family(prefix)
        if focus == 'python':
            # the pure-Python gather, full size range, plus the C one as a
            # second reference
            battery_operands(fam)
            battery_errors(fam)
            battery_persistence(fam)
            battery_sort(fam, py_max=5000)
            battery_gather(fam, ('Py',), rounds=80)
            battery_c_vs_py(fam)
        else:
            battery_operands(fam)
            battery_errors(fam)
            battery_persistence(fam)
            battery_sort(fam, py_max=110)
            if focus == 'radix':
                battery_sort(fam, ('C',), seed=1)
                battery_radix_bytes(fam)
                battery_radix_bytes(fam, seed=1)
            elif focus == 'uniq':
                battery_sort(fam, ('C',), seed=2)
                battery_uniq(fam)
                battery_radix_bytes(fam, seed=2)
            elif focus == 'gather':
                battery_gather(fam, rounds=120)
                battery_errors(fam, ('C',))
                battery_persistence(fam, ('C',))
                battery_c_vs_py(fam, rounds=10)
            else:
                raise ValueError(focus)
    print('OK: %d checks, 16 families, %.1fs' % (CHECKS, time.time() - t0))


if __name__ == '__main__':
    main(FOCUS)
