"""Differential demo for refactoring v (SetOpTemplate.c: set_operation,
copyRemaining and the new helper appendCurrent).

Run as:  PYTHONPATH=<tree>/src /venv/bin/python demo.py

What is exercised
  * union / intersection / difference / weightedUnion / weightedIntersection
    and the operators | & - , for every combination of operand kinds (Bucket,
    Set, BTree, TreeSet with tiny nodes, plain iterables, single keys, None),
    operand sizes chosen so that the result bucket is grown from empty and
    doubled several times, in a dozen key/value families.
  * Every result is compared (exact type, keys, values, weight) with a model
    computed on plain dicts/sets, and with the pure-Python implementation.
  * The results are real buckets: they are grown further, pickled-state
    copied, and used as operands again.
  * error paths: a key comparison failing at the n-th comparison for every n,
    an operand whose n-th element cannot be converted to the key type,
    invalid combinations (TypeError), unsortable / uniterable operands.  After
    each failure the operands are unchanged and no key or value reference is
    leaked by the abandoned, partially filled result.
  * allocation failures, best effort: a child process lowers RLIMIT_AS so
    that growing a big result bucket fails in the middle of an operation.

Exit status 0 means behaviour is as specified.
"""
import gc
import os
import random
import subprocess
import sys

FAMILIES = ['OO', 'LL', 'IF', 'OI', 'LO', 'II', 'QQ', 'UF', 'OL', 'LF', 'IU',
            'fs']


def mod(name):
    return __import__('BTrees.%sBTree' % name, fromlist=['x'])


def fail(msg):
    print("FAIL: " + msg)
    sys.exit(1)


def expect(cond, msg):
    if not cond:
        fail(msg)


def cls(m, name, kind):
    return getattr(m, name + kind)


def small(base):
    return type('Small' + base.__name__, (base,),
                {'max_leaf_size': 3, 'max_internal_size': 2})


class Fam(object):
    def __init__(self, name, rnd):
        self.name = name
        self.rnd = rnd
        self.m = m = mod(name)
        self.Bucket = cls(m, name, 'Bucket')
        self.Set = cls(m, name, 'Set')
        self.BTree = small(cls(m, name, 'BTree'))
        self.TreeSet = small(cls(m, name, 'TreeSet'))
        self.BucketPy = cls(m, name, 'BucketPy')
        self.SetPy = cls(m, name, 'SetPy')
        self.BTreePy = small(cls(m, name, 'BTreePy'))
        self.TreeSetPy = small(cls(m, name, 'TreeSetPy'))

    def key(self, i):
        if self.name == 'fs':
            i %= 676
            return bytes([97 + i // 26, 97 + i % 26])
        if self.name[0] == 'O':
            return 'k%04d' % i
        if self.name[0] in 'IL':
            return i - 150
        return i

    def value(self):
        r = self.rnd
        if self.name == 'fs':
            return bytes([r.randrange(65, 91) for _ in range(6)])
        v = self.name[1]
        if v == 'O':
            return ('v', r.randrange(1000))
        if v == 'F':
            return float(r.randrange(-50, 50))
        if v in 'IL':
            return r.randrange(-1000, 1000)
        return r.randrange(0, 1000)

    def data(self, n, span=300):
        ks = self.rnd.sample(range(span), n)
        return dict((self.key(i), self.value()) for i in ks)

    KINDS = ('Bucket', 'Set', 'BTree', 'TreeSet')

    def make(self, kind, d, py=False):
        c = getattr(self, kind + ('Py' if py else ''))
        if kind in ('Bucket', 'BTree'):
            return c(d)
        return c(list(d))


def is_mapping(kind):
    return kind in ('Bucket', 'BTree')


def contents(x):
    if x is None:
        return None
    if hasattr(x, 'items'):
        return ('map', list(x.items()))
    return ('set', list(x.keys()))


def kindname(fam, x):
    if x is None:
        return 'None'
    for k in ('Bucket', 'Set'):
        if type(x) is getattr(fam, k) or type(x) is getattr(fam, k + 'Py'):
            return k
    for k in ('BTree', 'TreeSet'):
        if type(x) in (getattr(fam, k), getattr(fam, k + 'Py')):
            return k
    return type(x).__name__


# ---------------------------------------------------------------------------

def plain_workload(fam):
    m = fam.m
    name = fam.name
    sizes = [(0, 0), (0, 7), (7, 0), (1, 1), (5, 40), (16, 16), (17, 33),
             (70, 70), (130, 20), (200, 200)]
    for n1, n2 in sizes:
        d1, d2 = fam.data(n1), fam.data(n2)
        s1, s2 = set(d1), set(d2)
        for k1 in fam.KINDS:
            for k2 in fam.KINDS:
                a, b = fam.make(k1, d1), fam.make(k2, d2)
                pa, pb = fam.make(k1, d1, True), fam.make(k2, d2, True)
                before = (contents(a), contents(b))

                u = m.union(a, b)
                expect(type(u) is fam.Set, name + ' union result type')
                expect(list(u) == sorted(s1 | s2), name + ' union keys')
                expect(contents(m.unionPy(pa, pb)) == contents(u),
                       name + ' union vs Py')

                i = m.intersection(a, b)
                expect(type(i) is fam.Set, name + ' intersection type')
                expect(list(i) == sorted(s1 & s2), name + ' intersection')
                expect(contents(m.intersectionPy(pa, pb)) == contents(i),
                       name + ' intersection vs Py')

                d = m.difference(a, b)
                if is_mapping(k1):
                    expect(type(d) is fam.Bucket, name + ' difference type')
                    expect(list(d.items()) ==
                           sorted((k, d1[k]) for k in s1 - s2),
                           name + ' difference items')
                else:
                    expect(type(d) is fam.Set, name + ' difference type')
                    expect(list(d) == sorted(s1 - s2), name + ' difference')
                expect(contents(m.differencePy(pa, pb)) == contents(d),
                       name + ' difference vs Py')

                expect((contents(a), contents(b)) == before,
                       name + ' operands untouched')

                # operators on the flat kinds and trees
                if k1 in ('Set', 'TreeSet', 'Bucket', 'BTree'):
                    expect(contents(a | b) == contents(u), name + ' |')
                    expect(contents(a & b) == contents(i), name + ' &')
                    expect(contents(a - b) == contents(d), name + ' -')

                # results are ordinary growable containers
                extra = fam.data(20)
                um = set(u)
                for k in extra:
                    u.add(k)
                    um.add(k)
                expect(list(u) == sorted(um), name + ' grow union result')
                dm = dict(d.items()) if is_mapping(k1) else set(d)
                for k, v in extra.items():
                    if is_mapping(k1):
                        d[k] = v
                        dm[k] = v
                    else:
                        d.add(k)
                        dm.add(k)
                expect(list(d.keys()) == sorted(dm),
                       name + ' grow difference result')
                c = type(d)()
                c.__setstate__(d.__getstate__())
                expect(contents(c) == contents(d), name + ' result state')
                # and usable as operands
                expect(list(m.union(u, d)) == sorted(um | set(dm)),
                       name + ' result as operand')

        # None operands
        a = fam.make('Bucket', d1)
        expect(m.union(None, a) is a and m.union(a, None) is a, 'union None')
        expect(m.intersection(None, a) is a and m.intersection(a, None) is a,
               'intersection None')
        expect(m.difference(None, a) is None and m.difference(a, None) is a,
               'difference None')
        expect(m.union(None, None) is None, 'union None None')

        # plain iterables (sorted and de-duplicated internally)
        lst = list(d2) + list(d2)[:3]
        fam.rnd.shuffle(lst)
        for k1 in fam.KINDS:
            a = fam.make(k1, d1)
            expect(list(m.union(a, lst)) == sorted(s1 | s2),
                   name + ' union with list')
            expect(list(m.union(lst, a)) == sorted(s1 | s2),
                   name + ' union list first')
            expect(list(m.intersection(a, iter(lst))) == sorted(s1 & s2),
                   name + ' intersection with iterator')
            expect(list(m.difference(a, tuple(lst)).keys())
                   == sorted(s1 - s2), name + ' difference with tuple')
            if name != 'fs' and name[0] != 'O' and d2:
                # a single key stands for a one-element set
                k = sorted(d2)[0]
                expect(list(m.union(a, k)) == sorted(s1 | set([k])),
                       name + ' union with key')
                expect(list(m.difference(a, k).keys())
                       == sorted(s1 - set([k])), name + ' difference key')


def weighted_workload(fam):
    m = fam.m
    name = fam.name
    if not hasattr(m, 'weightedUnion'):
        return 0
    n_ops = 0
    for n1, n2 in [(0, 0), (0, 9), (9, 0), (3, 3), (16, 17), (40, 90),
                   (150, 150)]:
        d1, d2 = fam.data(n1), fam.data(n2)
        for k1 in fam.KINDS:
            for k2 in fam.KINDS:
                for w1, w2 in [(1, 1), (2, 3), (0, 5), (-1, 4)]:
                    if name[1] in 'UQ' and (w1 < 0 or w2 < 0):
                        continue
                    a, b = fam.make(k1, d1), fam.make(k2, d2)
                    pa, pb = fam.make(k1, d1, True), fam.make(k2, d2, True)
                    for op, opPy, model in (
                            (m.weightedUnion, m.weightedUnionPy, model_wu),
                            (m.weightedIntersection,
                             m.weightedIntersectionPy, model_wi)):
                        try:
                            got = op(a, b, w1, w2)
                        except TypeError as e:
                            got = ('TypeError', str(e))
                        try:
                            gotpy = opPy(pa, pb, w1, w2)
                        except TypeError as e:
                            gotpy = ('TypeError', str(e))
                        if got[0] == 'TypeError' or gotpy[0] == 'TypeError':
                            expect(got[0] == gotpy[0] == 'TypeError',
                                   '%s weighted TypeError C/Py %r %r'
                                   % (name, got, gotpy))
                            continue
                        n_ops += 1
                        want = model(fam, k1, d1, k2, d2, w1, w2)
                        expect((got[0], contents(got[1])) == want,
                               '%s %s(%s,%s,%r,%r): %r != %r'
                               % (name, op.__name__, k1, k2, w1, w2,
                                  (got[0], contents(got[1])), want))
                        expect((gotpy[0], contents(gotpy[1]))
                               == (got[0], contents(got[1])),
                               name + ' weighted C vs Py')
                        res = got[1]
                        if is_mapping(k1) or is_mapping(k2):
                            expect(type(res) is fam.Bucket,
                                   name + ' weighted result type')
                        else:
                            expect(type(res) is fam.Set,
                                   name + ' weighted set result type')
                    # default weights
                    got = m.weightedUnion(a, b)
                    want = model_wu(fam, k1, d1, k2, d2, 1, 1)
                    expect((got[0], contents(got[1])) == want,
                           name + ' weightedUnion defaults')
    # None operands
    a = fam.make('Bucket', fam.data(5))
    expect(m.weightedUnion(None, a, 2, 3) == (3, a), 'wu None,a')
    expect(m.weightedUnion(a, None, 2, 3) == (2, a), 'wu a,None')
    expect(m.weightedUnion(None, None, 2, 3) == (0, None), 'wu None,None')
    expect(m.weightedIntersection(None, a, 2, 3) == (3, a), 'wi None,a')
    expect(m.weightedIntersection(a, None, 2, 3) == (2, a), 'wi a,None')
    return n_ops


def _val(fam, v):
    if fam.name[1] == 'F':
        return float(v)
    return v


def model_wu(fam, k1, d1, k2, d2, w1, w2):
    m1, m2 = is_mapping(k1), is_mapping(k2)
    if not m1 and not m2:
        return (1, ('set', sorted(set(d1) | set(d2))))
    out = {}
    for k in set(d1) | set(d2):
        v = 0
        if k in d1:
            v += (d1[k] if m1 else 1) * w1
        if k in d2:
            v += (d2[k] if m2 else 1) * w2
        out[k] = _val(fam, v)
    return (1, ('map', sorted(out.items())))


def model_wi(fam, k1, d1, k2, d2, w1, w2):
    m1, m2 = is_mapping(k1), is_mapping(k2)
    both = set(d1) & set(d2)
    if not m1 and not m2:
        return (w1 + w2, ('set', sorted(both)))
    out = {}
    for k in both:
        out[k] = _val(fam, (d1[k] if m1 else 1) * w1
                      + (d2[k] if m2 else 1) * w2)
    return (1, ('map', sorted(out.items())))


# ---------------------------------------------------------------------------
# error paths

class Boom(Exception):
    pass


class K(object):
    """Key whose comparisons can be made to fail at the n-th comparison."""
    __slots__ = ('n',)
    countdown = 0
    seen = 0

    def __init__(self, n):
        self.n = n

    @classmethod
    def tick(cls):
        cls.seen += 1
        if cls.countdown > 0:
            cls.countdown -= 1
            if cls.countdown == 0:
                raise Boom()

    def __lt__(self, other):
        K.tick()
        return self.n < other.n

    def __gt__(self, other):
        K.tick()
        return self.n > other.n

    def __le__(self, other):
        K.tick()
        return self.n <= other.n

    def __ge__(self, other):
        K.tick()
        return self.n >= other.n

    def __eq__(self, other):
        K.tick()
        return self.n == other.n

    def __ne__(self, other):
        K.tick()
        return self.n != other.n

    def __hash__(self):
        return hash(self.n)


def comparison_failures(rnd):
    m = mod('OO')
    T = small(m.OOBTree)
    TS = small(m.OOTreeSet)
    keys = [K(i) for i in range(90)]
    vals = [('v', i) for i in range(90)]
    i1 = sorted(rnd.sample(range(90), 40))
    i2 = sorted(rnd.sample(range(90), 45))
    total = 0
    for mk1, mk2 in [(m.OOBucket, m.OOSet), (m.OOSet, m.OOBucket),
                     (T, TS), (m.OOBucket, T)]:
        def build(mk, idx):
            if mk in (m.OOBucket, T):
                return mk(dict((keys[i], vals[i]) for i in idx))
            return mk([keys[i] for i in idx])
        a, b = build(mk1, i1), build(mk2, i2)
        want_a, want_b = contents(a), contents(b)
        gc.collect()
        base_k = [sys.getrefcount(k) for k in keys]
        base_v = [sys.getrefcount(v) for v in vals]
        for op, model in ((m.union, lambda: set(i1) | set(i2)),
                          (m.intersection, lambda: set(i1) & set(i2)),
                          (m.difference, lambda: set(i1) - set(i2))):
            K.countdown = 0
            K.seen = 0
            r = op(a, b)
            n_cmp = K.seen
            expect([k.n for k in r.keys()] == sorted(model()),
                   'OO %s result' % op.__name__)
            # the result owns exactly one reference per key (and value)
            now_k = [sys.getrefcount(k) for k in keys]
            in_r = set(k.n for k in r.keys())
            for j in range(90):
                expect(now_k[j] == base_k[j] + (1 if j in in_r else 0),
                       'key refcount in %s result: key %d: %d vs base %d'
                       % (op.__name__, j, now_k[j], base_k[j]))
            if hasattr(r, 'items'):
                now_v = [sys.getrefcount(v) for v in vals]
                for j in range(90):
                    expect(now_v[j] == base_v[j] + (1 if j in in_r else 0),
                           'value refcount in %s result' % op.__name__)
            del r
            expect([sys.getrefcount(k) for k in keys] == base_k,
                   'keys released with the result')
            expect(n_cmp > 20, 'comparisons counted')
            for nth in range(1, n_cmp + 1):
                K.countdown = nth
                try:
                    op(a, b)
                    fail('expected Boom at comparison %d' % nth)
                except Boom:
                    total += 1
                K.countdown = 0
                expect([sys.getrefcount(k) for k in keys] == base_k,
                       'key references after failed %s at comparison %d'
                       % (op.__name__, nth))
                expect([sys.getrefcount(v) for v in vals] == base_v,
                       'value references after failed %s at comparison %d'
                       % (op.__name__, nth))
            expect((contents(a), contents(b)) == (want_a, want_b),
                   'operands unchanged by failed operations')
    return total


def conversion_failures(fam):
    """The n-th element of a plain iterable operand is not a valid key: the
    operation fails in the middle, after part of the result was built."""
    m = fam.m
    name = fam.name
    if name[0] == 'O':
        return 0
    n = 0
    d1 = fam.data(60)
    good = sorted(fam.data(40))
    if name == 'fs':
        bad = b'c'                   # wrong length, sorts into the middle
        exc = (TypeError, ValueError)
    else:
        bad = 0.5                    # not an integer, sorts into the middle
        exc = (TypeError, OverflowError, ValueError)
    for k1 in fam.KINDS:
        a = fam.make(k1, d1)
        before = contents(a)
        for op in (m.union, m.intersection, m.difference):
            for operands in ((a, good + [bad]), (good + [bad], a)):
                if op is m.difference and operands[0] is not a:
                    continue
                try:
                    op(*operands)
                    fail('%s: expected a conversion error' % name)
                except exc:
                    n += 1
        expect(contents(a) == before, name + ' operand unchanged')
    return n


def invalid_operations(fam):
    m = fam.m
    name = fam.name
    a = fam.make('Bucket', fam.data(10))
    s = fam.make('Set', fam.data(10))
    for bad in (object(), 3.5j):
        for op in (m.union, m.intersection, m.difference):
            for args in ((a, bad), (bad, a), (s, bad)):
                try:
                    op(*args)
                    fail('%s: expected TypeError for %r' % (name, bad))
                except TypeError:
                    pass
    if name[0] == 'O':
        # an unsortable iterable
        try:
            m.union(s, ['a', 1, None])
            fail('expected TypeError for unsortable operand')
        except TypeError:
            pass
    if hasattr(m, 'weightedUnion'):
        # a plain iterable cannot supply values
        for op in (m.weightedUnion, m.weightedIntersection):
            try:
                op(a, list(s))
                fail('expected TypeError: iterable in weighted operation')
            except TypeError:
                pass


# ---------------------------------------------------------------------------

CHILD = r'''
import resource, sys
from BTrees.LLBTree import (LLBucket, LLSet, LLTreeSet, union, difference,
                            intersection, weightedUnion)

MB = 1 << 20
HARD = resource.getrlimit(resource.RLIMIT_AS)[1]

class Pairs(object):
    def __init__(self, n, step):
        self.n, self.step = n, step
    def items(self):
        return ((i * self.step, i) for i in range(self.n))

def vmsize():
    with open('/proc/self/statm') as f:
        return int(f.read().split()[0]) * resource.getpagesize()

def limit(headroom):
    if headroom is None:
        resource.setrlimit(resource.RLIMIT_AS, (resource.RLIM_INFINITY, HARD))
    else:
        resource.setrlimit(resource.RLIMIT_AS, (vmsize() + headroom, HARD))

N = 1 << 19
a = LLBucket(); a.update(Pairs(N, 2))        # even keys
b = LLSet(); b.update(range(0, 3 * N, 3))    # multiples of 3
def check_inputs():
    if len(a) != N or len(b) != N or a[2 * (N - 1)] != N - 1 \
            or b.keys()[N - 1] != 3 * (N - 1) or a[0] != 0:
        print("FAIL inputs changed"); sys.exit(1)
check_inputs()
hits = 0
done = 0
for headroom in (0, 1, 2, 4, 8, 12, 16, 64):
    for op in (union, difference, intersection, weightedUnion):
        r = None
        limit(headroom * MB)
        try:
            try:
                r = op(a, b)
            except MemoryError:
                hits += 1
        finally:
            limit(None)
        check_inputs()
        if r is not None:
            done += 1
            if op is weightedUnion:
                r = r[1]
            n = len(r)
            want = {union: N + N - (N + 2) // 3,
                    weightedUnion: N + N - (N + 2) // 3,
                    intersection: (N + 2) // 3,
                    difference: N - (N + 2) // 3}[op]
            if n != want:
                print("FAIL result size", op.__name__, n, want); sys.exit(1)
        del r
if not done:
    print("FAIL: nothing ever succeeded"); sys.exit(1)
print("child ok, MemoryErrors seen:", hits, "completed:", done)
'''


def fault_workload():
    p = subprocess.run([sys.executable, '-c', CHILD], env=dict(os.environ),
                       stdout=subprocess.PIPE, stderr=subprocess.STDOUT,
                       timeout=50)
    out = p.stdout.decode('utf-8', 'replace')
    sys.stdout.write(out)
    expect(p.returncode == 0, 'fault-injection child failed')
    expect('child ok' in out, 'fault-injection child did not finish')


def main():
    rnd = random.Random(170019)
    fams = []
    for name in FAMILIES:
        m = mod(name)
        expect(getattr(m, name + 'BTree') is not getattr(m, name + 'BTreePy'),
               'C extension for %s is not in use' % name)
        fams.append(Fam(name, rnd))
    weighted = 0
    conv = 0
    for fam in fams:
        plain_workload(fam)
        weighted += weighted_workload(fam)
        conv += conversion_failures(fam)
        invalid_operations(fam)
    print("weighted operations compared:", weighted)
    print("conversion failures exercised:", conv)
    print("comparison failures exercised:", comparison_failures(rnd))
    if sys.platform.startswith('linux'):
        fault_workload()
    print("demo v: OK")


if __name__ == '__main__':
    main()
