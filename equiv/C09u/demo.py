"""Differential demo for refactoring u (C09).

Target: the C read paths that translate "this key cannot be used" into
"this key is absent", and the two discard() methods:

    _bucket_get, bucket_getitem, bucket_getm, bucket_contains (has_key),
    _BTree_get, BTree_getm, BTree_contains (has_key, `in`, [] via BTree_get),
    Set_discard, TreeSet_discard.

Sections
  1. randomized differential run against a dict/sorted-list model: lookups
     with usable and unusable keys on BTree / Bucket / Set / TreeSet of
     several families (tiny node sizes, so unusable keys meet interior nodes),
     interleaved with writes, discard() and remove();
  2. object keys whose comparison fails (TypeError / another exception);
  3. ghosts under a stand-in jar: lookups re-activate the nodes they visit;
     a jar that fails with KeyError / a KeyError subclass / TypeError /
     another exception on activation (the PER_USE failure paths);
  4. reference counts of keys, defaults and returned values.

Run:  PYTHONPATH=<tree>/src /venv/bin/python demo.py     (exit 0 == as specified)
"""
import importlib
import random
import sys

SEED = 90902
FAMILIES = ['II', 'IO', 'IF', 'UU', 'UO', 'LL', 'LO', 'LF', 'QQ', 'QO',
            'OO', 'OI', 'OL']
BOUNDS = {'I': (-2 ** 31, 2 ** 31 - 1), 'U': (0, 2 ** 32 - 1),
          'L': (-2 ** 63, 2 ** 63 - 1), 'Q': (0, 2 ** 64 - 1)}

failures = []
counts = {'checks': 0, 'unusable': 0, 'activations': 0}


def fail(msg):
    failures.append(msg)
    if len(failures) > 25:
        report()


def report():
    for f in failures:
        print('FAIL:', f)
    print('%d failures' % len(failures))
    sys.exit(1)


def outcome(fn, *args):
    try:
        return ('ok', fn(*args))
    except Exception as e:      # noqa: BLE001 - the class is what we compare
        return ('exc', type(e))


def same(a, b):
    if a[0] != b[0]:
        return False
    if a[0] == 'exc':
        return a[1] is b[1]
    x, y = a[1], b[1]
    return x is y or (type(x) is type(y) and x == y)


def check(where, what, got, want):
    counts['checks'] += 1
    if not same(got, want):
        fail('%s %s: got %r, expected %r' % (where, what, got, want))


class MyInt(int):
    pass


def small(cls, leaf=4, internal=3):
    if not hasattr(cls, 'max_internal_size'):
        return cls
    sub = type(cls.__name__ + 'Small', (cls,),
               {'max_leaf_size': leaf, 'max_internal_size': internal})
    return sub


def deep_state(obj):
    def expand(x):
        if isinstance(x, tuple):
            return tuple(expand(y) for y in x)
        if hasattr(x, '_p_oid') and hasattr(x, '__getstate__'):
            return (type(x).__name__, expand(x.__getstate__()))
        return x
    return expand(obj.__getstate__())


# ---------------------------------------------------------------- section 1

def key_pools(kk):
    base = list(range(-2, 45))
    if kk == 'O':
        return base, []
    lo, hi = BOUNDS[kk]
    good = [k for k in base if lo <= k <= hi] + [lo, hi, True, MyInt(11)]
    bad = [lo - 1, hi + 1, 2 ** 64, 2 ** 70, -2 ** 70, -2 ** 63 - 1,
           'a', b'a', 1.0, 2.5, None, (1,), (), [2], 1j, MyInt(hi + 1)]
    return good, bad


def good_value(vk, rnd):
    if vk == 'O':
        return rnd.choice(['v', None, 0, 17, (1, 2), 2.5])
    if vk == 'F':
        return rnd.choice([0.0, 0.5, -1.25, 3.0, 1024.0])
    return rnd.choice([0, 1, 2, 7, 1000])


def differential(fam, kind, cls, rnd, steps):
    where = fam + kind
    kk, vk = fam[0], fam[1]
    mapping = kind in ('BTree', 'Bucket')
    obj = small(cls)()
    model = {}
    good, bad = key_pools(kk)

    def pick():
        if bad and rnd.random() < 0.35:
            return rnd.choice(bad), False
        if model and rnd.random() < 0.5:
            return rnd.choice(sorted(model)), True
        return rnd.choice(good), True

    def conv(k):
        return k if kk == 'O' else int(k)

    for _ in range(steps):
        k, usable = pick()
        roll = rnd.random()
        if roll < 0.55:
            # ---- the lookups
            present = usable and conv(k) in model
            if not usable:
                counts['unusable'] += 1
            before = deep_state(obj) if not usable else None
            check(where, '%r in' % (k,), outcome(obj.__contains__, k),
                  ('ok', present))
            check(where, 'has_key(%r)' % (k,), outcome(obj.has_key, k),
                  ('ok', present))
            if mapping:
                d = object()
                v = model[conv(k)] if present else None
                check(where, 'get(%r, d)' % (k,), outcome(obj.get, k, d),
                      ('ok', v if present else d))
                check(where, 'get(%r)' % (k,), outcome(obj.get, k),
                      ('ok', v if present else None))
                check(where, '[%r]' % (k,), outcome(obj.__getitem__, k),
                      ('ok', v) if present else ('exc', KeyError))
                if not present:
                    # the KeyError carries the key that was asked for
                    # (PyErr_SetObject: a tuple becomes the args, None none)
                    if isinstance(k, tuple):
                        w_args = k
                    else:
                        w_args = () if k is None else (k,)
                    try:
                        obj[k]
                    except KeyError as e:
                        if e.args != w_args or (
                                w_args and not isinstance(k, tuple)
                                and e.args[0] is not k):
                            fail('%s [%r]: KeyError args %r'
                                 % (where, k, e.args))
            if before is not None and deep_state(obj) != before:
                fail('%s lookup of %r changed the state' % (where, k))
        elif roll < 0.80:
            # ---- grow
            if not usable:
                continue
            if mapping:
                v = good_value(vk, rnd)
                obj[k] = v
                model[conv(k)] = float(v) if vk == 'F' else v
            else:
                check(where, 'add(%r)' % (k,), outcome(obj.add, k),
                      ('ok', 0 if conv(k) in model else 1))
                model[conv(k)] = None
        elif mapping:
            # ---- shrink a mapping
            if not usable:
                check(where, 'del [%r]' % (k,), outcome(obj.__delitem__, k),
                      ('exc', TypeError))
            elif conv(k) in model:
                del obj[k]
                del model[conv(k)]
            else:
                check(where, 'del [%r]' % (k,), outcome(obj.__delitem__, k),
                      ('exc', KeyError))
        else:
            # ---- shrink a set: discard() forgives, remove() does not
            before = deep_state(obj)
            present = usable and conv(k) in model
            if rnd.random() < 0.7:
                check(where, 'discard(%r)' % (k,), outcome(obj.discard, k),
                      ('ok', None))
            else:
                want = ('ok', None) if present else (
                    ('exc', KeyError) if usable else ('exc', TypeError))
                check(where, 'remove(%r)' % (k,), outcome(obj.remove, k), want)
            if present:
                del model[conv(k)]
            elif deep_state(obj) != before:
                fail('%s discard/remove of absent %r changed the state'
                     % (where, k))
        got = list(obj.items()) if mapping else list(obj.keys())
        want = sorted(model.items()) if mapping else sorted(model)
        if got != want:
            fail('%s contents %r != model %r' % (where, got, want))
            return
    if hasattr(obj, '_check'):
        obj._check()


# ---------------------------------------------------------------- section 2

class Grumpy:
    """A key whose comparisons fail with a chosen exception."""

    def __init__(self, exc):
        self.exc = exc

    def _cmp(self, other):
        raise self.exc('grumpy')

    __lt__ = __gt__ = __le__ = __ge__ = __eq__ = _cmp
    __hash__ = object.__hash__


def comparison_failures(rnd):
    for fam in ('OO', 'OI', 'OL'):
        mod = importlib.import_module('BTrees.%sBTree' % fam)
        for kind in ('Bucket', 'Set', 'BTree', 'TreeSet'):
            mapping = kind in ('BTree', 'Bucket')
            tree = kind in ('BTree', 'TreeSet')
            for size in (0, 1, 3, 30):
                obj = small(getattr(mod, fam + kind))()
                for i in range(size):
                    if mapping:
                        obj[i] = i
                    else:
                        obj.add(i)
                where = '%s%s(len %d)' % (fam, kind, size)
                before = deep_state(obj)
                probes = [('str', 'a', TypeError), ('tuple', (1,), TypeError),
                          ('grumpyT', Grumpy(TypeError), TypeError),
                          ('grumpyV', Grumpy(ValueError), ValueError),
                          ('grumpyK', Grumpy(KeyError), KeyError),
                          ('grumpyL', Grumpy(LookupError), LookupError)]
                for name, k, exc in probes:
                    d = object()
                    if size == 0:
                        # nothing to compare with: plainly absent
                        w_in = ('ok', False)
                        w_get = ('ok', d)
                        w_item = ('exc', KeyError)
                        w_discard = ('ok', None)
                    else:
                        # The comparison error comes back from the search.
                        # `in`: only a plain KeyError reads as "absent".
                        w_in = ('ok', False) if exc is KeyError else ('exc', exc)
                        if tree:
                            # BTree.get / [] translate conversion errors only
                            w_get = ('ok', d) if exc is KeyError else ('exc', exc)
                            w_item = ('exc', exc)
                        else:
                            # Bucket.get / [] turn any TypeError into KeyError
                            absent = exc in (KeyError, TypeError)
                            w_get = ('ok', d) if absent else ('exc', exc)
                            w_item = (('exc', KeyError) if exc is TypeError
                                      else ('exc', exc))
                        # discard forgives KeyError and TypeError
                        w_discard = (('ok', None)
                                     if exc in (KeyError, TypeError)
                                     else ('exc', exc))
                    check(where, '%s in' % name,
                          outcome(obj.__contains__, k), w_in)
                    check(where, 'has_key(%s)' % name,
                          outcome(obj.has_key, k), w_in)
                    if mapping:
                        check(where, 'get(%s)' % name,
                              outcome(obj.get, k, d), w_get)
                        check(where, '[%s]' % name,
                              outcome(obj.__getitem__, k), w_item)
                    else:
                        check(where, 'discard(%s)' % name,
                              outcome(obj.discard, k), w_discard)
                    if deep_state(obj) != before:
                        fail('%s probing with %s changed the state'
                             % (where, name))


# ---------------------------------------------------------------- section 3

class POSKeyError(KeyError):
    pass


class Jar:
    """Tiny stand-in for a ZODB connection."""

    def __init__(self):
        self.states = {}
        self.loaded = []
        self.fail_with = None
        self.registered = []

    def setstate(self, obj):
        if self.fail_with is not None:
            raise self.fail_with('cannot load')
        self.loaded.append(obj._p_oid)
        counts['activations'] += 1
        obj.__setstate__(self.states[obj._p_oid])

    def register(self, obj):
        self.registered.append(obj._p_oid)

    def readCurrent(self, obj):
        pass


def nodes_of(obj):
    """All persistent nodes reachable from obj (obj first)."""
    out, todo = [], [obj]
    while todo:
        n = todo.pop()
        if any(n is x for x in out):
            continue
        out.append(n)

        def walk(x):
            if isinstance(x, tuple):
                for y in x:
                    walk(y)
            elif hasattr(x, '_p_oid') and hasattr(x, '__getstate__'):
                todo.append(x)
        walk(n.__getstate__())
    return out


def store(obj, jar):
    nodes = nodes_of(obj)
    for n, node in enumerate(nodes):
        node._p_jar = jar
        node._p_oid = b'%08d' % n
    for node in nodes:
        jar.states[node._p_oid] = node.__getstate__()
    return nodes


def ghostify(nodes):
    for node in nodes:
        node._p_deactivate()
        if node._p_changed is not None:
            fail('could not turn %r into a ghost' % (node,))


def ghost_cases(rnd):
    for fam in ('II', 'LO', 'OO', 'UU', 'QF'):
        mod = importlib.import_module('BTrees.%sBTree' % fam)
        kk = fam[0]
        unusable = 'a' if kk != 'O' else None
        for kind in ('BTree', 'TreeSet', 'Bucket', 'Set'):
            mapping = kind in ('BTree', 'Bucket')
            tree = kind in ('BTree', 'TreeSet')
            where = fam + kind + ' ghost'
            obj = small(getattr(mod, fam + kind))()
            keys = list(range(0, 60, 2))
            for k in keys:
                if mapping:
                    obj[k] = k + 1
                else:
                    obj.add(k)
            jar = Jar()
            nodes = store(obj, jar)
            value = (lambda k: float(k + 1)) if fam[1] == 'F' else (
                lambda k: k + 1)

            # -- a working jar: each lookup loads exactly the path it walks
            for k in rnd.sample(range(0, 62), 25):
                ghostify(nodes)
                del jar.loaded[:]
                present = k in keys
                check(where, '%r in' % k, outcome(obj.__contains__, k),
                      ('ok', present))
                path = list(jar.loaded)
                if path[0] != obj._p_oid or len(path) != len(set(path)):
                    fail('%s: activation order %r' % (where, path))
                if tree and len(path) < 3:
                    fail('%s: tree not deep enough for the demo' % where)
                ghosts = [n for n in nodes if n._p_changed is None]
                if len(ghosts) != len(nodes) - len(path):
                    fail('%s: %d nodes loaded, %d still ghosts of %d'
                         % (where, len(path), len(ghosts), len(nodes)))
                for n in nodes:
                    if n._p_changed:
                        fail('%s: a lookup marked a node as changed' % where)
                for name, fn, w_present, w_absent in lookups(obj, mapping,
                                                             k, value(k)):
                    ghostify(nodes)
                    del jar.loaded[:]
                    check(where, '%s %r' % (name, k), outcome(fn),
                          w_present if present else w_absent)
                    if jar.loaded != path:
                        fail('%s: %s %r loaded %r, `in` loaded %r'
                             % (where, name, k, jar.loaded, path))
            # -- an unusable key is refused before anything is loaded
            if unusable is not None:
                probes = lookups(obj, mapping, unusable, None)
                ghostify(nodes)
                del jar.loaded[:]
                for name, fn, w_present, w_absent in probes:
                    check(where, '%s unusable' % name, outcome(fn), w_absent)
                if not mapping:
                    obj._p_activate()
                    discard, remove = obj.discard, obj.remove
                    ghostify(nodes)
                    del jar.loaded[:]
                    check(where, 'discard unusable',
                          outcome(discard, unusable), ('ok', None))
                    check(where, 'remove unusable',
                          outcome(remove, unusable), ('exc', TypeError))
                if jar.loaded or obj._p_changed is not None:
                    fail('%s: an unusable key activated the ghost' % where)

            # -- a jar that cannot load.  First the root, then an inner node.
            for depth_name in ('root', 'inner'):
                if depth_name == 'inner' and not tree:
                    continue
                for exc in (KeyError, POSKeyError, TypeError, RuntimeError):
                    d = object()
                    # What comes back is the jar's exception ...
                    w_in = ('ok', False) if exc is KeyError else ('exc', exc)
                    w_get = ('ok', d) if exc is KeyError else ('exc', exc)
                    w_item = ('exc', exc)
                    if not tree:
                        # ... but Bucket.get / [] read any TypeError as
                        # "no such key".
                        if exc is TypeError:
                            w_get = ('ok', d)
                            w_item = ('exc', KeyError)
                    w_discard = (('ok', None) if exc in (KeyError, TypeError)
                                 else ('exc', exc))
                    # Fetching a method from a ghost activates it, so the
                    # bound methods are taken while obj is still loaded;
                    # `in` and [] go through type slots.
                    obj._p_activate()
                    has_key, discard = obj.has_key, obj.discard \
                        if not mapping else None
                    get = obj.get if mapping else None
                    probes = [('in', lambda: 4 in obj, w_in),
                              ('has_key', lambda: has_key(4), w_in)]
                    if mapping:
                        probes += [('get', lambda: get(4, d), w_get),
                                   ('[]', lambda: obj[4], w_item)]
                    else:
                        probes += [('discard', lambda: discard(4),
                                    w_discard)]
                    for name, fn, want in probes:
                        ghostify(nodes)
                        if depth_name == 'inner':
                            obj._p_activate()
                        jar.fail_with = exc
                        got = outcome(fn)
                        jar.fail_with = None
                        check(where, '%s, %s fails to load with %s'
                              % (name, depth_name, exc.__name__), got, want)
                        if depth_name == 'root' and obj._p_changed is not None:
                            fail('%s: root not a ghost after failed load'
                                 % where)
                    # and everything still works afterwards
                    check(where, 'after failures: 4 in', outcome(lambda: 4 in obj),
                          ('ok', True))
                    if mapping:
                        check(where, 'after failures: [4]',
                              outcome(lambda: obj[4]), ('ok', value(4)))
            got = list(obj.keys())
            if got != keys:
                fail('%s: contents changed: %r' % (where, got))
            if jar.registered:
                fail('%s: lookups registered changes %r'
                     % (where, jar.registered))


def lookups(obj, mapping, k, v):
    """(name, thunk, expected if present, expected if absent); the bound
    methods are fetched now, while obj is loaded (fetching one from a ghost
    would activate it)."""
    d = object()
    obj._p_activate()
    has_key = obj.has_key
    out = [('in', lambda: k in obj, ('ok', True), ('ok', False)),
           ('has_key', lambda: has_key(k), ('ok', True), ('ok', False))]
    if mapping:
        get = obj.get
        out += [('get', lambda: get(k), ('ok', v), ('ok', None)),
                ('get d', lambda: get(k, d), ('ok', v), ('ok', d)),
                ('[]', lambda: obj[k], ('ok', v), ('exc', KeyError))]
    return out


# ---------------------------------------------------------------- section 4

def refcount_cases():
    for fam in ('OO', 'IO', 'II', 'LL', 'OI'):
        mod = importlib.import_module('BTrees.%sBTree' % fam)
        kk = fam[0]
        for kind in ('BTree', 'Bucket', 'TreeSet', 'Set'):
            mapping = kind in ('BTree', 'Bucket')
            where = fam + kind + ' refcounts'
            obj = small(getattr(mod, fam + kind))()
            stored = ['value-%d' % i for i in range(40)]
            for i in range(40):
                if mapping:
                    obj[i] = stored[i] if fam[1] == 'O' else i
                else:
                    obj.add(i)
            probes = [7, 1000, 10 ** 6 + 3]
            if kk == 'O':
                probes += ['a string key', Grumpy(TypeError), Grumpy(KeyError),
                           Grumpy(ValueError)]
            else:
                probes += ['a string key', 2 ** 70 + 1, 3.25, (1, 2)]
            default = ['the default']
            watched = probes + [default, stored[7]]
            before = [sys.getrefcount(x) for x in watched]
            for _ in range(300):
                for k in probes:
                    outcome(obj.__contains__, k)
                    outcome(obj.has_key, k)
                    if mapping:
                        outcome(obj.get, k)
                        outcome(obj.get, k, default)
                        outcome(obj.__getitem__, k)
                    elif not isinstance(k, int) or k >= 1000:
                        outcome(obj.discard, k)
            k = None        # the loop variable still holds the last probe
            after = [sys.getrefcount(x) for x in watched]
            counts['checks'] += 1
            if before != after:
                fail('%s: reference counts drifted: %r -> %r'
                     % (where, before, after))
            if mapping and fam[1] == 'O':
                v = obj[7]
                if v is not stored[7]:
                    fail('%s: [] returned a different object' % where)
                n = sys.getrefcount(v)
                held = [obj[7], obj.get(7), obj.get(7, default)]
                counts['checks'] += 1
                if sys.getrefcount(v) != n + 3:
                    fail('%s: lookups do not return new references' % where)
                del held
            n = sys.getrefcount(default)
            held = [obj.get(12345, default) for _ in range(10)] if mapping else []
            counts['checks'] += 1
            if mapping and (sys.getrefcount(default) != n + 10
                            or any(h is not default for h in held)):
                fail('%s: get() default not returned as a new reference'
                     % where)


def main():
    rnd = random.Random(SEED)
    for fam in FAMILIES:
        mod = importlib.import_module('BTrees.%sBTree' % fam)
        for kind in ('BTree', 'Bucket', 'Set', 'TreeSet'):
            cls = getattr(mod, fam + kind)
            if cls is getattr(mod, fam + kind + 'Py'):
                print('C extension for %s not in use' % fam)
                sys.exit(2)
            differential(fam, kind, cls, rnd, 2500)
    comparison_failures(rnd)
    ghost_cases(rnd)
    refcount_cases()
    if failures:
        report()
    print('ok: %(checks)d checks, %(unusable)d lookups with unusable keys, '
          '%(activations)d ghost activations' % counts)


if __name__ == '__main__':
    main()
