"""Differential demo for refactoring t (C BTree_findRangeEnd).

Run as:  PYTHONPATH=<tree>/src /venv/bin/python demo.py

BTree_findRangeEnd is reached from the C trees / tree sets through
keys/values/items/iter*(min, max, excludemin, excludemax) with a bound that is
not None, and through minKey(b) / maxKey(b).  The demo

  1. drives seeded random insert/delete histories over several families with
     tiny node sizes (so the trees are 3-6 levels deep and full of stale
     separators), and after every phase compares *every* bound pair of a dense
     domain (present keys, keys in gaps, keys below/above everything, None)
     times the four exclusion flag combinations against a sorted-list model;
  2. checks minKey(b)/maxKey(b) for every b of the domain (value or
     ValueError with the exact message);
  3. checks the lazy sequences (len, +/- indexing, step-1 slices);
  4. error paths: bounds that cannot be converted, comparisons that raise
     (every comparison position in turn), node activations that raise (every
     activation position in turn, with a stand-in jar and ghost nodes); after
     each failure no node may be left sticky and no reference may be leaked
     or dropped;
  5. reference counts of all nodes are unchanged by successful queries;
  6. the number of comparisons made by every query of 4, and the nodes
     activated (and their order) by every query on an all-ghost tree, are
     folded into a digest that is compared with the value recorded on the
     unmodified tree (EXPECTED_DIGEST).

The same battery is run against the pure-Python classes as a sanity check of
the model itself.  Exit status 0 means everything matched.
"""
import gc
import hashlib
import importlib
import random
import sys

EXPECTED_DIGEST = (
    'c4ca952661249fa9778d2dea2a42c009'
    '75e8528f50182f81d49ca678a234874a')

FAILURES = []
DIGEST = hashlib.sha256()


def note(*parts):
    DIGEST.update(repr(parts).encode('utf-8'))


def check(cond, *what):
    if not cond:
        FAILURES.append(what)
        if len(FAILURES) <= 25:
            print("MISMATCH:", *what)


# --------------------------------------------------------------------------
# model
# --------------------------------------------------------------------------

def model_range(ks, lo, hi, exlo, exhi):
    """ks: sorted list of the stored keys."""
    allowed = list(ks)
    if lo is None:
        if exlo and allowed:
            allowed = allowed[1:]
    else:
        allowed = [k for k in allowed if (k > lo if exlo else k >= lo)]
    if hi is None:
        if exhi and ks:
            allowed = [k for k in allowed if k != ks[-1]]
    else:
        allowed = [k for k in allowed if (k < hi if exhi else k <= hi)]
    return allowed


def model_minkey(ks, b):
    for k in ks:
        if k >= b:
            return k
    return None


def model_maxkey(ks, b):
    for k in reversed(ks):
        if k <= b:
            return k
    return None


# --------------------------------------------------------------------------
# tree classes
# --------------------------------------------------------------------------

_subclass_cache = {}


def small(family, kind, py, leaf, internal):
    """Subclass of e.g. BTrees.IIBTree.IIBTree[Py] with tiny node sizes."""
    ident = (family, kind, py, leaf, internal)
    if ident in _subclass_cache:
        return _subclass_cache[ident]
    mod = importlib.import_module('BTrees.%sBTree' % family)
    base = getattr(mod, family + kind + ('Py' if py else ''))
    cls = type('Small_%s%s%s_%d_%d' % (family, kind, 'Py' if py else '',
                                       leaf, internal),
               (base,), {'max_leaf_size': leaf, 'max_internal_size': internal})
    _subclass_cache[ident] = cls
    return cls


def is_c(cls):
    return not cls.__mro__[1].__name__.endswith('Py')


def value_for(family, k):
    v = family[1]
    if v == 'O':
        return ('v', k)
    if v == 'F':
        return k * 0.5
    return (k * 7) % 1000 if not isinstance(k, str) else len(k)


def nodes_of(tree):
    """All nodes (interior nodes and leaves) of a C or Python tree."""
    out = []
    ttype = type(tree)

    def walk(node):
        out.append(node)
        if type(node) is not ttype:
            return
        state = node.__getstate__()
        if state is None:
            return
        if len(state) == 1:       # single leaf stored inline
            out.append(node._firstbucket)
            return
        for child in state[0][0::2]:
            walk(child)
    walk(tree)
    return out


def separators_of(tree):
    """[(children_are_interior_nodes, separator key)] for all interior
    nodes of the tree."""
    out = []
    ttype = type(tree)

    def walk(node):
        if type(node) is not ttype:
            return
        state = node.__getstate__()
        if state is None or len(state) == 1:
            return
        data = state[0]
        deep = type(data[0]) is ttype
        for sep in data[1::2]:
            out.append((deep, sep))
        for child in data[0::2]:
            walk(child)
    walk(tree)
    return out


def behead_leaves(tree, model, is_map):
    """Remove the smallest key of every leaf holding more than one key
    *through the leaf itself*, so that the separators above it are not
    adjusted: this is the shape trees written by older releases (which never
    touched separators on deletion) have, and that __setstate__ accepts."""
    for node in nodes_of(tree):
        if type(node) is not type(tree) and len(node) > 1:
            first = node.minKey()
            if is_map:
                del node[first]
            else:
                node.remove(first)
            del model[first]


# --------------------------------------------------------------------------
# the query battery
# --------------------------------------------------------------------------

FLAGS = [(False, False), (True, False), (False, True), (True, True)]


def call(f, *a, **kw):
    try:
        return ('ok', f(*a, **kw))
    except Exception as e:   # noqa
        return ('exc', type(e), str(e))


def battery(tree, ks, vals, domain, label, rng, full=True):
    """Compare tree against the model.  ks: sorted keys, vals: dict or None."""
    bounds = [None] + list(domain)
    is_map = vals is not None
    # --- minKey / maxKey with a bound -----------------------------------
    for b in domain:
        want = model_minkey(ks, b)
        got = call(tree.minKey, b)
        if want is None:
            msg = 'no key satisfies the conditions' if ks else 'empty tree'
            check(got == ('exc', ValueError, msg), label, 'minKey', b, got)
        else:
            check(got == ('ok', want), label, 'minKey', b, got, want)
        want = model_maxkey(ks, b)
        got = call(tree.maxKey, b)
        if want is None:
            msg = 'no key satisfies the conditions' if ks else 'empty tree'
            check(got == ('exc', ValueError, msg), label, 'maxKey', b, got)
        else:
            check(got == ('ok', want), label, 'maxKey', b, got, want)
    for b in (None,):
        got = call(tree.minKey, b)
        check(got == (('ok', ks[0]) if ks else
                      ('exc', ValueError, 'empty tree')), label, 'minKey()')
        got = call(tree.maxKey, b)
        check(got == (('ok', ks[-1]) if ks else
                      ('exc', ValueError, 'empty tree')), label, 'maxKey()')
    # --- ranges -------------------------------------------------------------
    if full:
        pairs = [(lo, hi) for lo in bounds for hi in bounds]
    else:
        pairs = [(rng.choice(bounds), rng.choice(bounds))
                 for _ in range(150)]
    for lo, hi in pairs:
        for exlo, exhi in FLAGS:
            want = model_range(ks, lo, hi, exlo, exhi)
            got = list(tree.keys(lo, hi, exlo, exhi))
            if got != want:
                check(False, label, 'keys', lo, hi, exlo, exhi, got, want)
    # --- other entry points, lazy sequences (sampled) ---------------------
    for _ in range(60 if full else 15):
        lo = rng.choice(bounds)
        hi = rng.choice(bounds)
        exlo, exhi = rng.choice(FLAGS)
        want = model_range(ks, lo, hi, exlo, exhi)
        kw = {}
        if lo is not None or rng.random() < .5:
            kw['min'] = lo
        if hi is not None or rng.random() < .5:
            kw['max'] = hi
        if exlo or rng.random() < .5:
            kw['excludemin'] = exlo
        if exhi or rng.random() < .5:
            kw['excludemax'] = exhi
        check(list(tree.keys(**kw)) == want, label, 'keys kw', kw)
        if hasattr(tree, 'iterkeys'):
            check(list(tree.iterkeys(**kw)) == want, label, 'iterkeys', kw)
        if is_map:
            wantv = [vals[k] for k in want]
            check(list(tree.values(**kw)) == wantv, label, 'values', kw)
            check(list(tree.itervalues(**kw)) == wantv, label, 'itervalues')
            wanti = list(zip(want, wantv))
            check(list(tree.items(**kw)) == wanti, label, 'items', kw)
            check(list(tree.iteritems(**kw)) == wanti, label, 'iteritems')
        seq = tree.keys(**kw)
        n = len(want)
        check(len(seq) == n, label, 'len', kw, len(seq), n)
        idxs = list(range(-n - 2, n + 2))
        rng.shuffle(idxs)
        for i in idxs[:12]:
            got = call(seq.__getitem__, i)
            if -n <= i < n:
                check(got == ('ok', want[i]), label, 'seq[i]', kw, i, got)
            else:
                check(got[0] == 'exc' and got[1] is IndexError,
                      label, 'seq[i] oob', kw, i, got)
        for _ in range(4):
            a = rng.randint(-n - 2, n + 2)
            b = rng.randint(-n - 2, n + 2)
            check(list(seq[a:b]) == want[a:b], label, 'slice', kw, a, b)
            check(list(seq[a:]) == want[a:], label, 'slice a:', kw, a)
            check(list(seq[:b]) == want[:b], label, 'slice :b', kw, b)


# --------------------------------------------------------------------------
# 1-3, 5: random histories
# --------------------------------------------------------------------------

STALE_LEVELS = {}


def history(family, kind, py, leaf, internal, seed, offset, nkeys, full):
    rng = random.Random(seed)
    cls = small(family, kind, py, leaf, internal)
    label = '%s seed=%d' % (cls.__name__, seed)
    is_map = kind == 'BTree'
    tree = cls()
    universe = [offset + 2 + 2 * i for i in range(nkeys)]  # gaps in between
    domain = list(range(offset, offset + 2 * nkeys + 5))
    model = {}

    def put(k):
        v = value_for(family, k)
        if is_map:
            tree[k] = v
        else:
            tree.add(k)
        model[k] = v

    def drop(k):
        if is_map:
            del tree[k]
        else:
            tree.remove(k)
        del model[k]

    def verify(phase, full=full):
        ks = sorted(model)
        check(list(tree.keys()) == ks, label, phase, 'content')
        if hasattr(tree, '_check'):
            tree._check()
        nodes = nodes_of(tree) if is_c(cls) else []
        gc.collect()
        before = [sys.getrefcount(n) for n in nodes]
        battery(tree, ks, model if is_map else None, domain,
                label + ' ' + phase, rng, full)
        gc.collect()
        after = [sys.getrefcount(n) for n in nodes]
        check(before == after, label, phase, 'refcounts moved')
        present = set(ks)
        for deep, sep in separators_of(tree):
            if sep not in present:
                key = (is_c(cls), 'above nodes' if deep else 'above leaves')
                STALE_LEVELS[key] = STALE_LEVELS.get(key, 0) + 1

    verify('empty', full=False)
    order = list(universe)
    rng.shuffle(order)
    for k in order:
        put(k)
    verify('filled')
    # thin it: delete in random order down to about a fifth
    rng.shuffle(order)
    cut = len(order) - max(3, len(order) // 5)
    for k in order[:cut // 2]:
        drop(k)
    verify('half thinned')
    for k in order[cut // 2:cut]:
        drop(k)
    verify('thinned')
    # delete a contiguous run, leaving a wide gap behind a leaf's last key
    ks = sorted(model)
    for k in ks[1:-1]:
        drop(k)
    verify('two keys left', full=False)
    # regrow on one side only, then strip the smallest keys of every leaf
    for k in universe[len(universe) // 2:]:
        if k not in model:
            put(k)
    verify('regrown')
    behead_leaves(tree, model, is_map)
    verify('leaf heads removed')
    behead_leaves(tree, model, is_map)
    verify('leaf heads removed twice')
    ks = sorted(model)
    for k in ks[::3]:
        drop(k)
    verify('thinned again')
    for k in sorted(model):
        drop(k)
    verify('emptied', full=False)


# --------------------------------------------------------------------------
# 4a: bounds that cannot be converted
# --------------------------------------------------------------------------

def bad_bounds():
    for family, bads in (
            ('II', ['x', 1.5, 2 ** 40, -2 ** 40, 2 ** 70, ()]),
            ('LO', ['x', 1.5, 2 ** 70, -2 ** 70, ()]),
            ('UU', ['x', 1.5, -1, 2 ** 40, 2 ** 70]),
            ('QF', ['x', 1.5, -1, 2 ** 70])):
        for kind in ('BTree', 'TreeSet'):
            cls = small(family, kind, False, 2, 2)
            tree = cls()
            for k in range(3, 40, 2):
                if kind == 'BTree':
                    tree[k] = value_for(family, k)
                else:
                    tree.add(k)
            nodes = nodes_of(tree)
            gc.collect()
            before = [sys.getrefcount(n) for n in nodes]
            for bad in bads:
                for f in (lambda: tree.keys(bad),
                          lambda: tree.keys(None, bad),
                          lambda: tree.keys(5, bad, True, True),
                          lambda: tree.keys(bad, 9, True, True),
                          lambda: tree.minKey(bad),
                          lambda: tree.maxKey(bad)):
                    got = call(f)
                    check(got[0] == 'exc' and got[1] is TypeError,
                          cls.__name__, 'bad bound', bad, got)
            gc.collect()
            check(before == [sys.getrefcount(n) for n in nodes],
                  cls.__name__, 'bad bounds moved refcounts')
            check(list(tree.keys(4, 8)) == [5, 7], cls.__name__, 'alive')


# --------------------------------------------------------------------------
# 4b: comparisons that raise
# --------------------------------------------------------------------------

class Boom(Exception):
    pass


class Fuse:
    countdown = None   # None: never fail
    calls = 0

    @classmethod
    def tick(cls):
        cls.calls += 1
        if cls.countdown is not None:
            cls.countdown -= 1
            if cls.countdown <= 0:
                cls.countdown = None
                raise Boom('comparison %d' % cls.calls)


class K:
    """Totally ordered key whose comparisons can be made to fail."""
    __slots__ = ('n',)

    def __init__(self, n):
        self.n = n

    def __lt__(self, other):
        Fuse.tick()
        return self.n < other.n

    def __gt__(self, other):
        Fuse.tick()
        return self.n > other.n

    def __le__(self, other):
        Fuse.tick()
        return self.n <= other.n

    def __ge__(self, other):
        Fuse.tick()
        return self.n >= other.n

    def __eq__(self, other):
        Fuse.tick()
        return isinstance(other, K) and self.n == other.n

    def __ne__(self, other):
        Fuse.tick()
        return not (isinstance(other, K) and self.n == other.n)

    def __hash__(self):
        return hash(self.n)

    def __repr__(self):
        return 'K(%d)' % self.n


def failing_comparisons():
    rng = random.Random(20240501)
    for kind in ('BTree', 'TreeSet'):
        for leaf, internal in ((2, 2), (3, 2)):
            cls = small('OO', kind, False, leaf, internal)
            tree = cls()
            keys = {n: K(n) for n in range(2, 80, 2)}
            order = list(keys)
            rng.shuffle(order)
            for n in order:
                if kind == 'BTree':
                    tree[keys[n]] = n
                else:
                    tree.add(keys[n])
            rng.shuffle(order)
            for n in order[:len(order) // 3]:
                if kind == 'BTree':
                    del tree[keys[n]]
                else:
                    tree.remove(keys[n])
                del keys[n]
            byn = {k: k.n for k in keys.values()}
            behead_leaves(tree, byn, kind == 'BTree')
            keys = {n: k for n, k in keys.items() if k in byn}
            del byn
            ks = sorted(keys)
            check(any(sep.n not in keys for deep, sep in separators_of(tree)
                      if deep), cls.__name__, 'no stale separator high up')
            nodes = nodes_of(tree)
            probes = [K(n) for n in range(0, 83)]
            gc.collect()
            before = [sys.getrefcount(n) for n in nodes]
            kbefore = [sys.getrefcount(k) for k in keys.values()]
            pbefore = [sys.getrefcount(p) for p in probes]
            nfail = 0
            for i in range(len(probes)):
                nfail += fail_each_comparison(cls, tree, ks, probes, i)
            gc.collect()
            check(before == [sys.getrefcount(n) for n in nodes],
                  cls.__name__, 'failing comparisons moved node refcounts')
            check(kbefore == [sys.getrefcount(k) for k in keys.values()],
                  cls.__name__, 'failing comparisons moved key refcounts')
            check(pbefore == [sys.getrefcount(p) for p in probes],
                  cls.__name__, 'failing comparisons moved probe refcounts')
            check(nfail > 1000, cls.__name__, 'too few failures', nfail)
            check([k.n for k in tree.keys()] == ks, cls.__name__, 'alive')


def fail_each_comparison(cls, tree, ks, probes, i):
    p = probes[i]
    nfail = 0
    queries = [
        ('minKey', lambda: tree.minKey(p).n,
         model_minkey(ks, p.n)),
        ('maxKey', lambda: tree.maxKey(p).n,
         model_maxkey(ks, p.n)),
        ('keys lo', lambda: [k.n for k in tree.keys(p)],
         model_range(ks, p.n, None, False, False)),
        ('keys hi ex',
         lambda: [k.n for k in tree.keys(None, p, False, True)],
         model_range(ks, None, p.n, False, True)),
        ('keys lo ex hi',
         lambda: [k.n for k in tree.keys(p, probes[60], True)],
         model_range(ks, p.n, 60, True, False)),
    ]
    for name, q, want in queries:
        # how many comparisons does an undisturbed call make?
        Fuse.countdown = None
        Fuse.calls = 0
        got = call(q)
        total = Fuse.calls
        note('cmp', cls.__name__, name, p.n, total)
        if want is None:
            check(got[0] == 'exc' and got[1] is ValueError,
                  cls.__name__, name, p, got)
        else:
            check(got == ('ok', want), cls.__name__, name, p,
                  got, want)
        # now fail each of them in turn
        for nth in range(1, total + 1):
            Fuse.countdown = nth
            Fuse.calls = 0
            got = call(q)
            # (list() of a lazy sequence compares nothing, so
            # every failure is raised inside the range search)
            check(got[0] == 'exc' and got[1] is Boom,
                  cls.__name__, name, p, 'fail at', nth, got)
            check(Fuse.calls == nth, cls.__name__, name, p,
                  'comparisons after the failure', Fuse.calls)
            nfail += 1
        Fuse.countdown = None
    return nfail


# --------------------------------------------------------------------------
# 4c: activations that raise (ghost nodes, stand-in jar)
# --------------------------------------------------------------------------

class Jar:
    """Minimal stand-in for a ZODB connection: keeps the states of the
    registered objects (holding the child objects themselves) and loads
    them back on demand."""

    def __init__(self):
        self.states = {}
        self.calls = 0
        self.fail_at = None
        self.loaded = []

    def adopt(self, nodes):
        for i, node in enumerate(nodes):
            node._p_jar = self
            node._p_oid = b'%08d' % i
        for node in nodes:
            self.states[node._p_oid] = node.__getstate__()

    def setstate(self, obj):
        self.calls += 1
        if self.fail_at is not None and self.calls == self.fail_at:
            raise Boom('activation %d' % self.calls)
        self.loaded.append(int(obj._p_oid))
        obj.__setstate__(self.states[obj._p_oid])

    def readCurrent(self, obj):
        pass

    def register(self, obj):
        pass


GHOST, UPTODATE = -1, 0


def ghostify(nodes):
    for node in nodes:
        node._p_deactivate()
    for node in nodes:
        if node._p_state != GHOST:
            return False
    return True


def failing_activations():
    rng = random.Random(77)
    for family, kind, leaf, internal in (
            ('II', 'BTree', 2, 2), ('OO', 'BTree', 2, 3),
            ('LL', 'TreeSet', 2, 2), ('OO', 'TreeSet', 3, 2),
            ('UF', 'BTree', 2, 2)):
        cls = small(family, kind, False, leaf, internal)
        tree = cls()
        universe = list(range(4, 100, 3))
        rng.shuffle(universe)
        model = {}
        for k in universe:
            model[k] = value_for(family, k)
            if kind == 'BTree':
                tree[k] = model[k]
            else:
                tree.add(k)
        rng.shuffle(universe)
        for k in universe[:len(universe) * 3 // 5]:
            del model[k]
            if kind == 'BTree':
                del tree[k]
            else:
                tree.remove(k)
        behead_leaves(tree, model, kind == 'BTree')
        ks = sorted(model)
        check(any(sep not in model for deep, sep in separators_of(tree)
                  if deep), cls.__name__, 'no stale separator high up')
        nodes = nodes_of(tree)
        check(len(nodes) > 8, cls.__name__, 'tree too small', len(nodes))
        jar = Jar()
        jar.adopt(nodes)
        check(ghostify(nodes), cls.__name__, 'cannot ghostify')
        gc.collect()
        base = [sys.getrefcount(n) for n in nodes]
        domain = list(range(0, 104))
        nfail = 0
        for b in domain:
            queries = [
                ('minKey', lambda: tree.minKey(b), model_minkey(ks, b)),
                ('maxKey', lambda: tree.maxKey(b), model_maxkey(ks, b)),
                ('keys lo', lambda: list(tree.keys(b)),
                 model_range(ks, b, None, False, False)),
                ('keys hi', lambda: list(tree.keys(None, b)),
                 model_range(ks, None, b, False, False)),
                ('keys lo,hi ex', lambda: list(tree.keys(b, b + 9, True,
                                                         True)),
                 model_range(ks, b, b + 9, True, True)),
            ]
            if b % 3:
                queries = queries[:2] + [queries[2 + b % 3]]
            for name, q, want in queries:
                # undisturbed call on an all-ghost tree
                jar.fail_at = None
                jar.calls = 0
                jar.loaded = []
                got = call(q)
                total = jar.calls
                note('load', cls.__name__, name, b, jar.loaded)
                if want is None:
                    check(got[0] == 'exc' and got[1] is ValueError,
                          cls.__name__, name, b, got)
                else:
                    check(got == ('ok', want), cls.__name__, name, b, got)
                check(all(n._p_state in (GHOST, UPTODATE) for n in nodes),
                      cls.__name__, name, b, 'node left sticky')
                del got
                check(ghostify(nodes), cls.__name__, 'cannot re-ghostify')
                for nth in range(1, total + 1):
                    jar.fail_at = nth
                    jar.calls = 0
                    got = call(q)
                    if name.startswith('keys') and got[0] == 'ok':
                        # the range search itself succeeded and the failure
                        # hit list() later: not our business, but it must
                        # still have been reported -- cannot happen, list()
                        # is inside q
                        check(False, cls.__name__, name, b, nth, got)
                    check(got[0] == 'exc' and got[1] is Boom,
                          cls.__name__, name, b, 'fail at', nth, got)
                    check(jar.calls == nth, cls.__name__, name, b,
                          'activations after the failure', jar.calls, nth)
                    states = [n._p_state for n in nodes]
                    check(all(s in (GHOST, UPTODATE) for s in states),
                          cls.__name__, name, b, 'fail at', nth,
                          'node left sticky', states)
                    del got
                    check(ghostify(nodes), cls.__name__, 'cannot re-ghostify')
                    nfail += 1
                jar.fail_at = None
        gc.collect()
        check(base == [sys.getrefcount(n) for n in nodes],
              cls.__name__, 'failing activations moved refcounts')
        check(nfail > 500, cls.__name__, 'too few failures', nfail)
        jar.fail_at = None
        check(list(tree.keys()) == ks, cls.__name__, 'alive')


# --------------------------------------------------------------------------

def main():
    runs = 0
    # (family, offset of the key domain)
    plan = [('II', -30), ('OO', -7), ('LO', -2 ** 40), ('OI', 0),
            ('UU', 0), ('QL', 2 ** 40), ('LF', -11), ('IO', 2 ** 31 - 200)]
    sizes = [(2, 2), (3, 2), (2, 3), (4, 3)]
    seed = 1000
    for fi, (family, offset) in enumerate(plan):
        for kind in ('BTree', 'TreeSet'):
            for si, (leaf, internal) in enumerate(sizes):
                # the C classes get two of the four sizes per family and
                # kind; the Python classes a few sampled runs only (they
                # merely validate the model)
                seed += 1
                if (fi + si + (kind == 'TreeSet')) % 2:
                    continue
                nkeys = 26 if fi % 2 else 34
                history(family, kind, False, leaf, internal, seed, offset,
                        nkeys, full=True)
                runs += 1
                if (fi, si) in ((0, 0), (1, 1), (4, 2)):
                    history(family, kind, True, leaf, internal, seed, offset,
                            nkeys, full=False)
                    runs += 1
    # stale separators must have been met both right above the leaves and
    # higher up, in the C trees
    for where in ('above leaves', 'above nodes'):
        check(STALE_LEVELS.get((True, where), 0) > 50,
              'too few stale separators', where, STALE_LEVELS)
    bad_bounds()
    failing_comparisons()
    failing_activations()
    digest = DIGEST.hexdigest()
    check(digest == EXPECTED_DIGEST,
          'digest of comparison counts / activation orders',
          digest, 'expected', EXPECTED_DIGEST)
    if FAILURES:
        print('%d mismatches' % len(FAILURES))
        return 1
    print('ok: %d histories, stale separators %r, digest %s'
          % (runs, sorted(STALE_LEVELS.items()), digest[:16]))
    return 0


if __name__ == '__main__':
    sys.exit(main())
