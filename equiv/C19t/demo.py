"""Differential demo for refactoring t (Length._p_resolveConflict).

Run as:  PYTHONPATH=<tree>/src /venv/bin/python demo.py
Exits 0 when Length._p_resolveConflict behaves as the unmodified code does:
    result = (s1 + s2) - old      (exactly this association, evaluated once)
without ever touching ``self``.
"""
import pickle
import random
import sys

from persistent import PickleCache

from BTrees.Length import Length

FAILS = []


def check(cond, what):
    if not cond:
        FAILS.append(what)
        print("FAIL:", what)


# --------------------------------------------------------------------------
# tiny stand-in jar (no ZODB)
# --------------------------------------------------------------------------
class Jar(object):
    def __init__(self):
        self.store = {}
        self.setstates = []
        self.registered = []
        self._cache = PickleCache(self)
        self._n = 0

    def add(self, obj):
        self._n += 1
        oid = ('%08d' % self._n).encode('ascii')
        obj._p_jar = self
        obj._p_oid = oid
        self._cache[oid] = obj
        self.store[oid] = obj.__getstate__()
        obj._p_changed = False
        return oid

    def setstate(self, obj):
        self.setstates.append(obj._p_oid)
        obj.__setstate__(self.store[obj._p_oid])

    def register(self, obj):
        self.registered.append(obj._p_oid)


# --------------------------------------------------------------------------
# operand that records every arithmetic operation applied to it
# --------------------------------------------------------------------------
LOG = []


class Boom(Exception):
    pass


class Tr(object):
    def __init__(self, name, fail=()):
        self.name = name
        self.fail = fail

    def _do(self, op, other):
        oname = other.name if isinstance(other, Tr) else repr(other)
        LOG.append((op, self.name, oname))
        if op in self.fail:
            raise Boom(op)
        return Tr('%s(%s,%s)' % (op, self.name, oname))

    def __add__(self, other):
        return self._do('add', other)

    def __radd__(self, other):
        return self._do('radd', other)

    def __sub__(self, other):
        return self._do('sub', other)

    def __rsub__(self, other):
        return self._do('rsub', other)

    def __iadd__(self, other):       # must never be used by the resolver
        return self._do('iadd', other)

    def __isub__(self, other):       # must never be used by the resolver
        return self._do('isub', other)


def model(old, s1, s2):
    return (s1 + s2) - old


def rand_int(rng):
    kind = rng.randrange(6)
    if kind == 0:
        return rng.randrange(-5, 6)
    if kind == 1:
        return rng.randrange(-2 ** 31, 2 ** 31)
    if kind == 2:
        return rng.randrange(-2 ** 64, 2 ** 64)
    if kind == 3:
        return rng.choice([-1, 1]) * (2 ** rng.randrange(60, 70)
                                      + rng.randrange(-2, 3))
    if kind == 4:
        return rng.randrange(-2 ** 600, 2 ** 600)
    return rng.choice([0, 1, -1, sys.maxsize, -sys.maxsize - 1,
                       sys.maxsize + 1, 2 ** 63, 2 ** 64 - 1])


def main():
    rng = random.Random(190019)

    class Sub(Length):
        pass

    jar = Jar()
    ghost = Length(12345)
    ghost_oid = jar.add(ghost)
    ghost._p_deactivate()
    check(ghost._p_state == -1, "setup: ghost is a ghost")

    saved = Length(77)
    jar.add(saved)

    receivers = [
        Length(), Length(41), Sub(3), Length.__new__(Length),
        Sub.__new__(Sub), ghost, saved,
    ]

    # ---- 1. integers: the conflict-free counter law, both commit orders --
    for i in range(20000):
        old = rand_int(rng)
        a = rand_int(rng)
        b = rand_int(rng)
        s1 = old + a
        s2 = old + b
        r = receivers[i % len(receivers)]
        got12 = r._p_resolveConflict(old, s1, s2)
        got21 = r._p_resolveConflict(old, s2, s1)
        want = old + a + b
        check(got12 == want and type(got12) is int,
              "int resolve %r" % ((old, a, b),))
        check(got21 == want and type(got21) is int,
              "int resolve swapped %r" % ((old, a, b),))
        check(got12 == model(old, s1, s2), "int model %r" % ((old, a, b),))

    # the receivers were never touched
    check(ghost._p_state == -1, "ghost still a ghost after resolving")
    check(jar.setstates == [], "resolve never loads state: %r"
          % (jar.setstates,))
    check(jar.registered == [], "resolve never registers: %r"
          % (jar.registered,))
    check(saved._p_changed is False, "saved receiver not marked changed")
    check(saved() == 77 and receivers[1]() == 41 and receivers[2]() == 3,
          "receivers keep their own value")
    check('value' not in receivers[3].__dict__,
          "bare __new__ instance still has no instance value")

    # ---- 2. calling conventions -----------------------------------------
    lg = Length(9)
    check(lg._p_resolveConflict(old=10, s1=13, s2=8) == 11, "keywords")
    check(lg._p_resolveConflict(10, s2=8, s1=13) == 11, "mixed keywords")
    check(Length._p_resolveConflict(None, 10, 13, 8) == 11,
          "unbound call with self=None (self is unused)")
    check(Length._p_resolveConflict(object(), 1, 2, 3) == 4,
          "unbound call with arbitrary self")
    for bad in [(), (1,), (1, 2), (1, 2, 3, 4)]:
        try:
            lg._p_resolveConflict(*bad)
        except TypeError:
            pass
        else:
            check(False, "arity %r must raise TypeError" % (bad,))
    try:
        lg._p_resolveConflict(1, 2, 3, extra=4)
    except TypeError:
        pass
    else:
        check(False, "unknown keyword must raise TypeError")
    check(lg() == 9, "receiver unchanged by failed calls")

    # ---- 3. bools / floats / other numerics: exact same arithmetic -------
    r = lg._p_resolveConflict(False, True, True)
    check(r == 2 and type(r) is int, "bools")
    # association matters for floats: (1.0 + 1e16) - 1e16 == 0.0 whereas
    # 1.0 + (1e16 - 1e16) == 1.0
    r = lg._p_resolveConflict(1e16, 1.0, 1e16)
    check(r == 0.0 and type(r) is float, "float association (s1+s2)-old: %r"
          % (r,))
    r = lg._p_resolveConflict(1e16, 1e16, 1.0)
    check(r == 0.0, "float association swapped: %r" % (r,))
    for i in range(5000):
        old = rng.uniform(-1e17, 1e17) * rng.choice([1, 1e-20, 1e20])
        s1 = rng.uniform(-1e17, 1e17) * rng.choice([1, 1e-20, 1e20])
        s2 = rng.uniform(-1e17, 1e17) * rng.choice([1, 1e-20, 1e20])
        got = lg._p_resolveConflict(old, s1, s2)
        want = model(old, s1, s2)
        check(got.hex() == want.hex(), "float bitwise %r" % ((old, s1, s2),))
    r = lg._p_resolveConflict(float('inf'), float('inf'), 1.0)
    check(r != r, "inf - inf is nan")
    r = lg._p_resolveConflict(1, 2.5, 3)
    check(r == 4.5 and type(r) is float, "mixed int/float")
    r = lg._p_resolveConflict(1j, 2, 3)
    check(r == 5 - 1j and type(r) is complex, "complex")
    big = 10 ** 400
    try:
        lg._p_resolveConflict(0, big, 1.5)
    except OverflowError:
        pass
    else:
        check(False, "int too large for float must raise OverflowError")

    # ---- 4. order and number of operations (tracing operands) ------------
    def trace(old, s1, s2):
        del LOG[:]
        try:
            res = lg._p_resolveConflict(old, s1, s2)
            return ('ok', res.name if isinstance(res, Tr) else res,
                    list(LOG))
        except Boom as e:
            return ('boom', str(e), list(LOG))

    check(trace(Tr('o'), Tr('a'), Tr('b')) ==
          ('ok', 'sub(add(a,b),o)', [('add', 'a', 'b'),
                                     ('sub', 'add(a,b)', 'o')]),
          "trace: all tracers")
    check(trace(5, Tr('a'), 7) ==
          ('ok', 'sub(add(a,7),5)', [('add', 'a', '7'),
                                     ('sub', 'add(a,7)', '5')]),
          "trace: s1 tracer")
    check(trace(5, 6, Tr('b')) ==
          ('ok', 'sub(radd(b,6),5)', [('radd', 'b', '6'),
                                      ('sub', 'radd(b,6)', '5')]),
          "trace: s2 tracer uses __radd__")
    check(trace(Tr('o'), 6, 7) ==
          ('ok', 'rsub(o,13)', [('rsub', 'o', '13')]),
          "trace: old tracer sees the already summed value")
    check(trace(Tr('o'), 'x', 'y') ==
          ('ok', 'rsub(o,\'xy\')', [('rsub', 'o', "'xy'")]),
          "trace: strings are concatenated first")
    # failures: the addition fails -> the subtraction is never attempted
    check(trace(Tr('o'), Tr('a', fail=('add',)), Tr('b')) ==
          ('boom', 'add', [('add', 'a', 'b')]),
          "trace: failing add stops before sub")
    check(trace(Tr('o', fail=('rsub',)), 1, 2) ==
          ('boom', 'rsub', [('rsub', 'o', '3')]),
          "trace: failing rsub propagates")
    check(trace(Tr('o'), Tr('a', fail=('sub',)), 2)[0] == 'ok',
          "trace: s1.__sub__ is not what gets called (the sum is)")
    # result identity: whatever the subtraction returned is returned as is
    sentinel = object()

    class Ret(object):
        def __rsub__(self, other):
            return sentinel
    check(lg._p_resolveConflict(Ret(), 1, 2) is sentinel,
          "result object returned unchanged")

    # ---- 5. type errors --------------------------------------------------
    for args in [(1, 'a', 2), (1, 2, 'a'), (1, None, None), (1, 2, None),
                 ('a', 1, 2), (None, 1, 2), (1, 'a', 'b'), ([], [1], (2,)),
                 ([0], [1], [2])]:
        try:
            lg._p_resolveConflict(*args)
        except TypeError:
            pass
        else:
            check(False, "TypeError expected for %r" % (args,))
    del LOG[:]
    try:
        lg._p_resolveConflict(Tr('o'), 'a', 2)
    except TypeError:
        pass
    else:
        check(False, "str + int must raise TypeError")
    check(LOG == [], "old not consulted when s1 + s2 fails: %r" % (LOG,))

    # ---- 6. simulated two-transaction schedule through a jar -------------
    # (what ZODB's tryToResolveConflict does: fresh instance via __new__,
    #  states are the pickled __getstate__ values)
    for i in range(3000):
        old = rand_int(rng)
        a = rand_int(rng)
        b = rand_int(rng)
        t1 = pickle.loads(pickle.dumps(Length(old), 2))
        t2 = pickle.loads(pickle.dumps(Length(old), 2))
        t1.change(a)
        t2.change(b)
        st_old = Length(old).__getstate__()
        resolver = Length.__new__(Length)
        for first, second in ((t1, t2), (t2, t1)):
            merged = resolver._p_resolveConflict(
                st_old, first.__getstate__(), second.__getstate__())
            final = Length.__new__(Length)
            final.__setstate__(merged)
            check(final() == old + a + b, "schedule %r" % ((old, a, b),))
        check('value' not in resolver.__dict__, "resolver instance untouched")

    check(jar.setstates == [] and jar.registered == [],
          "jar never consulted: %r %r" % (jar.setstates, jar.registered))
    check(ghost._p_state == -1 and ghost._p_oid == ghost_oid,
          "ghost untouched at the end")

    if FAILS:
        print("%d check(s) failed" % len(FAILS))
        return 1
    print("demo t: OK")
    return 0


if __name__ == '__main__':
    sys.exit(main())
