"""Equivalence demonstration for refactoring C13p (see notes.md)."""
# ---------------------------------------------------------------------------
# Common part of the C13 equivalence demonstrations.
#
# Property C13: a key or value is stored only if it is representable in the
# family's declared type; representable data reads back equal to what was
# written (floats as their single-precision rounding in the C implementation);
# anything else is rejected with TypeError before the container is modified;
# looking up an unrepresentable key reports absence.
#
# Expectations are computed by a small reference model (pure integer range
# arithmetic, an exact int -> binary32 rounding routine, struct round trips)
# and by recorded message constants; they do not call into BTrees.
# ---------------------------------------------------------------------------
import importlib
import math
import struct
import sys

assert struct.calcsize('l') == 8, "model assumes a 64-bit C long"

FAILURES = []
LIMIT = 40
COUNTS = {'checks': 0}


def check(cond, *what):
    COUNTS['checks'] += 1
    if not cond:
        FAILURES.append(what)
        if len(FAILURES) <= LIMIT:
            print("MISMATCH:", *what)


INT_RANGE = {
    'I': (-2 ** 31, 2 ** 31 - 1),
    'U': (0, 2 ** 32 - 1),
    'L': (-2 ** 63, 2 ** 63 - 1),
    'Q': (0, 2 ** 64 - 1),
}
LONG_MIN, LONG_MAX = -2 ** 63, 2 ** 63 - 1

PY_DESCRIPTION = {
    'I': "32-bit integer expected",
    'U': "non-negative 32-bit integer expected",
    'L': "64-bit integer expected",
    'Q': "non-negative 64-bit integer expected",
    'F': "float expected",
}


class Idx:
    """Has __index__ but is not an int."""
    def __index__(self):
        return 7


class MyInt(int):
    pass


class DefaultCmp:
    """Inherits object's comparison: not orderable."""


class Ordered:
    def __init__(self, n):
        self.n = n

    def __lt__(self, other):
        return self.n < other.n

    def __eq__(self, other):
        return self.n == other.n

    def __hash__(self):
        return hash(self.n)


def int_to_f32(n):
    """Exact round-to-nearest-even of an int (|n| < 2**64) to binary32."""
    if n == 0:
        return 0.0
    sign = -1.0 if n < 0 else 1.0
    a = abs(n)
    bits = a.bit_length()
    if bits > 24:
        shift = bits - 24
        q, r = a >> shift, a & ((1 << shift) - 1)
        half = 1 << (shift - 1)
        if r > half or (r == half and (q & 1)):
            q += 1
        a = q << shift
    return sign * float(a)


def double_to_f32(x):
    try:
        return struct.unpack('f', struct.pack('f', x))[0]
    except OverflowError:
        return math.copysign(math.inf, x)


OK, ERR = 'ok', 'err'


def model(code, impl, x, role):
    """What storing *x* as *role* ('key'/'value') of type *code* must do.

    Returns (OK, stored_object_or_equal_value, exact_type_or_None)
         or (ERR, expected_exception_args)
    """
    if code in INT_RANGE:
        lo, hi = INT_RANGE[code]
        if impl == 'C':
            if not isinstance(x, int):
                return ERR, ("expected integer key",)
            if lo <= x <= hi:
                return OK, int(x), int
            if code == 'I':
                return ERR, ("integer out of range",)
            if code == 'U':
                if LONG_MIN <= x < 0:
                    return ERR, (
                        "can't convert negative value to unsigned int",)
                return ERR, ("integer out of range",)
            if code == 'L':
                return ERR, ("couldn't convert integer to C long long",)
            return ERR, ("overflow error converting int to C long long",)
        else:
            if isinstance(x, int):
                if lo <= x <= hi:
                    return OK, int(x), int
                return ERR, ("Value out of range", x)
            if isinstance(x, Idx):
                return OK, 7, int
            return ERR, (PY_DESCRIPTION[code],)
    if code == 'F':
        assert role == 'value'
        if impl == 'C':
            if isinstance(x, float):
                return OK, double_to_f32(x), float
            if isinstance(x, int):
                if LONG_MIN <= x <= LONG_MAX:
                    return OK, int_to_f32(x), float
                return ERR, ("integer out of range",)
            return ERR, ("expected float or int value",)
        else:
            if isinstance(x, (int, float)):
                return OK, float(x), float
            if isinstance(x, Idx):
                return OK, 7.0, float
            return ERR, (PY_DESCRIPTION['F'],)
    if code == 'O':
        if role == 'key' and type(x).__lt__ is object.__lt__ \
                and x is not None:
            return ERR, ("Object of class %s has default comparison"
                         % type(x).__name__,)
        return OK, x, None
    if code == 'f':      # fsBTree: 2-byte keys, 6-byte values
        n = 2 if role == 'key' else 6
        if isinstance(x, bytes) and len(x) == n:
            return OK, x, bytes
        if impl == 'C':
            return ERR, ("expected %s-character string key"
                         % ('two' if n == 2 else 'six'),)
        return ERR, ("%d-byte array expected, not %r" % (n, x),)
    raise AssertionError(code)


def same(got, exp, exact_type):
    if exact_type is None:
        return got is exp
    if type(got) is not exact_type:
        return False
    if isinstance(exp, float) and math.isnan(exp):
        return math.isnan(got)
    return got == exp


INT_POOL = [0, 1, -1, True, False, 5, MyInt(5), MyInt(2 ** 40),
            2 ** 24 + 1, 2 ** 25 + 3, 2 ** 53 + 1, 10 ** 30, -10 ** 30]
for _b in (31, 32, 63, 64):
    for _d in (-1, 0, 1):
        INT_POOL.append(2 ** _b + _d)
        INT_POOL.append(-(2 ** _b) + _d)
FLOAT_POOL = [0.0, 1.5, 0.1, -2.75, 1e-45, 1e-50, 3.4028234663852886e38,
              3.4028235677973366e38, 1e39, -1e39,
              math.inf, -math.inf, math.nan, 16777217.0]
OTHER_POOL = ["a", "ab", b"", b"a", b"ab", b"abc", b"abcde", b"abcdef",
              b"abcdefg", None, DefaultCmp(), Ordered(3), (1, 2), Idx(),
              bytearray(b"ab"), bytearray(b"abcdef")]
POOL = INT_POOL + FLOAT_POOL + OTHER_POOL

GOOD = {   # a representable datum per type code, distinct from the pool's
    'I': 12345, 'U': 12345, 'L': 12345, 'Q': 12345, 'F': 0.5,
    'O': 12345, 'f': None,
}
GOOD_KEY_f, GOOD_VALUE_f = b'zz', b'zzzzzz'


def good(code, role):
    if code == 'f':
        return GOOD_KEY_f if role == 'key' else GOOD_VALUE_f
    return GOOD[code]


class Jar:
    def __init__(self):
        self.registered = []

    def register(self, obj):
        self.registered.append(obj)

    def setstate(self, obj):
        pass

    def readCurrent(self, obj):
        pass


def families():
    """Yield (kcode, vcode, module)."""
    for k in "IULQO":
        for v in "IULQOF":
            try:
                m = importlib.import_module("BTrees.%s%sBTree" % (k, v))
            except ImportError:
                continue
            yield k, v, m
    yield 'f', 'f', importlib.import_module("BTrees.fsBTree")


def cls_of(module, kind, impl):
    prefix = module.__name__.split('.')[-1][:2]
    return getattr(module, prefix + kind + ('Py' if impl == 'Py' else ''))


def attach(c):
    jar = Jar()
    c._p_jar = jar
    c._p_oid = b'\0' * 8
    return jar


def snapshot(c, is_set):
    return list(c.keys()) if is_set else list(c.items())


def nodes(c):
    """The persistent objects that make up *c* (tree + first bucket)."""
    out = [c]
    fb = getattr(c, '_firstbucket', None)
    if fb is not None:
        out.append(fb)
    return out


def outcome(fn):
    try:
        return OK, fn()
    except BaseException as e:      # noqa: B902 - we want the class
        return ERR, e


MAP_WRITERS = {
    'setitem': lambda c, k, v: c.__setitem__(k, v),
    'setdefault': lambda c, k, v: c.setdefault(k, v),
    'update-dict-or-pairs': lambda c, k, v: c.update([(k, v)]),
    'insert': lambda c, k, v: c.insert(k, v),
}
SET_WRITERS = {
    'add': lambda c, k, v: c.add(k),
    'insert': lambda c, k, v: c.insert(k),
    'update': lambda c, k, v: c.update([k]),
}


def run_write(tag, make, writer, k, v, is_set, exp_k, exp_v, prepopulated):
    """Perform one write through *writer* on a fresh container from *make*
    and compare with the model's expectation."""
    c = make()
    before = snapshot(c, is_set)
    jars = [(n, attach(n)) for n in nodes(c)]
    kind, res = outcome(lambda: writer(c, k, v))
    expect_ok = exp_k[0] == OK and (is_set or exp_v[0] == OK)
    if expect_ok:
        check(kind == OK, tag, 'expected success, got', repr(res))
        if kind != OK:
            return
        keys = list(c.keys())
        check(len(keys) == len(before) + 1, tag, 'one item added', keys)
        stored_k = [x for x in keys
                    if not any(x is b or x == b for b in
                               ([bk if is_set else bk[0] for bk in before]))]
        check(len(stored_k) == 1 and same(stored_k[0], exp_k[1], exp_k[2]),
              tag, 'key reads back', stored_k, exp_k[1])
        if not is_set and len(stored_k) == 1:
            got_v = c[k]
            check(same(got_v, exp_v[1], exp_v[2]),
                  tag, 'value reads back', repr(got_v), repr(exp_v[1]))
            check(k in c and c.get(k, c) is not c, tag, 'lookup finds it')
        check(any(j.registered for _, j in jars), tag,
              'a successful write registers with the jar')
    else:
        # key errors win over value errors (the key is converted first)
        exp_args = exp_k[1] if exp_k[0] == ERR else exp_v[1]
        check(kind == ERR and type(res) is TypeError, tag,
              'expected TypeError, got', repr(res))
        if kind == ERR and type(res) is TypeError:
            check(res.args == exp_args, tag, 'message', res.args, exp_args)
        check(snapshot(c, is_set) == before, tag, 'container unchanged')
        for n, j in jars:
            check(not j.registered and not n._p_changed, tag,
                  'rejected write must not notify persistence')


def run_lookup(tag, c, k, is_set):
    """An unrepresentable key is simply absent."""
    check((k in c) is False, tag, 'in')
    if hasattr(c, 'has_key'):
        check(not c.has_key(k), tag, 'has_key')
    if not is_set:
        marker = object()
        check(c.get(k, marker) is marker, tag, 'get')
        kind, res = outcome(lambda: c[k])
        check(kind == ERR and type(res) is KeyError, tag, '[] ->', repr(res))


def sweep(impls=('C', 'Py'), only=None, pool=POOL, kinds=None):
    """The full C13 sweep over families x implementations x containers x
    entry points x offered data."""
    for kcode, vcode, module in families():
        if only is not None and not only(kcode, vcode):
            continue
        for impl in impls:
            for kind in (kinds or ('BTree', 'Bucket', 'TreeSet', 'Set')):
                cls = cls_of(module, kind, impl)
                is_set = kind in ('TreeSet', 'Set')
                name = cls.__name__ + ('' if impl == 'Py' else '(C)')
                gk, gv = good(kcode, 'key'), good(vcode, 'value')

                def make_pre(cls=cls, is_set=is_set, gk=gk, gv=gv,
                             kcode=kcode):
                    c = cls()
                    if kcode != 'O':     # mixed-type object keys can't sort
                        if is_set:
                            c.add(gk)
                        else:
                            c[gk] = gv
                    return c

                writers = dict(SET_WRITERS if is_set else MAP_WRITERS)
                if kind not in ('BTree', 'TreeSet'):
                    writers.pop('insert')

                for x in pool:
                    exp_xk = model(kcode, impl, x, 'key')
                    exp_gk = model(kcode, impl, gk, 'key')
                    # x offered as key
                    for wname, w in writers.items():
                        run_write((name, wname, 'key', repr(x)), make_pre, w,
                                  x, gv, is_set, exp_xk,
                                  model(vcode, impl, gv, 'value'), True)
                    # constructor
                    arg = [x] if is_set else [(x, gv)]
                    kind_, res = outcome(lambda: cls(arg))
                    tag = (name, 'constructor', 'key', repr(x))
                    if exp_xk[0] == OK:
                        check(kind_ == OK and len(res) == 1 and
                              same(list(res.keys())[0], exp_xk[1], exp_xk[2]),
                              tag, repr(res))
                    else:
                        check(kind_ == ERR and type(res) is TypeError and
                              res.args == exp_xk[1], tag, repr(res))
                    # lookups of unrepresentable keys
                    if exp_xk[0] == ERR:
                        run_lookup((name, 'lookup', repr(x)), make_pre(), x,
                                   is_set)
                    # C __setstate__ (the Python one does not validate)
                    if impl == 'C' and kind in ('Bucket', 'Set'):
                        st = ((x,),) if is_set else ((x, gv),)
                        c = cls()
                        kind_, res = outcome(lambda: c.__setstate__(st))
                        tag = (name, '__setstate__', 'key', repr(x))
                        # no default-comparison check on __setstate__
                        if exp_xk[0] == OK or kcode == 'O':
                            check(kind_ == OK and len(c) == 1 and
                                  same(list(c.keys())[0],
                                       exp_xk[1] if exp_xk[0] == OK else x,
                                       exp_xk[2] if exp_xk[0] == OK else None),
                                  tag, repr(res))
                        else:
                            check(kind_ == ERR and type(res) is TypeError
                                  and res.args == exp_xk[1], tag, repr(res))
                    if is_set:
                        continue
                    # x offered as value
                    exp_xv = model(vcode, impl, x, 'value')
                    for wname, w in writers.items():
                        run_write((name, wname, 'value', repr(x)),
                                  (lambda cls=cls: cls()), w,
                                  gk, x, is_set, exp_gk, exp_xv, False)
                    # replacing an existing value: rejected -> old value kept
                    c = make_pre()
                    if kcode == 'O':
                        c[gk] = gv
                    kind_, res = outcome(lambda: c.__setitem__(gk, x))
                    tag = (name, 'replace', 'value', repr(x))
                    if exp_xv[0] == OK:
                        check(kind_ == OK and same(c[gk], exp_xv[1],
                                                   exp_xv[2]), tag, repr(res))
                    else:
                        check(kind_ == ERR and type(res) is TypeError and
                              res.args == exp_xv[1], tag, repr(res))
                        check(list(c.items()) == [(gk, gv)], tag, 'kept')
                    kind_, res = outcome(lambda: cls([(gk, x)]))
                    tag = (name, 'constructor', 'value', repr(x))
                    if exp_xv[0] == OK:
                        check(kind_ == OK and same(res[gk], exp_xv[1],
                                                   exp_xv[2]), tag, repr(res))
                    else:
                        check(kind_ == ERR and type(res) is TypeError and
                              res.args == exp_xv[1], tag, repr(res))
                    if impl == 'C' and kind == 'Bucket':
                        c = cls()
                        kind_, res = outcome(
                            lambda: c.__setstate__(((gk, x),)))
                        tag = (name, '__setstate__', 'value', repr(x))
                        if exp_xv[0] == OK:
                            check(kind_ == OK and same(c[gk], exp_xv[1],
                                                       exp_xv[2]),
                                  tag, repr(res))
                        else:
                            check(kind_ == ERR and type(res) is TypeError
                                  and res.args == exp_xv[1], tag, repr(res))


def finish(label):
    print("%s: %d checks, %d mismatches" % (label, COUNTS['checks'],
                                            len(FAILURES)))
    sys.exit(1 if FAILURES else 0)


# ---------------------------------------------------------------------------
# C13p specific: the 64-bit helpers in BTreeModuleTemplate.c
#   longlong_handle_overflow / longlong_check / ulonglong_check /
#   ulonglong_convert
# ---------------------------------------------------------------------------
import pickle


def expect(tag, fn, want):
    kind, res = outcome(fn)
    if isinstance(want, tuple) and want and want[0] is TypeError:
        check(kind == ERR and type(res) is TypeError and res.args == want[1:],
              tag, repr(res), want)
    else:
        check(kind == OK and res == want, tag, repr(res), want)


def p_specific():
    import BTrees.LLBTree as LL
    import BTrees.QQBTree as QQ
    import BTrees.LQBTree as LQ
    import BTrees.QLBTree as QL

    # 1. The two "looks like the error sentinel but is not" values:
    #    -1 for signed 64 bit and 2**64-1 == (unsigned long long)-1.
    for cls in (LL.LLBTree, LL.LLBucket, QL.QLBTree, QL.QLBucket):
        c = cls()
        c[5] = -1
        check(c[5] == -1 and type(c[5]) is int, cls.__name__, 'value -1')
    for cls in (LL.LLBTree, LL.LLBucket, LL.LLSet, LL.LLTreeSet,
                LQ.LQBTree, LQ.LQBucket):
        c = cls()
        (c.add(-1) if hasattr(c, 'add') else c.__setitem__(-1, 5))
        check(list(c.keys()) == [-1] and -1 in c, cls.__name__, 'key -1')
    top = 2 ** 64 - 1
    for cls in (QQ.QQBTree, QQ.QQBucket, LQ.LQBTree, LQ.LQBucket):
        c = cls()
        c[5] = top
        check(c[5] == top and type(c[5]) is int, cls.__name__, 'value max')
    for cls in (QQ.QQBTree, QQ.QQBucket, QQ.QQSet, QQ.QQTreeSet,
                QL.QLBTree, QL.QLBucket):
        c = cls()
        (c.add(top) if hasattr(c, 'add') else c.__setitem__(top, 5))
        check(list(c.keys()) == [top] and top in c, cls.__name__, 'key max')
        c2 = pickle.loads(pickle.dumps(c))
        check(list(c2.keys()) == [top], cls.__name__, 'pickle key max')

    # 2. KEY_CHECK (longlong_check / ulonglong_check) decides whether a
    #    bare integer may stand for a one-element set in the set operations.
    #    Expected results are recorded constants / plain set arithmetic.
    NOT_ITER = (TypeError, "'int' object is not iterable")
    for M, name, lo, hi in ((LL, 'LL', -2 ** 63, 2 ** 63 - 1),
                            (QQ, 'QQ', 0, 2 ** 64 - 1)):
        S = getattr(M, name + 'Set')
        for x in (3, 0, -1, True, 2 ** 31, 2 ** 63 - 1, 2 ** 63, -2 ** 63,
                  -2 ** 63 - 1, 2 ** 64 - 1, 2 ** 64, 10 ** 30):
            fits = lo <= x <= hi
            tag = (name, 'setop', repr(x))
            expect(tag + ('union',),
                   lambda: list(M.union(S([1, 2]), x)),
                   sorted({1, 2, int(x)}) if fits else NOT_ITER)
            expect(tag + ('intersection',),
                   lambda: list(M.intersection(S([1, 3]), x)),
                   sorted({1, 3} & {int(x)}) if fits else NOT_ITER)
            expect(tag + ('difference',),
                   lambda: list(M.difference(S([1, 3]), x)),
                   sorted({1, 3} - {int(x)}) if fits else NOT_ITER)
            expect(tag + ('multiunion',),
                   lambda: list(M.multiunion([x, 5])),
                   sorted({5, int(x)}) if fits else NOT_ITER)
        expect((name, 'setop', 'str'), lambda: list(M.union(S([1]), 'a')),
               (TypeError, "expected integer key"))
        expect((name, 'setop', 'float'), lambda: list(M.union(S([1]), 1.5)),
               (TypeError, "'float' object is not iterable"))

    # 3. Reference counts of the offered objects are unchanged whether the
    #    conversion succeeds or fails, and no exception stays pending.
    for cls in (LL.LLBTree, LL.LLBucket, QQ.QQBTree, QQ.QQBucket):
        for x in (2 ** 62 + 12345, -2 ** 70, 2 ** 64 - 1, 2 ** 64 + 7):
            c = cls()
            rc = sys.getrefcount(x)
            for _ in range(3):
                outcome(lambda: c.__setitem__(x, 1))
                outcome(lambda: c.__setitem__(1, x))
                outcome(lambda: x in c)
                outcome(lambda: c.get(x))
                outcome(lambda: c.setdefault(x, x))
            check(sys.getrefcount(x) == rc, cls.__name__, 'refcount', x)


sweep()
p_specific()
finish('C13p')
