"""Differential demo for refactoring v (pure-Python leaf methods that modify
_keys/_values: Bucket._set/_del/_split, Set._set/_del/_split, and the lazy
sequence _TreeItems: __getitem__/__len__).

Run as:  PYTHONPATH=<tree>/src /venv/bin/python demo.py

Three parts:

 A. Leaves, one operation at a time.  Every operation is applied to a real
    leaf through its method and to a twin leaf through a reference function
    that spells out the specified behaviour on plain lists.  Compared: the
    returned (status, value) pair or the exception (type and arguments), the
    keys and values, the chain of _next links, _p_changed, the calls made to
    the storage stand-in (setstate / register) - also when a key comparison
    or a value comparison raises, when the leaf is a ghost and when the ghost
    cannot be loaded.

 B. Trees with tiny nodes against a dict:  random inserts, deletes, pops,
    setdefault, clear;  _check() and full contents all along.

 C. Lazy sequences (tree.keys()/values()/items() with all range arguments)
    against a reference cursor written out below, on the same tree, with
    indexing (also negative, out of range, not an int), slicing and len()
    interleaved with inserts, deletes, emptying of the leaf a cursor is
    parked on and clear().  Every step must give the same entry or the same
    exception (with the same __context__) and leave the same cursor state.
    Whenever a fresh sequence is taken it must equal the sorted dict.

Exits 0 when every outcome was as specified.
"""
import random
import sys

from BTrees import OOBTree as OO_, IOBTree as IO_, IIBTree as II_
from BTrees import LFBTree as LF_, OLBTree as OL_, UUBTree as UU_
from BTrees import QOBTree as QO_, fsBTree as fs_
from BTrees._base import _TreeItems


class Failure(Exception):
    pass


class Boom(Exception):
    pass


class Jar:
    def __init__(self):
        self.states = {}
        self.fail = set()
        self.log = []

    def setstate(self, obj):
        self.log.append(('setstate', obj._p_oid))
        if obj._p_oid in self.fail:
            raise Boom(obj._p_oid)
        obj.__setstate__(self.states[obj._p_oid])

    def register(self, obj):
        self.log.append(('register', obj._p_oid))

    def readCurrent(self, obj):
        self.log.append(('readCurrent', obj._p_oid))


def small(cls, **extra):
    d = {'max_leaf_size': 4, 'max_internal_size': 3}
    d.update(extra)
    return type(cls.__name__ + 'Small', (cls,), d)


class Family:
    def __init__(self, mod, prefix, valkind, unsigned=False):
        self.mod = mod
        self.prefix = prefix
        self.BTree = small(getattr(mod, prefix + 'BTreePy'))
        self.TreeSet = small(getattr(mod, prefix + 'TreeSetPy'))
        self.Bucket = getattr(mod, prefix + 'BucketPy')
        self.Set = getattr(mod, prefix + 'SetPy')
        self.valkind = valkind
        self.unsigned = unsigned

    def key(self, rnd):
        if self.prefix == 'fs':
            return bytes([97 + rnd.randrange(6), 97 + rnd.randrange(12)])
        if self.unsigned:
            return rnd.randrange(0, 70)
        return rnd.randrange(-35, 35)

    def value(self, rnd, key):
        salt = rnd.randrange(3)
        if self.prefix == 'fs':
            return key * 3 if salt else b'zzzzzz'
        if self.valkind == 'f':
            return float(key) * 2 + salt + 0.5
        if self.valkind == 'u':
            return abs(key) * 3 + salt
        if self.valkind == 'o':
            return ('v', key, salt)
        return key * 3 - salt


FAMILIES = [
    Family(OO_, 'OO', 'o'),
    Family(IO_, 'IO', 'o'),
    Family(II_, 'II', 'i'),
    Family(LF_, 'LF', 'f'),
    Family(OL_, 'OL', 'i'),
    Family(UU_, 'UU', 'u', unsigned=True),
    Family(QO_, 'QO', 'o', unsigned=True),
    Family(fs_, 'fs', 's'),
]


def describe(fn):
    """Outcome of fn(): ('ok', result) or the exception, with context."""
    try:
        return ('ok', fn())
    except Exception as e:
        ctx = e.__context__
        if e.__cause__ is not None or e.__suppress_context__:
            return (type(e).__name__, e.args, 'explicit cause')
        return (type(e).__name__, e.args,
                None if ctx is None else type(ctx).__name__)


# ==========================================================================
# Part A: single leaves against reference functions

class Touchy:
    """An orderable key (or comparable value) that can be made to raise."""
    explode = False

    def __init__(self, n):
        self.n = n

    def _n(self, other):
        if Touchy.explode:
            raise Boom('compare')
        return other.n if isinstance(other, Touchy) else other

    def __eq__(self, other):
        return self.n == self._n(other)

    def __ne__(self, other):
        return self.n != self._n(other)

    def __lt__(self, other):
        return self.n < self._n(other)

    def __gt__(self, other):
        return self.n > self._n(other)

    def __le__(self, other):
        return self.n <= self._n(other)

    def __ge__(self, other):
        return self.n >= self._n(other)

    def __hash__(self):
        return hash(self.n)

    def __repr__(self):
        return 'T%d' % self.n


def ref_search(keys, key):
    """Index of key in the sorted list keys, or -(insertion point) - 1."""
    low, high = 0, len(keys)
    while low < high:
        i = (low + high) // 2
        k = keys[i]
        if k is key or k == key:
            return i
        if (k > key) - (key > k) < 0:
            low = i + 1
        else:
            high = i
    return -1 - low


class RefLeaf:
    """The specified behaviour of a leaf, on plain lists.

    'changed' stands for _p_changed, 'registered' counts jar.register().
    """

    def __init__(self, is_set, same_check=False):
        self.is_set = is_set
        self.same_check = same_check
        self.keys = []
        self.values = []
        self.next = None
        self.changed = False
        self.registered = 0

    def touch(self):
        if not self.changed:
            self.changed = True
            self.registered += 1

    def set(self, key, value=None, ifunset=False):
        index = ref_search(self.keys, key)
        if self.is_set:
            if index < 0:
                self.touch()
                self.keys.insert(-index - 1, key)
                return True, None
            return False, None
        if index >= 0:
            if ifunset or (self.same_check and value == self.values[index]):
                return None, self.values[index]
            self.touch()
            self.values[index] = value
            return 0, value
        self.touch()
        self.keys.insert(-index - 1, key)
        self.values.insert(-index - 1, value)
        return 1, value

    def delete(self, key):
        index = ref_search(self.keys, key)
        if index < 0:
            raise KeyError(key)
        self.touch()
        del self.keys[index]
        if self.is_set:
            return 0, 0
        return 0, self.values.pop(index)

    def split(self, index=-1):
        if index < 0 or index >= len(self.keys):
            index = len(self.keys) // 2
        new = RefLeaf(self.is_set, self.same_check)
        new.keys = self.keys[index:]
        del self.keys[index:]
        if not self.is_set:
            new.values = self.values[index:]
            del self.values[index:]
        new.next = self.next
        # (storing an attribute of a persistent object marks it as changed)
        self.touch()
        self.next = new
        return new


def real_chain(leaf, is_set):
    out = []
    seen = set()
    while leaf is not None:
        if id(leaf) in seen:
            raise Failure('cycle in the chain of leaves')
        seen.add(id(leaf))
        out.append((list(leaf._keys), None if is_set else list(leaf._values)))
        leaf = leaf._next
    return out


def ref_chain(leaf):
    out = []
    while leaf is not None:
        out.append((list(leaf.keys), None if leaf.is_set else
                    list(leaf.values)))
        leaf = leaf.next
    return out


def leaf_round(cls, is_set, seed, touchy, same_check=False):
    rnd = random.Random(seed)
    where = '%s seed=%r' % (cls.__name__, seed)
    if same_check:
        cls = type(cls.__name__ + 'SameCheck', (cls,),
                   {'VALUE_SAME_CHECK': True})
    jar = Jar()
    oids = [0]

    def adopt(leaf):
        oids[0] += 1
        leaf._p_jar = jar
        leaf._p_oid = b'%04d' % oids[0]

    head = cls()
    adopt(head)
    ref_head = RefLeaf(is_set, same_check)
    leaves = [(head, ref_head)]     # every leaf of the chain with its twin

    def mk_key():
        n = rnd.randrange(0, 40)
        return Touchy(n) if touchy else n

    def mk_value():
        n = rnd.randrange(0, 4)
        return Touchy(n) if touchy else n

    def raw(x):
        return x.n if isinstance(x, Touchy) else x

    def norm(outcome):
        # Touchy objects compare through code that may be set to explode;
        # compare by identity-free content instead
        def n(x):
            if isinstance(x, tuple):
                return tuple(n(y) for y in x)
            if isinstance(x, list):
                return [n(y) for y in x]
            return raw(x)
        return n(outcome)

    steps = 0
    for _ in range(400):
        leaf, ref = rnd.choice(leaves)
        x = rnd.random()
        explode = touchy and rnd.random() < 0.12
        new_pair = []
        if x < 0.45:
            k = mk_key()
            v = None if is_set else mk_value()
            ifunset = rnd.random() < 0.25
            what = '_set(%r, %r, %r)' % (k, v, ifunset)
            if is_set:
                def real():
                    return leaf._set(k)

                def model():
                    return ref.set(k)
            else:
                def real():
                    return leaf._set(k, v, ifunset)

                def model():
                    return ref.set(k, v, ifunset)
        elif x < 0.80:
            k = mk_key()
            if ref.keys and rnd.random() < 0.7:
                k = rnd.choice(ref.keys)
            what = '_del(%r)' % (k,)

            def real():
                return leaf._del(k)

            def model():
                return ref.delete(k)
        else:
            n = len(ref.keys)
            arg = rnd.choice([None, -1, 0, 1, n - 1, n, n + 1, -2,
                              rnd.randrange(0, n + 1)])
            what = '_split(%r)' % (arg,)

            def real():
                new = leaf._split() if arg is None else leaf._split(arg)
                if type(new) is not type(leaf):
                    raise Failure('%s: _split() made a %r'
                                  % (where, type(new)))
                if new._p_jar is not None or new._p_changed:
                    raise Failure('%s: state of the new leaf' % where)
                new_pair.append(new)
                return 'split'

            def model():
                new = ref.split() if arg is None else ref.split(arg)
                new_pair.append(new)
                return 'split'

        before_log = len(jar.log)
        before_reg = ref.registered
        Touchy.explode = explode
        try:
            got = describe(real)
            expected = describe(model)
        finally:
            Touchy.explode = False
        steps += 1
        if norm(got) != norm(expected):
            raise Failure('%s: %s: expected %r, got %r'
                          % (where, what, expected, got))
        if len(new_pair) == 2:
            adopt(new_pair[0])
            leaves.append((new_pair[0], new_pair[1]))
        elif new_pair:
            raise Failure('%s: %s: only one side split' % (where, what))
        # contents, links, change flag, registrations
        if norm(real_chain(head, is_set)) != norm(ref_chain(ref_head)):
            raise Failure('%s: %s: chains differ:\n%r\n%r'
                          % (where, what, real_chain(head, is_set),
                             ref_chain(ref_head)))
        if bool(leaf._p_changed) != ref.changed:
            raise Failure('%s: %s: _p_changed is %r, expected %r'
                          % (where, what, leaf._p_changed, ref.changed))
        new_log = jar.log[before_log:]
        want_log = [('register', leaf._p_oid)] * (ref.registered - before_reg)
        if new_log != want_log:
            raise Failure('%s: %s: jar calls %r, expected %r'
                          % (where, what, new_log, want_log))
        # now and then: "commit"
        if rnd.random() < 0.2:
            for lf, rf in leaves:
                lf._p_changed = False
                rf.changed = False
    return steps


def ghost_leaf_scenarios():
    """A ghost leaf is loaded before it is modified; a failing load leaves
    everything alone."""
    for fam in FAMILIES[:6]:
        for cls, is_set in ((fam.Bucket, False), (fam.Set, True)):
            jar = Jar()
            leaf = cls()
            nxt = cls()
            rnd = random.Random('ghost' + fam.prefix)
            keys = set()
            while len(keys) < 8:
                keys.add(fam.key(rnd))
            keys = sorted(keys)
            for k in keys:
                if is_set:
                    leaf._set(k)
                else:
                    leaf._set(k, fam.value(rnd, k))
            leaf._next = nxt
            leaf._p_jar = jar
            leaf._p_oid = b'leaf'
            state = leaf.__getstate__()
            jar.states[b'leaf'] = state
            items = None if is_set else list(leaf._values)

            def ghostify():
                leaf._p_changed = False
                leaf._p_deactivate()
                if leaf._p_changed is not None:
                    raise Failure('could not make a ghost')
                del jar.log[:]

            # _del on a ghost
            ghostify()
            got = leaf._del(keys[2])
            want = (0, 0) if is_set else (0, items[2])
            if got != want or leaf._keys != keys[:2] + keys[3:]:
                raise Failure('%s: _del on a ghost: %r' % (cls.__name__, got))
            if jar.log != [('setstate', b'leaf'), ('register', b'leaf')]:
                raise Failure('%s: _del on a ghost: jar %r'
                              % (cls.__name__, jar.log))
            # _set on a ghost (the deletion above was never "saved")
            ghostify()
            got = leaf._set(keys[2]) if is_set else leaf._set(keys[2], items[0])
            want = (False, None) if is_set else (0, items[0])
            if got != want or leaf._keys != keys:
                raise Failure('%s: _set on a ghost: %r' % (cls.__name__, got))
            want_log = [('setstate', b'leaf')]
            if not is_set:
                want_log.append(('register', b'leaf'))
            if jar.log != want_log:
                raise Failure('%s: _set on a ghost: jar %r'
                              % (cls.__name__, jar.log))
            # _split on a ghost
            ghostify()
            new = leaf._split()
            if (leaf._keys != keys[:4] or new._keys != keys[4:]
                    or leaf._next is not new or new._next is not nxt):
                raise Failure('%s: _split on a ghost' % cls.__name__)
            if not is_set and (leaf._values != items[:4]
                               or new._values != items[4:]):
                raise Failure('%s: _split on a ghost: values' % cls.__name__)
            if jar.log != [('setstate', b'leaf'), ('register', b'leaf')]:
                raise Failure('%s: _split on a ghost: jar %r'
                              % (cls.__name__, jar.log))
            # a ghost that cannot be loaded
            leaf._p_changed = False
            leaf._p_invalidate()
            del jar.log[:]
            jar.fail.add(b'leaf')
            for fn in (lambda: leaf._del(keys[0]),
                       lambda: leaf._set(keys[0], None),
                       lambda: leaf._split(),
                       lambda: leaf._split(2)):
                got = describe(fn)
                if got != ('Boom', (b'leaf',), None):
                    raise Failure('%s: unloadable ghost: %r'
                                  % (cls.__name__, got))
                if leaf._p_changed is not None:
                    raise Failure('%s: unloadable ghost woke up'
                                  % cls.__name__)
            if [e[0] for e in jar.log] != ['setstate'] * 4:
                raise Failure('%s: unloadable ghost: jar %r'
                              % (cls.__name__, jar.log))
            jar.fail.clear()
            if leaf._keys != keys:
                raise Failure('%s: state after failed loads' % cls.__name__)


def part_a():
    steps = 0
    n = 0
    for fam in FAMILIES[:1]:
        # object keys and values that can be told to raise when compared
        for is_set in (False, True):
            for same_check in ((False, True) if not is_set else (False,)):
                for _ in range(6):
                    n += 1
                    steps += leaf_round(fam.Set if is_set else fam.Bucket,
                                        is_set, 'C15-v-A-%d' % n, True,
                                        same_check)
    for fam in FAMILIES[:7]:
        for is_set in (False, True):
            for same_check in ((False, True) if not is_set else (False,)):
                n += 1
                steps += leaf_round(fam.Set if is_set else fam.Bucket,
                                    is_set, 'C15-v-A-%d' % n, False,
                                    same_check)
    ghost_leaf_scenarios()
    return steps


# ==========================================================================
# Part B: trees against a dict

def check_tree(tree, truth, is_set, where):
    tree._check()
    if len(tree) != len(truth):
        raise Failure('%s: len' % where)
    if is_set:
        if list(tree) != sorted(truth):
            raise Failure('%s: contents' % where)
    else:
        if list(tree.items()) != sorted(truth.items()):
            raise Failure('%s: contents' % where)
        if list(tree.values()) != [truth[k] for k in sorted(truth)]:
            raise Failure('%s: values' % where)
    if bool(tree) != bool(truth):
        raise Failure('%s: bool' % where)


def tree_round(fam, is_set, seed):
    rnd = random.Random(seed)
    where = '%s %s seed=%r' % (fam.prefix, 'TreeSet' if is_set else 'BTree',
                               seed)
    tree = (fam.TreeSet if is_set else fam.BTree)()
    truth = {}
    steps = 0
    for _ in range(500):
        steps += 1
        x = rnd.random()
        k = fam.key(rnd)
        if truth and rnd.random() < 0.4:
            k = rnd.choice(sorted(truth))
        if x < 0.45:
            if is_set:
                got = tree.add(k)
                if bool(got) != (k not in truth):
                    raise Failure('%s: add(%r) -> %r' % (where, k, got))
                truth[k] = None
            else:
                v = fam.value(rnd, k)
                tree[k] = v
                truth[k] = v
        elif x < 0.55 and not is_set:
            v = fam.value(rnd, k)
            got = tree.setdefault(k, v)
            if got != truth.setdefault(k, v):
                raise Failure('%s: setdefault(%r) -> %r' % (where, k, got))
        elif x < 0.85:
            if is_set:
                got = describe(lambda: tree.remove(k))
                want = (('ok', None) if k in truth
                        else ('KeyError', (k,), None))
                truth.pop(k, None)
            else:
                got = describe(lambda: tree.__delitem__(k))
                want = (('ok', None) if k in truth
                        else ('KeyError', (k,), None))
                truth.pop(k, None)
            if got != want:
                raise Failure('%s: delete %r: %r' % (where, k, got))
        elif x < 0.93 and not is_set:
            got = tree.pop(k, 'nope')
            if got != truth.pop(k, 'nope'):
                raise Failure('%s: pop(%r) -> %r' % (where, k, got))
        elif x < 0.95:
            tree.clear()
            truth.clear()
        if steps % 5 == 0:
            check_tree(tree, truth, is_set, where)
    check_tree(tree, truth, is_set, where)
    return steps


# ==========================================================================
# Part C: lazy sequences against a reference cursor

class RefTreeItems:
    """The specified behaviour of indexing a lazy sequence:  a cursor that
    walks forward over iter(sequence) and starts over to go backwards."""

    def __init__(self, real):
        # iterate over the very same leaves, the very same way
        self.real_iter = real.__class__.__iter__
        self.twin = _TreeItems.__new__(_TreeItems)
        self.twin.firstbucket = real.firstbucket
        self.twin.itertype = real.itertype
        self.twin.iterargs = real.iterargs
        self.index = -1
        self.it = self.real_iter(self.twin)
        self.v = None
        self._len = None

    def getitem(self, i):
        if isinstance(i, slice):
            # list(sequence) asks the sequence for its length first (as a
            # size hint), which computes and remembers it
            it = self.real_iter(self.twin)
            self.len()
            return list(it)[i]
        if i < 0:
            i = self.len() + i
            if i < 0:
                raise IndexError(i)
        if i < self.index:
            self.index = -1
            self.it = self.real_iter(self.twin)
        while i > self.index:
            try:
                v = next(self.it)
            except StopIteration:
                raise IndexError(i)
            self.v = v
            self.index += 1
        return self.v

    def len(self):
        if self._len is None:
            n = 0
            for _ in self.real_iter(self.twin):
                n += 1
            self._len = n
        return self._len


def leaves_of(tree):
    out = []
    b = tree._firstbucket
    while b is not None:
        out.append(b)
        b = b._next
    return out


def seq_round(fam, is_set, seed):
    rnd = random.Random(seed)
    where = '%s %s seed=%r' % (fam.prefix, 'TreeSet' if is_set else 'BTree',
                               seed)
    tree = (fam.TreeSet if is_set else fam.BTree)()
    truth = {}
    pairs = []
    steps = 0
    seen = {}

    def insert():
        k = fam.key(rnd)
        if is_set:
            tree.add(k)
            truth[k] = None
        else:
            truth[k] = tree[k] = fam.value(rnd, k)

    def delete(k):
        if is_set:
            tree.remove(k)
        else:
            del tree[k]
        del truth[k]

    def new_pair():
        meth = rnd.choice(['keys'] if is_set else ['keys', 'values', 'items'])
        lo = fam.key(rnd) if rnd.random() < 0.3 else None
        hi = fam.key(rnd) if rnd.random() < 0.3 else None
        if lo is not None and hi is not None and lo > hi:
            lo, hi = hi, lo
        exlo = rnd.random() < 0.25
        exhi = rnd.random() < 0.25
        real = getattr(tree, meth)(lo, hi, exlo, exhi)
        # a fresh sequence shows exactly what the dict holds
        ks = sorted(k for k in truth
                    if (lo is None or (k > lo if exlo else k >= lo))
                    and (hi is None or (k < hi if exhi else k <= hi)))
        if lo is None and exlo:
            ks = ks[1:]
        if hi is None and exhi:
            ks = ks[:-1]
        if meth == 'keys':
            want = ks
        elif meth == 'values':
            want = [truth[k] for k in ks]
        else:
            want = [(k, truth[k]) for k in ks]
        # (not list(real): that would make the sequence remember its length)
        content = [entry for entry in real]
        if content != want:
            raise Failure('%s: %s(%r, %r, %r, %r) = %r, expected %r'
                          % (where, meth, lo, hi, exlo, exhi, content,
                             want))
        if isinstance(real, tuple):
            return          # an empty tree answers ()
        if type(real) is not _TreeItems:
            raise Failure('%s: %r' % (where, type(real)))
        pairs.append((real, RefTreeItems(real), want))
        if len(pairs) > 4:
            del pairs[rnd.randrange(len(pairs))]

    for _ in range(rnd.randrange(5, 40)):
        insert()
    new_pair()
    mutated = False
    for _ in range(350):
        if not pairs:
            for _ in range(10):
                insert()
            new_pair()
            continue
        real, ref, want = rnd.choice(pairs)
        x = rnd.random()
        n = min(len(want), len(truth)) + 2
        if x < 0.5:
            i = rnd.randrange(-n, n)
            if rnd.random() < 0.4:
                # stay close to the cursor
                i = max(ref.index, 0) + rnd.randrange(-3, 4)
            if rnd.random() < 0.03:
                i = rnd.choice([1.5, -0.5, True])
            got = describe(lambda: real[i])
            expected = describe(lambda: ref.getitem(i))
            what = 'seq[%r]' % (i,)
        elif x < 0.57:
            sl = slice(rnd.choice([None, rnd.randrange(-n, n)]),
                       rnd.choice([None, rnd.randrange(-n, n)]),
                       rnd.choice([None, None, 2, -1]))
            got = describe(lambda: real[sl])
            expected = describe(lambda: ref.getitem(sl))
            what = 'seq[%r]' % (sl,)
        elif x < 0.63:
            got = describe(lambda: len(real))
            expected = describe(ref.len)
            what = 'len(seq)'
        elif x < 0.73:
            insert()
            mutated = True
            continue
        elif x < 0.83:
            if truth:
                delete(rnd.choice(sorted(truth)))
                mutated = True
            continue
        elif x < 0.87:
            # empty a whole leaf (it gets unlinked), preferably one that a
            # cursor is about to read from
            leaves = leaves_of(tree)
            if leaves:
                for k in list(rnd.choice(leaves)._keys):
                    delete(k)
                mutated = True
            continue
        elif x < 0.88:
            tree.clear()
            truth.clear()
            mutated = True
            continue
        else:
            new_pair()
            continue
        steps += 1
        seen[got[0]] = seen.get(got[0], 0) + 1
        if got != expected:
            raise Failure('%s: %s: expected %r, got %r'
                          % (where, what, expected, got))
        state = (real.index, real.v, real._len)
        ref_state = (ref.index, ref.v, ref._len)
        if state != ref_state:
            raise Failure('%s: %s: cursor %r, expected %r'
                          % (where, what, state, ref_state))
        # every step yields an entry or one of the allowed errors
        if got[0] not in ('ok', 'IndexError', 'RuntimeError', 'TypeError'):
            raise Failure('%s: %s: %r' % (where, what, got))
        if steps % 10 == 0:
            check_tree(tree, truth, is_set, where)
    check_tree(tree, truth, is_set, where)
    return steps, seen


def unmutated_sequences():
    """Without mutations a lazy sequence is just the sorted list."""
    rnd = random.Random('C15-v-plain')
    for fam in FAMILIES:
        for is_set in (False, True):
            tree = (fam.TreeSet if is_set else fam.BTree)()
            truth = {}
            for _ in range(60):
                k = fam.key(rnd)
                if is_set:
                    tree.add(k)
                    truth[k] = None
                else:
                    truth[k] = tree[k] = fam.value(rnd, k)
            ks = sorted(truth)
            seqs = [(tree.keys(), ks)]
            if not is_set:
                seqs.append((tree.values(), [truth[k] for k in ks]))
                seqs.append((tree.items(), [(k, truth[k]) for k in ks]))
            for seq, want in seqs:
                n = len(want)
                if len(seq) != n:
                    raise Failure('plain len')
                for _ in range(200):
                    i = rnd.randrange(-n - 3, n + 3)
                    got = describe(lambda: seq[i])
                    if -n <= i < n:
                        expected = ('ok', want[i])
                    elif i >= n:
                        expected = ('IndexError', (i,), 'StopIteration')
                    else:
                        expected = ('IndexError', (i + n,), None)
                    if got != expected:
                        raise Failure('%s plain seq[%d]: %r, expected %r'
                                      % (fam.prefix, i, got, expected))
                for _ in range(30):
                    a = rnd.choice([None, rnd.randrange(-n - 3, n + 3)])
                    b = rnd.choice([None, rnd.randrange(-n - 3, n + 3)])
                    c = rnd.choice([None, 1, 2, -1, -3])
                    if seq[a:b:c] != want[a:b:c]:
                        raise Failure('%s plain slice' % fam.prefix)


def main():
    a_steps = part_a()
    b_steps = 0
    c_steps = 0
    seen = {}
    n = 0
    for fam in FAMILIES:
        for is_set in (False, True):
            for _ in range(3):
                n += 1
                b_steps += tree_round(fam, is_set, 'C15-v-B-%d' % n)
            for _ in range(6):
                n += 1
                s, sn = seq_round(fam, is_set, 'C15-v-C-%d' % n)
                c_steps += s
                for k, v in sn.items():
                    seen[k] = seen.get(k, 0) + v
    unmutated_sequences()
    for k in ('ok', 'IndexError'):
        if seen.get(k, 0) < 100:
            raise Failure('outcome %s hardly seen: %r' % (k, seen))
    print('A: %d leaf operations, B: %d tree operations, '
          'C: %d sequence steps %r' % (a_steps, b_steps, c_steps, seen))
    print('OK')


if __name__ == '__main__':
    try:
        main()
    except Failure as e:
        print('FAILED:', e)
        sys.exit(1)
