#!/usr/bin/env python
"""Equivalence demonstration for refactoring C04p (property C04: every change
reaches the database: commit + reload reproduces the contents).

Run as:  PYTHONPATH=<worktree>/src /venv/bin/python demo.py

Self-contained: brings its own miniature object database for `persistent`
objects (ZODB is not needed).  Exits 0 iff every check passes; the expected
values are (a) a dict/set reference model, (b) the other implementation
(C vs. pure Python), and (c) constants recorded from the unmodified sources.
"""
import hashlib
import importlib
import io
import os
import pickle
import random
import sys
import types

from persistent import Persistent, PickleCache
from BTrees.check import check as bt_check

# ----------------------------------------------------------------------
# miniature object database
# ----------------------------------------------------------------------
class RegisterFailure(Exception):
    pass


CLASSES = {}   # name -> class; references are written as (oid, name)


def class_name(cls):
    name = cls.__module__ + '.' + cls.__name__
    assert CLASSES.setdefault(name, cls) is cls
    return name


class Storage:
    def __init__(self):
        self.records = {}
        self.next_oid = 1
        self.serial = 0

    def new_oid(self):
        oid = self.next_oid.to_bytes(8, 'big')
        self.next_oid += 1
        return oid


class Connection:
    def __init__(self, storage):
        self.storage = storage
        self.cache = PickleCache(self)
        self.registered = []      # objects announced for the next commit
        self.fail_register = False
        self.fail_oids = set()    # registration fails for these objects only
        self.register_log = []    # every register() call: (kind, oid)
        self.read_current = []
        self.written = []         # oids written by the last commit

    # -- data manager interface used by persistent -------------------------
    def register(self, obj):
        if self.fail_register or obj._p_oid in self.fail_oids:
            raise RegisterFailure()
        self.registered.append(obj)
        self.register_log.append((type(obj).__name__, obj._p_oid))

    def readCurrent(self, obj):
        self.read_current.append(obj._p_oid)

    def setstate(self, obj):
        cls, data = self.storage.records[obj._p_oid]
        assert cls is type(obj), (cls, type(obj))
        obj.__setstate__(self._loads(data))

    def oldstate(self, obj, serial):  # pragma: no cover
        raise NotImplementedError

    # -- (de)serialisation ---------------------------------------------------
    def _dumps(self, state, stack):
        f = io.BytesIO()
        p = pickle.Pickler(f, 3)

        def persistent_id(o):
            if not isinstance(o, Persistent):
                return None
            if o._p_oid is None:
                # newly reachable: give it an identity, write it too
                o._p_jar = self
                o._p_oid = self.storage.new_oid()
                self.cache[o._p_oid] = o
                stack.append(o)
            else:
                assert o._p_jar is self
            return (o._p_oid, class_name(type(o)))

        p.persistent_id = persistent_id
        p.dump(state)
        return f.getvalue()

    def _loads(self, data):
        u = pickle.Unpickler(io.BytesIO(data))
        u.persistent_load = self._ghost
        return u.load()

    def _ghost(self, ref):
        oid, cls = ref
        cls = CLASSES[cls]
        obj = self.cache.get(oid)
        if obj is None:
            obj = cls.__new__(cls)
            self.cache.new_ghost(oid, obj)
        return obj

    # -- API -----------------------------------------------------------------
    def add(self, obj):
        assert obj._p_oid is None
        obj._p_jar = self
        obj._p_oid = self.storage.new_oid()
        self.cache[obj._p_oid] = obj
        self.registered.append(obj)
        return obj._p_oid

    def get(self, oid):
        cls, _ = self.storage.records[oid]
        return self._ghost((oid, class_name(cls)))

    def commit(self):
        self.storage.serial += 1
        serial = self.storage.serial.to_bytes(8, 'big')
        stack = list(reversed(self.registered))
        self.registered = []
        written = []
        seen = set()
        while stack:
            obj = stack.pop()
            if obj._p_oid in seen:
                continue
            seen.add(obj._p_oid)
            state = obj.__getstate__()
            self.storage.records[obj._p_oid] = (
                type(obj), self._dumps(state, stack))
            written.append(obj._p_oid)
            obj._p_changed = False
            obj._p_serial = serial
        assert not self.registered, "commit itself must not dirty anything"
        self.written = written
        return written

    def abort(self):
        objs, self.registered = self.registered, []
        for obj in objs:
            obj._p_invalidate()


# the driver below addresses the database through this namespace
minidb = types.SimpleNamespace(Storage=Storage, Connection=Connection)

# ----------------------------------------------------------------------
# random-history driver
# ----------------------------------------------------------------------
FAMILIES = ['OO', 'IO', 'OI', 'II', 'IF', 'LO', 'LL', 'LF', 'OL', 'UU', 'QQ',
            'UO', 'OQ', 'fs']


def classes(family, py):
    mod = importlib.import_module('BTrees.%sBTree' % family)
    sfx = 'Py' if py else ''
    names = ['BTree', 'Bucket'] if family == 'fs' else [
        'BTree', 'Bucket', 'TreeSet', 'Set']
    return {n: getattr(mod, family + n + sfx) for n in names}


_small_cache = {}


def small(cls, leaf, internal):
    """Subclass with small node sizes (cached so reader/writer agree)."""
    k = (cls, leaf, internal)
    if k not in _small_cache:
        _small_cache[k] = type(cls)(
            'Small%dx%d%s' % (leaf, internal, cls.__name__), (cls,),
            {'max_leaf_size': leaf, 'max_internal_size': internal})
    return _small_cache[k]


def keygen(family, rng, span):
    c = family[0]
    if c == 'O':
        return lambda: rng.randrange(-span, span)
    if c in 'IL':
        return lambda: rng.randrange(-span, span)
    if c in 'UQ':
        return lambda: rng.randrange(0, 2 * span)
    if c == 'f':
        return lambda: bytes([97 + rng.randrange(0, 8), 97 + rng.randrange(0, span // 4 + 1) % 26])
    raise AssertionError(family)


def valgen(family, rng):
    c = family[1]
    if c == 'O':
        return lambda: rng.choice([None, 'x', (1, 2), rng.randrange(5)])
    if c in 'IL':
        return lambda: rng.randrange(-3, 4)
    if c in 'UQ':
        return lambda: rng.randrange(0, 5)
    if c == 'F':
        return lambda: rng.randrange(0, 5) / 2.0
    if c == 's':
        return lambda: bytes([65 + rng.randrange(3)]) * 6
    raise AssertionError(family)


def contents(obj, is_map):
    return list(obj.items()) if is_map else list(obj.keys())


def expected(model, is_map):
    return sorted(model.items()) if is_map else sorted(model)


def sound(obj):
    if hasattr(obj, '_check'):
        obj._check()
        if not type(obj).__name__.startswith('Small'):
            bt_check(obj)   # check.py knows the stock classes only


def inline_leaf_below_root(tree):
    """True if some interior node other than the root has, as its only
    child, a leaf that was never stored.

    Such a node pickles the leaf inline while the preceding leaf refers to
    the same leaf by reference, so a reader ends up with two copies and a
    broken leaf chain.  The unmodified sources (C and Python alike) do that
    when a node created by a split loses all leaves but one within the
    transaction that created it; it is independent of the refactoring under
    test, so histories postpone their commit while the situation lasts.
    """
    state = tree.__getstate__()
    if state is None or len(state) == 1:
        return False
    todo = [c for c in state[0][::2] if type(c) is type(tree)]
    while todo:
        node = todo.pop()
        state = node.__getstate__()
        if len(state) == 1:
            return True
        todo.extend(c for c in state[0][::2] if type(c) is type(tree))
    return False


def run_history(minidb, cls, family, is_map, seed, nops, span=40,
                p_commit=0.12, p_abort=0.06, trace=None):
    """Returns the number of commits+aborts.  `trace` (a list) receives the
    register log and written oids of every transaction."""
    rng = random.Random(seed)
    newkey = keygen(family, rng, span)
    newval = valgen(family, rng)
    st = minidb.Storage()
    conn = minidb.Connection(st)
    obj = cls()
    root = conn.add(obj)
    conn.commit()
    model = {} if is_map else set()
    committed = model.copy()
    boundaries = 0
    is_tree = hasattr(obj, '_check')

    def tr(*a):
        if trace is not None:
            trace.append(a)

    for step in range(nops):
        r = rng.random()
        k = newkey()
        if is_map:
            v = newval()
            if r < 0.40:
                obj[k] = v
                model[k] = v
            elif r < 0.62:
                if k in model:
                    del obj[k]
                    del model[k]
                else:
                    try:
                        del obj[k]
                    except KeyError:
                        pass
                    else:
                        raise AssertionError('del of absent key succeeded')
            elif r < 0.70:
                assert obj.pop(k, 'dflt') == model.pop(k, 'dflt')
            elif r < 0.78:
                assert obj.setdefault(k, v) == model.setdefault(k, v)
            elif r < 0.86:
                extra = {newkey(): newval() for _ in range(rng.randrange(4))}
                obj.update(extra)
                model.update(extra)
            elif r < 0.88:
                obj.clear()
                model.clear()
            elif r < 0.94 and model:
                # empty out a run of adjacent keys (drops whole leaves)
                ks = sorted(model)
                i = rng.randrange(len(ks))
                for kk in ks[i:i + rng.randrange(1, 9)]:
                    del obj[kk]
                    del model[kk]
            else:
                assert obj.get(k, 'dflt') == model.get(k, 'dflt')
        else:
            if r < 0.40:
                if hasattr(obj, 'add'):
                    obj.add(k)
                else:
                    obj.insert(k)
                model.add(k)
            elif r < 0.62:
                if k in model:
                    obj.remove(k)
                    model.remove(k)
                else:
                    try:
                        obj.remove(k)
                    except KeyError:
                        pass
                    else:
                        raise AssertionError('remove of absent key succeeded')
            elif r < 0.70:
                obj.discard(k)
                model.discard(k)
            elif r < 0.80:
                extra = [newkey() for _ in range(rng.randrange(4))]
                obj.update(extra)
                model.update(extra)
            elif r < 0.82:
                obj.clear()
                model.clear()
            elif r < 0.92 and model:
                ks = sorted(model)
                i = rng.randrange(len(ks))
                for kk in ks[i:i + rng.randrange(1, 9)]:
                    obj.remove(kk)
                    model.remove(kk)
            else:
                assert (k in obj) == (k in model)

        assert len(obj) == len(model), (step, len(obj), len(model))

        r = rng.random()
        if r < p_commit or step == nops - 1:
            if is_tree and inline_leaf_below_root(obj):
                if step < nops - 1:
                    continue            # see inline_leaf_below_root
                conn.abort()
                break
            assert contents(obj, is_map) == expected(model, is_map)
            log = [(n.replace('Py', ''), o) for n, o in conn.register_log]
            conn.register_log = []
            written = conn.commit()
            tr('commit', step, tuple(log), tuple(written))
            committed = model.copy()
            boundaries += 1
            # fresh reader, restarting from storage
            rconn = minidb.Connection(st)
            robj = rconn.get(root)
            got = contents(robj, is_map)
            assert got == expected(model, is_map), (
                'reader differs after commit', cls, seed, step)
            sound(robj)
            assert not rconn.registered, 'reading must not dirty anything'
            # the writer still agrees, too
            assert contents(obj, is_map) == got
            sound(obj)
            assert not conn.registered
        elif r < p_commit + p_abort:
            log = [(n.replace('Py', ''), o) for n, o in conn.register_log]
            conn.register_log = []
            tr('abort', step, tuple(log))
            conn.abort()
            model = committed.copy()
            boundaries += 1
            assert contents(obj, is_map) == expected(model, is_map), (
                'writer differs after abort', cls, seed, step)
            sound(obj)
            assert not conn.registered
    return boundaries


def digest(trace):
    return hashlib.sha256(repr(trace).encode()).hexdigest()[:16]


def sweep(minidb, families, seeds, nops, sizes=((None, None), (3, 3), (4, 2)),
          kinds=None):
    """Run histories over families x kinds x impl x sizes.  Returns
    {(family, kind, sizes): digest-of-C-trace}; asserts that C and Python
    register the same sets of objects and write the same records."""
    out = {}
    total = 0
    for fam in families:
        for py in (False, True):
            for kind, base in classes(fam, py).items():
                if kinds and kind not in kinds:
                    continue
                is_map = kind in ('BTree', 'Bucket')
                is_tree = kind in ('BTree', 'TreeSet')
                for leaf, internal in (sizes if is_tree else ((None, None),)):
                    cls = base if leaf is None else small(base, leaf, internal)
                    traces = []
                    for seed in seeds:
                        t = []
                        total += run_history(
                            minidb, cls, fam, is_map, seed,
                            nops if is_tree else nops // 3,
                            span=40 if is_tree else 12, trace=t)
                        traces.append(t)
                    out[(fam, kind, leaf, internal, py)] = traces
    # C vs Python: same objects announced (as sets), same records written
    res = {}
    for (fam, kind, leaf, internal, py), traces in out.items():
        if py:
            continue
        other = out[(fam, kind, leaf, internal, True)]
        for tc, tp in zip(traces, other):
            assert len(tc) == len(tp)
            for a, b in zip(tc, tp):
                assert a[:2] == b[:2]
                assert set(a[2]) <= set(b[2]), (
                    'C and Python announce different objects',
                    fam, kind, leaf, internal, a, b)
                if a[0] == 'commit':
                    assert set(a[3]) <= set(b[3]), (fam, kind, a, b)
        res[(fam, kind, leaf, internal)] = (digest(traces), digest(other))
    return res, total


# ----------------------------------------------------------------------
# checks aimed at the code touched by this refactoring
# ----------------------------------------------------------------------
CHECKS = [0]


def ok(cond, *msg):
    CHECKS[0] += 1
    if not cond:
        raise AssertionError(msg)


def stored(cls_or_obj, fill=()):
    """A container stored in a fresh database and committed; returns
    (storage, connection, object, oid)."""
    st = Storage()
    conn = Connection(st)
    obj = cls_or_obj() if isinstance(cls_or_obj, type) else cls_or_obj
    oid = conn.add(obj)
    if fill:
        obj.update(fill)
    conn.commit()
    conn.register_log = []
    return st, conn, obj, oid


def announced(conn):
    """Objects announced since the last call (oids, in order), reset."""
    log, conn.register_log = conn.register_log, []
    return [o for _, o in log]


def reload(st, oid):
    return Connection(st).get(oid)

SWEEP_FAMILIES = ['OO', 'IO', 'OI', 'II', 'IF', 'LO', 'LL', 'LF', 'OL', 'UU',
                  'QQ', 'UO', 'OQ', 'fs']
SWEEP_SEEDS = 3
SWEEP_NOPS = 300
SWEEP_KINDS = ('BTree', 'TreeSet')

RECORDED = {"('IF', 'BTree', 3, 3)": ('53c4949c29c622db', 'ae005847e85f4fc5'),
 "('IF', 'BTree', 4, 2)": ('a2bf6bdfa1a426d3', '088d86535dd190ec'),
 "('IF', 'BTree', None, None)": ('5962884bc04e5a21', '8e78065109d674a3'),
 "('IF', 'TreeSet', 3, 3)": ('64f7603b4aaadb52', '64f7603b4aaadb52'),
 "('IF', 'TreeSet', 4, 2)": ('8772d2af33ad5fab', '8772d2af33ad5fab'),
 "('IF', 'TreeSet', None, None)": ('bccc9cce48038d11', '1a77f3bd6c547191'),
 "('II', 'BTree', 3, 3)": ('4577101372a7b1d4', '5c275bd7bb379d9c'),
 "('II', 'BTree', 4, 2)": ('d4ca3412c9acff5a', 'c155264698825dfc'),
 "('II', 'BTree', None, None)": ('16742074b34574db', '16742074b34574db'),
 "('II', 'TreeSet', 3, 3)": ('703f9196577e715d', '703f9196577e715d'),
 "('II', 'TreeSet', 4, 2)": ('5bf01b9ab0f5bf1c', '5bf01b9ab0f5bf1c'),
 "('II', 'TreeSet', None, None)": ('5149acdd5a6284a2', '53e35d72d9dd472d'),
 "('IO', 'BTree', 3, 3)": ('3cfad7d77be94035', '3cfad7d77be94035'),
 "('IO', 'BTree', 4, 2)": ('e93848d7fc005e6f', 'e93848d7fc005e6f'),
 "('IO', 'BTree', None, None)": ('66730d7760853683', '66730d7760853683'),
 "('IO', 'TreeSet', 3, 3)": ('06dc1c962b7f3b23', '06dc1c962b7f3b23'),
 "('IO', 'TreeSet', 4, 2)": ('79e88fe0f4eced73', '79e88fe0f4eced73'),
 "('IO', 'TreeSet', None, None)": ('368f697a407dcd49', '89c9b71c6426e9b3'),
 "('LF', 'BTree', 3, 3)": ('d8dfa08c1a8da6a7', 'd80c8bebde60cbd7'),
 "('LF', 'BTree', 4, 2)": ('8e8b6d6618e0b737', 'd38052481a692232'),
 "('LF', 'BTree', None, None)": ('d6f905d8c24b13a3', 'b64d24d28816e334'),
 "('LF', 'TreeSet', 3, 3)": ('5d20603e7a77e309', '5d20603e7a77e309'),
 "('LF', 'TreeSet', 4, 2)": ('f2631bc553a2b8f8', 'f2631bc553a2b8f8'),
 "('LF', 'TreeSet', None, None)": ('36f1ebb8bdd42c04', '8d172360ce9c111d'),
 "('LL', 'BTree', 3, 3)": ('91e7caa6253209dc', '66f9a02cfd803f4e'),
 "('LL', 'BTree', 4, 2)": ('f6b75582453fb9fd', '477dae32c1cfd8f0'),
 "('LL', 'BTree', None, None)": ('3741859b7b536b23', '3741859b7b536b23'),
 "('LL', 'TreeSet', 3, 3)": ('4aab878043642135', '4aab878043642135'),
 "('LL', 'TreeSet', 4, 2)": ('8c937d1d5dc28deb', '8c937d1d5dc28deb'),
 "('LL', 'TreeSet', None, None)": ('bc7420d9a7eda0b1', '21f715da33d82f5c'),
 "('LO', 'BTree', 3, 3)": ('2faa7c799933e88d', '2faa7c799933e88d'),
 "('LO', 'BTree', 4, 2)": ('00116b82209a9901', '00116b82209a9901'),
 "('LO', 'BTree', None, None)": ('54ff17d45dfd3bb6', '54ff17d45dfd3bb6'),
 "('LO', 'TreeSet', 3, 3)": ('db7dbc44d17fef86', 'db7dbc44d17fef86'),
 "('LO', 'TreeSet', 4, 2)": ('c5e0136954b2dc6c', 'c5e0136954b2dc6c'),
 "('LO', 'TreeSet', None, None)": ('5dba1714e0cf8202', '98353beb73c63d95'),
 "('OI', 'BTree', 3, 3)": ('fe4ec111e8b38c6c', 'da27e554f01d57f4'),
 "('OI', 'BTree', 4, 2)": ('cc29310d702c01c1', '82d793f0303708e0'),
 "('OI', 'BTree', None, None)": ('6a37edcecf4d4de4', '6a37edcecf4d4de4'),
 "('OI', 'TreeSet', 3, 3)": ('d41c69d766494a78', 'd41c69d766494a78'),
 "('OI', 'TreeSet', 4, 2)": ('ce8536d5f1d49f9c', 'ce8536d5f1d49f9c'),
 "('OI', 'TreeSet', None, None)": ('9d1701eb7c0904af', 'a312d517de3b7de9'),
 "('OL', 'BTree', 3, 3)": ('f81d34002699848a', '26700babd8db7a72'),
 "('OL', 'BTree', 4, 2)": ('9d089e4d97e9d18a', '5a03608fb7713073'),
 "('OL', 'BTree', None, None)": ('f1fc6eebc52f8b9c', 'f1fc6eebc52f8b9c'),
 "('OL', 'TreeSet', 3, 3)": ('4d9a307197d6db09', '4d9a307197d6db09'),
 "('OL', 'TreeSet', 4, 2)": ('ab876522b32407d1', 'ab876522b32407d1'),
 "('OL', 'TreeSet', None, None)": ('78311e9066ba2b75', '4349821619cd8b98'),
 "('OO', 'BTree', 3, 3)": ('611511cfc8e95740', '611511cfc8e95740'),
 "('OO', 'BTree', 4, 2)": ('d754d2569889793a', 'd754d2569889793a'),
 "('OO', 'BTree', None, None)": ('b33a0e6e614a67fb', 'b33a0e6e614a67fb'),
 "('OO', 'TreeSet', 3, 3)": ('913c46c7b6a2980a', '913c46c7b6a2980a'),
 "('OO', 'TreeSet', 4, 2)": ('4d9c05802258acd5', '4d9c05802258acd5'),
 "('OO', 'TreeSet', None, None)": ('9279b4ee195c8886', '1312b4605763e1a5'),
 "('OQ', 'BTree', 3, 3)": ('50cd34bc0679300a', 'e870430f3fedb94b'),
 "('OQ', 'BTree', 4, 2)": ('c76d7b31175d234f', '3fb0ab399de57df7'),
 "('OQ', 'BTree', None, None)": ('8b4638e270c17ef4', '2279e1860913d8d6'),
 "('OQ', 'TreeSet', 3, 3)": ('2153081df9f17ee0', '2153081df9f17ee0'),
 "('OQ', 'TreeSet', 4, 2)": ('df5e400ed4d24344', 'df5e400ed4d24344'),
 "('OQ', 'TreeSet', None, None)": ('dfd451ad59f106ec', '23a5953d8e3575e2'),
 "('QQ', 'BTree', 3, 3)": ('3ff2cf71f6a2f833', '49fc22b2620201b2'),
 "('QQ', 'BTree', 4, 2)": ('fe85936ef6ea8217', '7051fd1c43061d33'),
 "('QQ', 'BTree', None, None)": ('5171450dd008fda6', '8baf1af2efdb3cbf'),
 "('QQ', 'TreeSet', 3, 3)": ('9e7eb52ced1131c8', '9e7eb52ced1131c8'),
 "('QQ', 'TreeSet', 4, 2)": ('33af379241ee583d', '33af379241ee583d'),
 "('QQ', 'TreeSet', None, None)": ('cba24c1f2d0bec64', 'e3244c43fcb7f4a0'),
 "('UO', 'BTree', 3, 3)": ('440dfb89986e6432', '440dfb89986e6432'),
 "('UO', 'BTree', 4, 2)": ('43d35a08c19f1815', '43d35a08c19f1815'),
 "('UO', 'BTree', None, None)": ('b90505f90ad34fe6', 'b90505f90ad34fe6'),
 "('UO', 'TreeSet', 3, 3)": ('0898533ebdeeea6d', '0898533ebdeeea6d'),
 "('UO', 'TreeSet', 4, 2)": ('ab304ee502ecbbda', 'ab304ee502ecbbda'),
 "('UO', 'TreeSet', None, None)": ('f0d3da36485efd9f', '59af9df666f2d952'),
 "('UU', 'BTree', 3, 3)": ('f15983463d24e76d', 'f677002dd9efddaf'),
 "('UU', 'BTree', 4, 2)": ('ade034624c364f8f', 'cc70af0745a04e67'),
 "('UU', 'BTree', None, None)": ('0329f06e51a33265', '79ffefc8febed35c'),
 "('UU', 'TreeSet', 3, 3)": ('8a739b2dbf0400c6', '8a739b2dbf0400c6'),
 "('UU', 'TreeSet', 4, 2)": ('3f265eb6d372f75f', '3f265eb6d372f75f'),
 "('UU', 'TreeSet', None, None)": ('f7ea8de6aae53e89', '516b8bd10c57fa14'),
 "('fs', 'BTree', 3, 3)": ('221b209e35a4ebe5', '221b209e35a4ebe5'),
 "('fs', 'BTree', 4, 2)": ('452e705edf27dc82', '452e705edf27dc82'),
 "('fs', 'BTree', None, None)": ('8ac2e0ce56a12508', '8ac2e0ce56a12508')}


def shape(state, tree_type, leaf_type):
    if isinstance(state, tuple):
        return tuple(shape(x, tree_type, leaf_type) for x in state)
    if isinstance(state, (tree_type, leaf_type)):
        return (type(state).__name__.replace('Py', ''),
                shape(state.__getstate__(), tree_type, leaf_type))
    return state


def raises(exc, f, *a):
    try:
        f(*a)
    except exc:
        return True
    return False


def targeted():
    """The 'only child is a never-stored leaf' rule in the C tree: who is
    announced (_BTree_set) and what is captured (BTree_getstate)."""
    from BTrees.OOBTree import OOBTree, OOBTreePy, OOTreeSet, OOTreeSetPy
    from BTrees.IIBTree import IIBTree, IIBTreePy, IITreeSet
    from BTrees.LFBTree import LFBTree
    from BTrees.fsBTree import fsBTree

    # -- 1. one never-stored leaf: the tree speaks for it -------------------
    for T, k1, k2, v1, v2 in ((OOBTree, 1, 2, 'a', 'b'),
                              (IIBTree, 1, 2, 10, 20),
                              (LFBTree, 1, 2, 0.5, 1.5),
                              (fsBTree, b'ab', b'cd', b'x' * 6, b'y' * 6),
                              (OOBTreePy, 1, 2, 'a', 'b'),
                              (IIBTreePy, 1, 2, 10, 20)):
        is_c = not T.__name__.endswith('Py')
        st, conn, t, oid = stored(T)
        ok(t.__getstate__() is None)
        t[k1] = v1                                   # insert
        ok(announced(conn) == [oid] and t._p_changed)
        ok(t.__getstate__() == ((((k1, v1),),),))
        conn.commit()
        ok(st.records.keys() == {oid}, 'leaf stored by itself')
        ok(list(reload(st, oid).items()) == [(k1, v1)])
        t[k1] = v2                                   # replace
        ok(announced(conn) == [oid])
        conn.commit()
        ok(list(reload(st, oid).items()) == [(k1, v2)])
        t[k1] = v2                                   # replace by the same
        if T in (IIBTree, LFBTree):
            # scalar values: C sees that nothing changes
            ok(announced(conn) == [] and not t._p_changed)
        else:
            ok(announced(conn) == [oid])
        conn.commit()
        ok(t.setdefault(k1, v1) == v2)               # present: no change
        ok(announced(conn) == [] and not t._p_changed)
        ok(t.setdefault(k2, v1) == v1)               # absent: insert
        ok(announced(conn) == [oid])
        conn.abort()
        ok(list(t.items()) == [(k1, v2)], 'abort restores')
        ok(t.pop(k2, None) is None and announced(conn) == [])
        ok(raises(KeyError, t.__delitem__, k2) and announced(conn) == [])
        ok(not t._p_changed and not conn.registered)
        t[k2] = v1
        ok(t.pop(k1) == v2)                          # delete, leaf survives
        ok(announced(conn) == [oid])
        conn.commit()
        ok(list(reload(st, oid).items()) == [(k2, v1)])
        del t[k2]                                    # delete, leaf goes
        ok(announced(conn) == [oid])
        ok(t.__getstate__() is None)
        conn.commit()
        ok(len(reload(st, oid)) == 0 and st.records.keys() == {oid})
        ok(raises(KeyError, t.__delitem__, k2) and announced(conn) == [])

    for TS in (OOTreeSet, IITreeSet, OOTreeSetPy):
        st, conn, t, oid = stored(TS)
        t.add(5)
        ok(announced(conn) == [oid])
        ok(t.__getstate__() == ((((5,),),),))
        conn.commit()
        t.add(5)                                     # present
        if TS is OOTreeSetPy:
            # the Python tree announces itself here although nothing changed
            ok(announced(conn) == [oid])
            conn.commit()
        else:
            ok(announced(conn) == [] and not t._p_changed)
        t.add(6)
        ok(announced(conn) == [oid])
        conn.abort()
        ok(list(t) == [5])
        t.remove(5)
        ok(announced(conn) == [oid])
        conn.commit()
        ok(list(reload(st, oid)) == [] and st.records.keys() == {oid})

    # -- 2. the leaf has been stored by itself: it speaks for itself ---------
    for T in (small(OOBTree, 3, 3), small(OOBTreePy, 3, 3),
              small(IIBTree, 3, 3)):
        st, conn, t, oid = stored(T, {1: 1})
        ok(len(t.__getstate__()) == 1)
        t.update({2: 2, 3: 3, 4: 4})                 # split -> two leaves
        ok(oid in announced(conn))
        conn.commit()
        state = t.__getstate__()
        ok(len(state) == 2 and len(state[0]) == 3)
        first, second = state[0][0], state[0][2]
        ok(first._p_oid is not None and second._p_oid is not None)
        ok(state[1] is first)
        announced(conn)
        for k in list(second.keys()):                # empty the second leaf
            del t[k]
        ann = announced(conn)
        ok(set(ann) == {oid, first._p_oid, second._p_oid}, ann)
        conn.commit()
        # one leaf again, but this one has an identity: reference, not inline
        state = t.__getstate__()
        ok(len(state) == 2 and state[0] == (first,) and state[1] is first)
        k = min(t.keys())
        t[k] = 99
        ok(announced(conn) == [first._p_oid] and not t._p_changed)
        conn.commit()
        ok(conn.written == [first._p_oid])
        ok(reload(st, oid)[k] == 99)
        t[1000] = 5
        ok(announced(conn) == [first._p_oid] and not t._p_changed)
        conn.abort()
        ok(1000 not in t and t[k] == 99)
        del t[k]
        ok(announced(conn) == [first._p_oid] and not t._p_changed)
        conn.commit()
        r = reload(st, oid)
        ok(list(r.items()) == list(t.items()))
        r._check()

    # -- 3. a root whose only child is a tree is captured by reference -------
    for C, P in ((small(OOBTree, 2, 2), small(OOBTreePy, 2, 2)),
                 (small(OOTreeSet, 2, 2), small(OOTreeSetPy, 2, 2))):
        c, p = C(), P()
        for t in (c, p):
            if hasattr(t, 'add'):
                t.update(range(40))
                for k in range(4, 40):
                    t.remove(k)
            else:
                t.update([(k, k) for k in range(40)])
                for k in range(4, 40):
                    del t[k]
        sc = shape(c.__getstate__(), C, c._bucket_type)
        sp = shape(p.__getstate__(), P, p._bucket_type)
        ok(sc == sp)
        ok(len(c.__getstate__()) == 2 and len(c.__getstate__()[0]) == 1
           and type(c.__getstate__()[0][0]) is C, 'expected a tree child')
        st, conn, t, oid = stored(c)
        r = reload(st, oid)
        ok(contents(r, hasattr(r, 'items')) == contents(c, hasattr(c, 'items')))
        r._check()

    # -- 4. error paths -----------------------------------------------------
    # a failing registration surfaces, from the embedded-leaf rule (Done:)
    for T in (OOBTree, IIBTree):
        st, conn, t, oid = stored(T, {1: 1})
        conn.fail_register = True
        ok(raises(RegisterFailure, t.__setitem__, 2, 2))
        ok(raises(RegisterFailure, t.__delitem__, 1))
        ok(raises(RegisterFailure, t.__setitem__, 1, 7))
        conn.fail_register = False
        ok(not t._p_changed and not conn.registered)
        ok(announced(conn) == [])
    # a ghost that cannot be loaded: __getstate__ and mutators raise, and
    # nothing is announced
    st, conn, t, oid = stored(small(OOBTree, 3, 3), {k: k for k in range(20)})
    rconn = Connection(st)
    r = rconn.get(oid)
    orig = st.records[oid]
    del st.records[oid]
    R = type(r)     # unbound: the C function itself meets the ghost
    ok(raises(KeyError, R.__getstate__, r))
    ok(raises(KeyError, R.__setitem__, r, 1, 1))
    ok(raises(KeyError, R.__delitem__, r, 1))
    ok(r._p_changed is None and not rconn.registered)
    st.records[oid] = orig
    ok(len(r.__getstate__()) == 2 and len(r) == 20)


def main():
    targeted()
    res, total = sweep(minidb, SWEEP_FAMILIES, range(SWEEP_SEEDS), SWEEP_NOPS,
                       kinds=SWEEP_KINDS)
    got = {repr(k): v for k, v in res.items()}
    if os.environ.get('C04_RECORD'):
        import pprint
        pprint.pprint(got)
        return 0
    bad = [k for k in RECORDED if got.get(k) != RECORDED[k]]
    assert not bad and len(got) == len(RECORDED), (
        'announcement/record traces differ from the recorded ones', bad)
    print('OK: %d targeted checks, %d transaction boundaries in %d '
          'configurations' % (CHECKS[0], total, len(res)))
    return 0


if __name__ == '__main__':
    sys.exit(main())
