"""Differential demo for refactoring t (C: SetOpTemplate.c multiunion_m gather loop).

Run as:  PYTHONPATH=<tree>/src /venv/bin/python demo.py

Exercises the *gather* phase of the native multiunion for all 16 integer-key
families: every operand kind (int, exact C Set/Bucket -> memcpy path, subclasses
of them, BTree/TreeSet with tiny nodes, lists, tuples, dicts, generators,
pure-Python subclasses -> iteration path), every outer sequence kind, and every
reachable error path (no len, failing __getitem__, non-iterable operand,
failed key conversion in the middle of an iteration, unsortable iterable,
failing iterator, failed activation of a ghost operand, failed activation of
a ghost leaf in the middle of a tree iteration).  Results are compared with a
plain Python model (sorted(set(...))); reference counts of all operands are
compared before/after; ghosts must end up unpinned (deactivatable).

Exits 0 when everything is as specified.
"""
import gc
import importlib
import random
import sys

FAMILIES = ['II', 'IU', 'IO', 'IF', 'LL', 'LQ', 'LO', 'LF',
            'QL', 'QQ', 'QO', 'QF', 'UI', 'UU', 'UO', 'UF']
RANGES = {
    'I': (-2**31, 2**31 - 1),
    'L': (-2**63, 2**63 - 1),
    'U': (0, 2**32 - 1),
    'Q': (0, 2**64 - 1),
}

checks = 0


def check(cond, *msg):
    global checks
    checks += 1
    if not cond:
        print("FAIL:", *msg)
        sys.exit(1)


class Boom(Exception):
    pass


class Jar:
    """Tiny stand-in for a ZODB connection."""

    def __init__(self):
        self.states = {}
        self.fail = set()
        self.loads = []

    def add(self, obj):
        oid = ('%08d' % (len(self.states) + 1)).encode()
        obj._p_jar = self
        obj._p_oid = oid
        self.states[oid] = obj.__getstate__()
        obj._p_changed = False
        obj._p_deactivate()
        assert obj._p_changed is None
        return obj

    def setstate(self, obj):
        self.loads.append(obj._p_oid)
        if obj._p_oid in self.fail:
            raise Boom('load failed')
        obj.__setstate__(self.states[obj._p_oid])

    def register(self, obj):
        pass


class Seq:
    """A sequence that is neither list nor tuple (PySequence_GetItem path)."""

    def __init__(self, items, fail_at=None):
        self.items = items
        self.fail_at = fail_at

    def __len__(self):
        return len(self.items)

    def __getitem__(self, i):
        if i == self.fail_at:
            raise Boom('getitem %d' % i)
        return self.items[i]


class BadLen:
    def __len__(self):
        raise Boom('len')

    def __getitem__(self, i):
        raise IndexError(i)


def rand_key(rng, lo, hi):
    r = rng.random()
    if r < 0.15:
        return rng.choice((lo, lo + 1, hi, hi - 1, (lo + hi) // 2,
                           (lo + hi) // 2 + 1))
    if r < 0.45:
        base = rng.choice((lo, hi - 300, (lo + hi) // 2 - 150, 0 if lo < 0 else 1000))
        return min(hi, max(lo, base + rng.randrange(300)))
    return rng.randrange(lo, hi + 1)


class Family:
    def __init__(self, prefix):
        self.prefix = prefix
        self.mod = mod = importlib.import_module('BTrees.%sBTree' % prefix)
        self.lo, self.hi = RANGES[prefix[0]]
        self.Set = getattr(mod, prefix + 'Set')
        self.Bucket = getattr(mod, prefix + 'Bucket')
        self.TreeSet = getattr(mod, prefix + 'TreeSet')
        self.BTree = getattr(mod, prefix + 'BTree')
        self.multiunion = mod.multiunion
        self.multiunionPy = mod.multiunionPy
        check(type(self.multiunion).__name__ == 'builtin_function_or_method',
              prefix, 'native multiunion missing')
        ns = {'max_leaf_size': 4, 'max_internal_size': 3}
        self.SmallTreeSet = type('SmallTreeSet', (self.TreeSet,), dict(ns))
        self.SmallBTree = type('SmallBTree', (self.BTree,), dict(ns))
        self.SubSet = type('SubSet', (self.Set,), {})
        self.SubBucket = type('SubBucket', (self.Bucket,), {})
        self.PySubSet = type('PySubSet', (getattr(mod, prefix + 'SetPy'),), {})
        self.PySmallTreeSet = type(
            'PySmallTreeSet', (getattr(mod, prefix + 'TreeSetPy'),), dict(ns))
        vkind = prefix[1]
        if vkind == 'O':
            self.val = lambda k: str(k)
        elif vkind == 'F':
            self.val = lambda k: 0.5
        else:
            self.val = lambda k: 7

    def pairs(self, keys):
        return [(k, self.val(k)) for k in keys]

    # operand builders: each returns (operand, list-of-keys)
    def make_operand(self, rng, kind, keys):
        uniq = sorted(set(keys))
        if kind == 'int':
            k = keys[0] if keys else self.lo
            return k, [k]
        if kind == 'set':
            return self.Set(keys), uniq
        if kind == 'bucket':
            return self.Bucket(self.pairs(uniq)), uniq
        if kind == 'subset':
            return self.SubSet(keys), uniq
        if kind == 'subbucket':
            return self.SubBucket(self.pairs(uniq)), uniq
        if kind == 'treeset':
            return self.SmallTreeSet(keys), uniq
        if kind == 'btree':
            return self.SmallBTree(self.pairs(uniq)), uniq
        if kind == 'pysubset':
            return self.PySubSet(keys), uniq
        if kind == 'pytreeset':
            return self.PySmallTreeSet(keys), uniq
        if kind == 'list':
            return list(keys), keys
        if kind == 'tuple':
            return tuple(keys), keys
        if kind == 'dict':
            return dict.fromkeys(keys, 'v'), keys
        if kind == 'frozenset':
            return frozenset(keys), keys
        if kind == 'gen':
            return (k for k in list(keys)), keys
        if kind == 'keysview':
            t = self.SmallBTree(self.pairs(uniq))
            return t.keys(), uniq
        raise AssertionError(kind)


KINDS = ['int', 'set', 'bucket', 'subset', 'subbucket', 'treeset', 'btree',
         'pysubset', 'pytreeset', 'list', 'tuple', 'dict', 'frozenset', 'gen',
         'keysview']
REUSABLE = set(KINDS) - {'gen'}


def refcounts(objs):
    # ints are shared/cached by the interpreter: their counts are noise
    return [sys.getrefcount(o) for o in objs if not isinstance(o, int)]


def verify_result(fam, res, expected, rng, what):
    check(type(res) is fam.Set, what, 'result type', type(res))
    got = list(res)
    check(got == expected, what, 'wrong union', got[:10], expected[:10],
          len(got), len(expected))
    check(len(res) == len(expected), what, 'len')
    if expected:
        check(res.minKey() == expected[0] and res.maxKey() == expected[-1],
              what, 'min/max')
        probes = [rng.choice(expected) for _ in range(6)]
        probes += [expected[0], expected[-1]]
        for k in probes:
            check(k in res, what, 'membership', k)
            check(res.has_key(k), what, 'has_key', k)
        for _ in range(4):
            a = rand_key(rng, fam.lo, fam.hi)
            b = rand_key(rng, fam.lo, fam.hi)
            if a > b:
                a, b = b, a
            check(list(res.keys(a, b)) == [k for k in expected if a <= k <= b],
                  what, 'range query', a, b)
            check((a in res) == (a in set(expected)), what, 'membership2', a)
    else:
        check(not res, what, 'empty result is falsy')
    # the result is an ordinary, mutable, picklable set
    st = res.__getstate__()
    check(st == (tuple(expected),), what, 'state', st)


def random_round(fam, rng, total_hint):
    nops = rng.choice((0, 1, 1, 2, 3, 5, 8))
    operands, model, kinds = [], [], []
    for _ in range(nops):
        kind = rng.choice(KINDS)
        size = rng.choice((0, 1, 2, 5, 30, total_hint // max(1, nops),
                           total_hint // max(1, nops) + 7))
        keys = [rand_key(rng, fam.lo, fam.hi) for _ in range(size)]
        op, ks = fam.make_operand(rng, kind, keys)
        operands.append(op)
        model.extend(ks)
        kinds.append(kind)
    expected = sorted(set(model))
    outer = rng.choice(('list', 'tuple', 'seq'))
    if outer == 'tuple':
        seq = tuple(operands)
    elif outer == 'seq':
        seq = Seq(operands)
    else:
        seq = operands
    before = refcounts(operands)
    res = fam.multiunion(seq)
    after = refcounts(operands)
    what = (fam.prefix, kinds, outer)
    check(before == after, what, 'refcounts changed', before, after)
    verify_result(fam, res, expected, rng, what)
    # a second run over re-iterable operands gives the same answer, and the
    # pure-Python implementation agrees
    if all(k in REUSABLE for k in kinds):
        res2 = fam.multiunion(seq)
        check(list(res2) == expected, what, 'second run differs')
        if len(model) <= 400:
            resp = fam.multiunionPy(list(operands))
            check(list(resp) == expected, what, 'Python impl differs')
    # memcpy path never touches the operands
    for op, kind in zip(operands, kinds):
        if kind in ('set', 'bucket', 'subset', 'subbucket', 'treeset', 'btree'):
            check(op._p_changed in (False, None) or op._p_jar is None,
                  what, 'operand modified')


def count_sets(fam):
    gc.collect()
    return sum(1 for o in gc.get_objects() if type(o) is fam.Set)


def expect_error(fam, seq, exc, what, operands=()):
    before = refcounts(operands)
    nsets = count_sets(fam)
    try:
        fam.multiunion(seq)
    except exc as e:
        check(type(e) is exc, what, 'exception type', type(e))
        del e
    else:
        check(False, what, 'no exception')
    after = refcounts(operands)
    check(before == after, what, 'refcounts changed on error', before, after)
    check(count_sets(fam) == nsets, what, 'result set leaked on error')


def error_paths(fam, rng):
    lo, hi = fam.lo, fam.hi
    p = fam.prefix
    good = fam.Set([lo, hi, (lo + hi) // 2])
    goodtree = fam.SmallTreeSet([lo + i for i in range(20)])
    lst = [hi - 1, lo + 1]
    ops = (good, goodtree, lst)
    # argument parsing / length
    for bad in ((x for x in [good]), 5, None, iter([good])):
        try:
            fam.multiunion(bad)
        except TypeError:
            pass
        else:
            check(False, p, 'no TypeError for unsized', bad)
    for args in ((), ([good], [good])):
        try:
            fam.multiunion(*args)
        except TypeError:
            pass
        else:
            check(False, p, 'arg count')
    expect_error(fam, BadLen(), Boom, (p, 'len raises'))
    # failing getitem at every position
    for pos in range(4):
        items = [good, goodtree, lst, good]
        expect_error(fam, Seq(items, fail_at=pos), Boom,
                     (p, 'getitem raises', pos), ops)
    # sequence that lies about its length (IndexError from getitem)
    expect_error(fam, Seq.__new__(Seq), AttributeError, (p, 'broken seq'))

    class Liar(Seq):
        def __len__(self):
            return len(self.items) + 2

    expect_error(fam, Liar([good, lst]), IndexError, (p, 'short seq'), ops)
    # operand is neither a key nor iterable
    for bad in (None, 1.5, object(), hi + 1, lo - 1, 2**70, -2**70):
        for pos in (0, 1, 3):
            items = [good, goodtree, lst]
            items.insert(pos, bad)
            expect_error(fam, items, TypeError, (p, 'bad operand', bad, pos), ops)
    # failed conversion in the middle of an iteration (after keys were copied)
    for bad in ('a', None, 1.5, hi + 1, lo - 1, 2**70):
        for where in (0, 1, 2):
            inner = [lo + 2, lo + 3]
            if isinstance(bad, int):
                # ints sort: make sure the bad one is reached
                inner = [lo + 2, lo + 3, bad]
            else:
                inner.insert(where, bad)
            items = [good, inner, goodtree]
            expect_error(fam, items, TypeError, (p, 'bad element', bad, where),
                         ops + (inner,))
            expect_error(fam, [inner], TypeError, (p, 'bad element alone', bad))

    # iterable whose iteration raises
    def raising(n):
        for i in range(n):
            yield lo + i
        raise Boom('iter')

    for n in (0, 1, 5):
        expect_error(fam, [good, raising(n), lst], Boom, (p, 'iter raises', n), ops)

    class BadIter:
        def __iter__(self):
            raise Boom('no iter')

    expect_error(fam, [good, BadIter()], Boom, (p, '__iter__ raises'), ops)

    class Unorderable:
        def __lt__(self, other):
            raise Boom('lt')

    expect_error(fam, [good, [Unorderable(), Unorderable()]], Boom,
                 (p, 'sort raises'), ops)
    # after all those failures the good operands still work
    res = fam.multiunion([good, goodtree, lst])
    check(list(res) == sorted(set(list(good) + list(goodtree) + lst)), p,
          'after errors')


def ghost_paths(fam, rng):
    lo, hi = fam.lo, fam.hi
    p = fam.prefix
    jar = Jar()
    keys_a = sorted({rand_key(rng, lo, hi) for _ in range(40)})
    keys_b = sorted({rand_key(rng, lo, hi) for _ in range(40)})
    a = jar.add(fam.Set(keys_a))
    b = jar.add(fam.Bucket(fam.pairs(keys_b)))
    e = jar.add(fam.Set())
    plain = [hi, lo]
    expected = sorted(set(keys_a + keys_b + plain))
    for trial in range(3):
        for o in (a, b, e):
            check(o._p_changed is None, p, 'is ghost')
        del jar.loads[:]
        rc = [sys.getrefcount(o) for o in (a, b, e)]
        res = fam.multiunion([a, plain, b, e])
        check([sys.getrefcount(o) for o in (a, b, e)] == rc, p, 'ghost refcounts')
        check(list(res) == expected, p, 'ghost operands union')
        check(jar.loads == [a._p_oid, b._p_oid, e._p_oid], p, 'loads', jar.loads)
        for o in (a, b, e):
            # loaded, unmodified and NOT left sticky: can be ghostified again
            check(o._p_changed is False, p, 'state after use', o._p_changed)
            o._p_deactivate()
            check(o._p_changed is None, p, 'left pinned (sticky)')
    # failing activation: at first / middle / last position
    for failing, others in ((a, [b, plain]), (b, [a, plain]), (e, [a, b])):
        for pos in range(3):
            jar.fail = {failing._p_oid}
            items = list(others)
            items.insert(pos, failing)
            expect_error(fam, items, Boom, (p, 'activation fails', pos),
                         (a, b, e))
            check(failing._p_changed is None, p, 'failed ghost stays ghost')
            jar.fail = set()
            for o in (a, b, e):
                if o._p_changed is not None:
                    check(o._p_changed is False, p, 'state after failed call')
                    o._p_deactivate()
                    check(o._p_changed is None, p, 'pinned after failed call')
    # ghost leaves inside a tree: iteration path, failure in the middle
    tkeys = sorted({rand_key(rng, lo, hi) for _ in range(60)})
    tree = fam.SmallTreeSet(tkeys)
    leaves = []
    bkt = tree._firstbucket
    while bkt is not None:
        leaves.append(bkt)
        bkt = bkt._next
    check(len(leaves) > 5, p, 'tree has many leaves')
    tjar = Jar()
    for n, leaf in enumerate(leaves):
        leaf._p_jar = tjar
        leaf._p_oid = ('%08d' % n).encode()
    tjar.states = {leaf._p_oid: leaf.__getstate__() for leaf in leaves}
    for leaf in leaves:
        leaf._p_changed = False
    for leaf in leaves:
        leaf._p_deactivate()
    res = fam.multiunion([tree, a])
    check(list(res) == sorted(set(tkeys + keys_a)), p, 'ghost leaves union')
    for failing_leaf in (0, len(leaves) // 2, len(leaves) - 1):
        for leaf in leaves:
            leaf._p_deactivate()
            check(leaf._p_changed is None, p, 'leaf left pinned')
        tjar.fail = {leaves[failing_leaf]._p_oid}
        expect_error(fam, [plain, tree, a], Boom,
                     (p, 'leaf activation fails', failing_leaf), (tree, a))
        tjar.fail = set()
    for leaf in leaves:
        leaf._p_deactivate()
        check(leaf._p_changed is None, p, 'leaf left pinned (end)')
    res = fam.multiunion([tree])
    check(list(res) == tkeys, p, 'tree alone')


def growth_paths(fam, rng):
    """Result growth: memcpy appends with/without over-allocation mixed with
    one-at-a-time doubling."""
    lo, hi = fam.lo, fam.hi
    for sizes in ([1], [16], [17], [15, 1], [16, 1, 1], [1, 16, 1], [3] * 40,
                  [100, 1, 100, 1], [0, 0, 5, 0], [799, 1], [800, 1], [801],
                  [400, 401, 1], [1500, 0, 1]):
        for flavour in ('bucket-first', 'iter-first', 'alternate', 'buckets',
                        'iters'):
            ops, model = [], []
            for n, size in enumerate(sizes):
                keys = [rand_key(rng, lo, hi) for _ in range(size)]
                as_bucket = {'bucket-first': n == 0, 'iter-first': n != 0,
                             'alternate': n % 2 == 0, 'buckets': True,
                             'iters': False}[flavour]
                if as_bucket:
                    ops.append(fam.Set(keys))
                else:
                    ops.append(rng.choice((list, tuple, fam.SmallTreeSet,
                                           fam.SubSet))(keys))
                model.extend(keys)
            res = fam.multiunion(ops)
            verify_result(fam, res, sorted(set(model)), rng,
                          (fam.prefix, 'growth', sizes, flavour))
            # the last operand is appended without over-allocation; the
            # result must still be a fully functional set that can grow
            extra = rand_key(rng, lo, hi)
            res.add(extra)
            check(list(res) == sorted(set(model) | {extra}), fam.prefix,
                  'result usable after add')


def main():
    rng = random.Random(0xC11)
    for prefix in FAMILIES:
        fam = Family(prefix)
        check(list(fam.multiunion([])) == [], prefix, 'empty')
        check(list(fam.multiunion(())) == [], prefix, 'empty tuple')
        check(list(fam.multiunion([fam.hi, fam.lo, fam.hi])) == [fam.lo, fam.hi],
              prefix, 'extremes as ints')
        for total in (3, 40, 300, 790, 810, 1700):
            for _ in range(4):
                random_round(fam, rng, total)
        growth_paths(fam, rng)
        error_paths(fam, rng)
        ghost_paths(fam, rng)
    print("OK: %d checks" % checks)


if __name__ == '__main__':
    main()
