"""Differential demo for refactoring u (C set-iteration cursors).

Run as:  PYTHONPATH=<tree>/src /venv/bin/python demo.py

Exercises ``nextBTreeItems`` / ``nextTreeSetItems`` (cursors over BTree and
TreeSet operands) and the "arbitrary iterable" branch of ``initSetIteration``
(sort a copy, squeeze out duplicates) through everything that drives them:
``union`` / ``intersection`` / ``difference`` / ``multiunion`` /
``weightedUnion`` / ``weightedIntersection`` and the ``|``, ``&``, ``-``, ``^``
operators, for several families and with very small tree nodes, against a
plain dict/set model.

Also covered: operands are left alone; equal-but-distinct elements of an
iterable (the first one is kept); error paths (not iterable, unsortable,
``__eq__`` failing while de-duplicating, iterable failing, key of the wrong
type, comparison failing in the merge loop, bucket or tree that cannot be
activated half way through an iteration); ghosts being loaded on demand;
reference counts of keys and values, also after failures.

Exits 0 when everything behaves as specified.
"""
import gc
import importlib
import random
import sys

import persistent  # noqa: F401

SEED = 20260930
FAMILIES = ['OO', 'II', 'LL', 'IO', 'OI', 'LO', 'LF', 'UU', 'QQ', 'IF',
            'OL', 'QO', 'UO', 'IU', 'fs']

checks = 0


def ok(cond, *msg):
    global checks
    checks += 1
    if not cond:
        raise AssertionError(' '.join(str(m) for m in msg))


def mod(fam):
    return importlib.import_module('BTrees.%sBTree' % fam)


def keygen(fam, rnd):
    k = fam[0]
    if fam == 'fs':
        alphabet = b'abcdefgh'
        return lambda: bytes([rnd.choice(alphabet), rnd.choice(alphabet)])
    if k in 'OIL':
        return lambda: rnd.randrange(-40, 40)
    return lambda: rnd.randrange(0, 80)


def valfor(fam, key, salt=0):
    v = fam[1]
    if fam == 'fs':
        return (b'v' + key + bytes([65 + salt]) + b'...')[:6]
    if v == 'O':
        return ('v', key, salt)
    if v == 'F':
        return float(abs(key)) / 2 + salt
    if v in 'UQ':
        return abs(key) + salt
    return key * 2 + salt


class Jar:
    def __init__(self):
        self.registered = []
        self.states = {}
        self.failing = set()
        self.loads = []
        self.n = 0

    def add(self, obj):
        self.n += 1
        obj._p_jar = self
        obj._p_oid = self.n.to_bytes(8, 'big')
        return obj

    def register(self, obj):
        self.registered.append(obj)

    def setstate(self, obj):
        self.loads.append(obj._p_oid)
        if obj._p_oid in self.failing:
            raise RuntimeError('cannot load', obj._p_oid)
        obj.__setstate__(self.states[obj._p_oid])


def small(base):
    class Small(base):
        max_leaf_size = 3
        max_internal_size = 2
    Small.__name__ = 'Small' + base.__name__
    return Small


class Kinds:
    """Factories for every kind of operand of one family."""

    def __init__(self, fam):
        m = self.m = mod(fam)
        self.fam = fam
        self.Set = getattr(m, fam + 'Set')
        self.Bucket = getattr(m, fam + 'Bucket')
        self.TreeSet = small(getattr(m, fam + 'TreeSet'))
        self.BTree = small(getattr(m, fam + 'BTree'))
        self.BigTreeSet = getattr(m, fam + 'TreeSet')
        self.BigBTree = getattr(m, fam + 'BTree')

    def pairs(self, keys, salt=0):
        return {k: valfor(self.fam, k, salt) for k in keys}

    def make(self, kind, keys, rnd, salt=0):
        keys = list(keys)
        if kind == 'Set':
            return self.Set(keys)
        if kind == 'TreeSet':
            return self.TreeSet(keys)
        if kind == 'BigTreeSet':
            return self.BigTreeSet(keys)
        if kind == 'Bucket':
            return self.Bucket(self.pairs(keys, salt))
        if kind == 'BTree':
            return self.BTree(self.pairs(keys, salt))
        if kind == 'BigBTree':
            return self.BigBTree(self.pairs(keys, salt))
        if kind == 'BTree-grown':
            # built by random insertion and deletion, so that the leaves
            # have irregular sizes
            t = self.BTree()
            junk = list(keys) * 2
            rnd.shuffle(junk)
            for k in junk:
                t[k] = valfor(self.fam, k, salt)
            return t
        if kind == 'list':
            dup = keys + keys[::2] + keys[:1] * 3
            rnd.shuffle(dup)
            return dup
        if kind == 'tuple-desc':
            return tuple(sorted(keys, reverse=True))
        if kind == 'gen':
            dup = keys + keys[1::2]
            rnd.shuffle(dup)
            return (k for k in dup)
        if kind == 'frozenset':
            return frozenset(keys)
        if kind == 'dict':
            return self.pairs(keys, salt)
        if kind == 'treekeys':
            return self.BTree(self.pairs(keys, salt)).keys()
        raise AssertionError(kind)


MAPPINGS = ('Bucket', 'BTree', 'BigBTree', 'BTree-grown')
BTREES = ('Set', 'TreeSet', 'BigTreeSet') + MAPPINGS
ITERABLES = ('list', 'tuple-desc', 'gen', 'frozenset', 'dict', 'treekeys')
ONESHOT = ('gen',)


def snapshot(kind, obj):
    if kind in ONESHOT:
        return None
    if kind in MAPPINGS or kind == 'dict':
        return list(obj.items())
    if kind == 'frozenset':
        return sorted(obj)
    return list(obj)


def check_set(r, expected, Set, what):
    ok(type(r) is Set, what, 'result type', type(r))
    ok(list(r) == sorted(expected), what, 'keys', list(r), sorted(expected))


def check_bucket(r, expected, Bucket, what):
    ok(type(r) is Bucket, what, 'result type', type(r))
    ok(list(r.items()) == sorted(expected.items()), what, 'items',
       list(r.items()), sorted(expected.items()))


def keysets(gen, rnd):
    na = rnd.choice([0, 1, 2, 4, 7, 10, 19, 33])
    nb = rnd.choice([0, 1, 3, 6, 11, 25])
    a = {gen() for _ in range(na)}
    shape = rnd.randrange(6)
    if shape == 0:
        b = set(a)
    elif shape == 1:
        b = set(sorted(a)[::2])
    elif shape == 2:
        b = {gen() for _ in range(nb)} - a
    elif shape == 3 and a:
        # everything of b after (or before) everything of a
        hi = max(a)
        b = {k for k in (gen() for _ in range(nb * 3)) if k > hi}
    else:
        b = {gen() for _ in range(nb)}
    return a, b


def differential(fam, rnd, rounds):
    K = Kinds(fam)
    m = K.m
    gen = keygen(fam, rnd)
    weighted = hasattr(m, 'weightedUnion')
    multi = hasattr(m, 'multiunion')
    for _ in range(rounds):
        a, b = keysets(gen, rnd)
        for k1 in BTREES + ITERABLES:
            for k2 in BTREES + ITERABLES:
                if k1 not in ('TreeSet', 'BTree', 'BTree-grown', 'BigBTree',
                              'BigTreeSet') and \
                   k2 not in ('TreeSet', 'BTree', 'BTree-grown', 'BigBTree',
                              'BigTreeSet') and \
                   k1 not in ITERABLES and k2 not in ITERABLES:
                    continue        # neither cursor nor the sorter involved
                what = '%s %s,%s a=%r b=%r' % (fam, k1, k2,
                                               sorted(a), sorted(b))
                for name, model in (('union', a | b),
                                    ('intersection', a & b)):
                    o1 = K.make(k1, a, rnd)
                    o2 = K.make(k2, b, rnd, 1)
                    s1, s2 = snapshot(k1, o1), snapshot(k2, o2)
                    r = getattr(m, name)(o1, o2)
                    check_set(r, model, K.Set, name + ' ' + what)
                    ok(snapshot(k1, o1) == s1 and snapshot(k2, o2) == s2,
                       name, what, 'operand modified')
                # difference keeps the values of a mapping first operand;
                # the first operand must be one of ours
                o1 = K.make(k1, a, rnd)
                o2 = K.make(k2, b, rnd, 1)
                s1, s2 = snapshot(k1, o1), snapshot(k2, o2)
                if k1 in MAPPINGS:
                    r = m.difference(o1, o2)
                    check_bucket(r, K.pairs(a - b), K.Bucket, 'diff ' + what)
                elif k1 in BTREES:
                    r = m.difference(o1, o2)
                    check_set(r, a - b, K.Set, 'diff ' + what)
                else:
                    try:
                        r = m.difference(o1, o2)
                    except TypeError:
                        r = None
                    else:
                        ok(False, 'difference(iterable, x) must fail', what)
                ok(snapshot(k1, o1) == s1, 'diff', what, 'o1 modified')
                if r is not None:
                    ok(snapshot(k2, o2) == s2, 'diff', what, 'o2 modified')

                # the operators, when the left operand is one of ours
                if k1 in BTREES:
                    o1 = K.make(k1, a, rnd)
                    for sym, model in (('|', a | b), ('&', a & b),
                                       ('-', a - b), ('^', a ^ b)):
                        o2 = K.make(k2, b, rnd, 1)
                        s1, s2 = snapshot(k1, o1), snapshot(k2, o2)
                        try:
                            if sym == '|':
                                r = o1 | o2
                            elif sym == '&':
                                r = o1 & o2
                            elif sym == '-':
                                r = o1 - o2
                            else:
                                if k1 in MAPPINGS or k2 in ('gen',):
                                    continue
                                r = o1 ^ o2
                        except TypeError:
                            # dict | OOBucket and the like are answered by
                            # the other operand; not our business
                            ok(k2 in ('dict', 'frozenset', 'treekeys'),
                               'unexpected TypeError', sym, what)
                            continue
                        if sym == '-' and k1 in MAPPINGS:
                            check_bucket(r, K.pairs(a - b), K.Bucket,
                                         sym + what)
                        elif sym == '^':
                            ok(list(r) == sorted(model), sym, what, list(r))
                        else:
                            check_set(r, model, K.Set, sym + ' ' + what)
                        ok(snapshot(k1, o1) == s1, sym, what, 'o1 modified')
                        ok(snapshot(k2, o2) == s2, sym, what, 'o2 modified')

        if weighted:
            for k1 in ('BTree', 'BTree-grown', 'TreeSet', 'Bucket', 'Set'):
                for k2 in ('BTree', 'TreeSet', 'BigBTree', 'Set'):
                    w1, w2 = rnd.choice([(1, 1), (2, 3), (0, 5), (7, 1)])
                    o1 = K.make(k1, a, rnd)
                    o2 = K.make(k2, b, rnd, 1)
                    s1, s2 = snapshot(k1, o1), snapshot(k2, o2)
                    v1 = K.pairs(a) if k1 in MAPPINGS else dict.fromkeys(a, 1)
                    v2 = K.pairs(b, 1) if k2 in MAPPINGS \
                        else dict.fromkeys(b, 1)
                    what = '%s weighted %s,%s %r %r a=%r b=%r' % (
                        fam, k1, k2, w1, w2, sorted(a), sorted(b))
                    anymap = k1 in MAPPINGS or k2 in MAPPINGS
                    w, r = m.weightedUnion(o1, o2, w1, w2)
                    if anymap:
                        exp = {}
                        for k in a | b:
                            if k in a and k in b:
                                exp[k] = v1[k] * w1 + v2[k] * w2
                            elif k in a:
                                exp[k] = v1[k] * w1
                            else:
                                exp[k] = v2[k] * w2
                        ok(w == 1, what)
                        check_bucket(r, exp, K.Bucket, 'wU ' + what)
                    else:
                        ok(w == 1, what)
                        check_set(r, a | b, K.Set, 'wU ' + what)
                    w, r = m.weightedIntersection(o1, o2, w1, w2)
                    if anymap:
                        exp = {k: v1[k] * w1 + v2[k] * w2 for k in a & b}
                        ok(w == 1, what)
                        check_bucket(r, exp, K.Bucket, 'wI ' + what)
                    else:
                        ok(w == w1 + w2, what, w)
                        check_set(r, a & b, K.Set, 'wI ' + what)
                    ok(snapshot(k1, o1) == s1 and snapshot(k2, o2) == s2,
                       what, 'operand modified')

        if multi:
            c = {gen() for _ in range(rnd.choice([0, 2, 9]))}
            parts = [K.make('TreeSet', a, rnd), K.make('BTree', b, rnd),
                     K.make('list', c, rnd), K.make('Set', a & b, rnd),
                     K.make('BTree-grown', c, rnd), K.make('gen', b, rnd),
                     K.make('Bucket', c, rnd)]
            rnd.shuffle(parts)
            r = m.multiunion(parts)
            check_set(r, a | b | c, K.Set, fam + ' multiunion')
            r = m.multiunion([K.make('BigTreeSet', a, rnd)])
            check_set(r, a, K.Set, fam + ' multiunion single')


class Boom(Exception):
    pass


def equal_but_distinct():
    from BTrees.OOBTree import OOSet, OOTreeSet, union, intersection, \
        difference
    # sorted() is stable: of elements comparing equal the first one survives
    r = union([True, 3, 1, 1.0, 2.0, 2, 3.0], OOSet())
    ok([type(x) for x in r] == [bool, float, int] and list(r) == [1, 2, 3],
       'first of equals', list(r))
    r = union(OOSet(), (2.0, 1.0, 1, 2, 1.0))
    ok([type(x) for x in r] == [float, float], list(r))
    # on a tie between the operands, the key of the first operand is taken
    r = union(OOTreeSet([1, 2]), [1.0, 2.0, 3.0])
    ok([type(x) for x in r] == [int, int, float], list(r))
    r = intersection([1.0, 2.0, 3.0], OOTreeSet([1, 2]))
    ok([type(x) for x in r] == [float, float], list(r))
    r = difference(OOTreeSet([1, 2, 3]), [True, 3.0, 3.0, True])
    ok(list(r) == [2])
    # long runs of duplicates, at the start, in the middle and at the end
    for seq, exp in [
            ([5] * 7, [5]),
            ([1, 1, 1, 2, 3, 3, 3], [1, 2, 3]),
            ([1, 2, 2, 2, 2, 3], [1, 2, 3]),
            ([1, 2, 3], [1, 2, 3]),
            ([3, 3, 2, 2, 1, 1], [1, 2, 3]),
            ([], []),
            ([9], [9]),
            ([4, 4], [4]),
    ]:
        src = list(seq)
        ok(list(union(src, OOSet())) == exp, seq)
        ok(list(union(OOTreeSet(), src)) == exp, seq)
        ok(list(intersection(src, src)) == exp, seq)
        ok(src == seq, 'source list modified', src, seq)


def error_paths():
    from BTrees.IIBTree import IISet, IITreeSet, IIBTree
    from BTrees import IIBTree as II
    from BTrees import OOBTree as OO
    T = small(II.IITreeSet)
    B = small(II.IIBTree)
    OT = small(OO.OOTreeSet)
    OB = small(OO.OOBTree)
    ts = T(range(0, 30, 3))
    bt = B({k: k for k in range(0, 30, 2)})

    def raises(exc, f, *a):
        try:
            f(*a)
        except exc as e:
            ok(sys.exc_info()[0] is exc or True)
            return e
        ok(False, 'expected', exc.__name__, f, a)

    for f in (II.union, II.intersection, II.difference):
        # not iterable (an object; ints are keys for II, and thus fine)
        raises(TypeError, f, ts, object())
        raises(TypeError, f, bt, 1.5)
        # a key of the wrong type is detected when the cursor gets there
        raises(TypeError, f, ts, [1, 'x', 2])
        raises(TypeError, f, bt, ['x'])
        # out of range
        raises((TypeError, OverflowError), f, ts, [1, 2 ** 40])
    raises(TypeError, II.union, object(), ts)
    raises(TypeError, II.union, [1, 'x'], ts)
    ok(list(II.union(ts, 4)) == sorted(set(ts) | {4}), 'key as set')
    ok(list(II.intersection(3, ts)) == [3], 'key as set')
    ok(list(II.difference(bt, 4).items()) ==
       [(k, k) for k in range(0, 30, 2) if k != 4], 'key as set')
    raises(TypeError, II.multiunion, [ts, object()])
    raises(TypeError, II.multiunion, [ts, ['x']])
    ok(list(ts) == list(range(0, 30, 3)) and
       list(bt.items()) == [(k, k) for k in range(0, 30, 2)], 'intact')

    # the iterable fails while being copied
    def failing():
        yield 3
        yield 1
        raise Boom('copy')

    for f in (OO.union, OO.intersection, OO.difference):
        e = raises(Boom, f, OT([1, 2, 3]), failing())
        ok(e.args == ('copy',))
    # unsortable
    raises(TypeError, OO.union, OT([1]), [1, 'a', 2])
    raises(TypeError, OO.union, [object(), object()], OT([1]))

    # __eq__ fails while squeezing out duplicates
    class Touchy:
        def __init__(self, n, sour=False):
            self.n = n
            self.sour = sour

        def __lt__(self, other):
            return self.n < other.n

        def __eq__(self, other):
            if self.sour or other.sour:
                raise Boom('eq')
            return self.n == other.n
        __hash__ = None

    for sour_at in range(1, 6):
        items = [Touchy(n) for n in (1, 1, 2, 3, 3, 3)]
        items[sour_at].sour = True
        gc.collect()
        rcs = [sys.getrefcount(x) for x in items]
        e = raises(Boom, OO.union, list(items), OT())
        ok(e.args == ('eq',))
        e = raises(Boom, OO.intersection, OT(), tuple(items))
        del e
        gc.collect()
        ok([sys.getrefcount(x) for x in items] == rcs,
           'references leaked by a failed de-duplication', sour_at)
    # a single element is never compared
    one = [Touchy(1, sour=True)]
    ok(len(OO.union(one, OO.OOSet())) == 1)

    # comparison fails in the merge loop, the cursors being anywhere
    class Key:
        sour = None

        def __init__(self, n):
            self.n = n

        def __lt__(self, other):
            if Key.sour in (self.n, other.n):
                raise Boom('lt')
            return self.n < other.n

        def __eq__(self, other):
            return self.n == other.n

        def __hash__(self):
            return hash(self.n)

    keys = [Key(n) for n in range(12)]
    vals = [['v', n] for n in range(12)]
    t1 = OB(dict(zip(keys[::2] + keys[9:], vals)))
    t2 = OT(keys[1::2] + keys[:2])
    l2 = keys[3:8]
    gc.collect()
    rck = [sys.getrefcount(k) for k in keys]
    rcv = [sys.getrefcount(v) for v in vals]
    for n in range(12):
        for f in (OO.union, OO.intersection, OO.difference):
            for other in (t2, l2):
                Key.sour = None
                good = f(t1, other)
                ok(len(good) >= 0)
                del good
                Key.sour = n
                try:
                    r = f(t1, other)
                except Boom:
                    r = None
                Key.sour = None
                del r
    gc.collect()
    ok([sys.getrefcount(k) for k in keys] == rck, 'key references leaked',
       [sys.getrefcount(k) for k in keys], rck)
    ok([sys.getrefcount(v) for v in vals] == rcv, 'value references leaked')

    # values are passed on by identity, each result owning one reference
    r = OO.difference(t1, t2)
    for k, v in r.items():
        ok(any(k is x for x in keys) and any(v is x for x in vals))
    del k, v
    held = {id(x) for x in r.values()}
    ok([sys.getrefcount(v) for v in vals] ==
       [c + (1 if id(v) in held else 0) for v, c in zip(vals, rcv)],
       'value references')
    del r
    gc.collect()
    ok([sys.getrefcount(v) for v in vals] == rcv, 'value references (2)')
    # the cursors hold a reference on the operand only while running
    rc = sys.getrefcount(t1), sys.getrefcount(t2), sys.getrefcount(l2)
    OO.union(t1, t2)
    OO.intersection(l2, t1)
    ok((sys.getrefcount(t1), sys.getrefcount(t2), sys.getrefcount(l2)) == rc,
       'operand references')


def chain(tree):
    b = tree._firstbucket
    out = []
    while b is not None:
        out.append(b)
        b = b._next
    return out


def ghosts(fam):
    K = Kinds(fam)
    m = K.m
    rnd = random.Random(SEED + 3)
    gen = keygen(fam, rnd)
    a = set()
    while len(a) < 14:
        a.add(gen())
    b = set(sorted(a)[::3]) | {gen() for _ in range(5)}

    def stored(kind):
        """A tree whose nodes all live in a jar, buckets turned to ghosts."""
        jar = Jar()
        t = K.make(kind, a, rnd)
        jar.add(t)
        buckets = chain(t)
        ok(len(buckets) >= 4, 'several leaves')
        for bk in buckets:
            jar.add(bk)
        for bk in buckets:
            jar.states[bk._p_oid] = bk.__getstate__()
        jar.states[t._p_oid] = t.__getstate__()
        for bk in buckets:
            bk._p_changed = False
        t._p_changed = False
        jar.registered[:] = []
        for bk in buckets:
            bk._p_deactivate()
            ok(bk._p_changed is None, 'bucket is a ghost')
        return jar, t, buckets

    for kind in ('BTree', 'TreeSet'):
        ismap = kind == 'BTree'
        for name, model in (('union', a | b), ('intersection', a & b),
                            ('difference', a - b)):
            for other in ('Set', 'list', 'TreeSet'):
                # everything loads on demand
                jar, t, buckets = stored(kind)
                r = getattr(m, name)(t, K.make(other, b, rnd))
                if name == 'difference' and ismap:
                    check_bucket(r, K.pairs(a - b), K.Bucket, 'ghost diff')
                else:
                    check_set(r, model, K.Set, 'ghost ' + name)
                ok(set(jar.loads) == {bk._p_oid for bk in buckets},
                   'all buckets were loaded', fam, kind, name)
                ok(jar.registered == [], 'reading registers nothing')
                ok(all(bk._p_changed is False for bk in buckets) and
                   t._p_changed is False, 'nothing was marked changed')

                # one bucket cannot be loaded: the error is reported
                for bad in range(len(buckets)):
                    jar, t, buckets = stored(kind)
                    jar.failing.add(buckets[bad]._p_oid)
                    for args in ((t, K.make(other, b, rnd)),
                                 (K.make(other, b, rnd), t)):
                        if name == 'difference' and other == 'list' and \
                                args[1] is t:
                            continue
                        jar.loads[:] = []
                        try:
                            r = getattr(m, name)(*args)
                        except RuntimeError as e:
                            ok(e.args == ('cannot load', buckets[bad]._p_oid))
                        else:
                            # only an intersection / difference may legally
                            # stop before reaching the bad bucket
                            ok(buckets[bad]._p_oid not in jar.loads,
                               'failed load swallowed', fam, kind, name, bad)
                            ok(name != 'union', 'union reads everything')
                            exp = {'intersection': a & b,
                                   'difference': (a - b) if args[0] is t
                                   else (b - a)}[name]
                            ok(sorted(r) == sorted(exp), 'early stop result',
                               fam, kind, name, bad, list(r), sorted(exp))
                    ok(jar.registered == [], 'nothing registered')
                    jar.failing.clear()
                    ok(list(t) == sorted(a), 'tree intact afterwards')

        # the tree itself is a ghost that cannot be loaded
        jar, t, buckets = stored(kind)
        t._p_deactivate()
        ok(t._p_changed is None)
        jar.failing.add(t._p_oid)
        for f in (m.union, m.intersection):
            try:
                f(t, K.make('Set', b, rnd))
            except RuntimeError as e:
                ok(e.args == ('cannot load', t._p_oid))
            else:
                ok(False, 'tree could not be loaded, yet no error')
        jar.failing.clear()
        check_set(m.union(t, K.make('Set', b, rnd)), a | b, K.Set,
                  'ghost tree')
        if hasattr(m, 'multiunion'):
            jar, t, buckets = stored(kind)
            jar.failing.add(buckets[2]._p_oid)
            try:
                m.multiunion([K.make('Set', b, rnd), t])
            except RuntimeError as e:
                ok(e.args == ('cannot load', buckets[2]._p_oid))
            else:
                ok(False, 'multiunion swallowed a failed load')
            jar.failing.clear()
            check_set(m.multiunion([t, K.make('list', b, rnd)]), a | b,
                      K.Set, 'multiunion ghosts')


def main():
    rnd = random.Random(SEED)
    for fam in FAMILIES:
        differential(fam, rnd, rounds=40 if fam in ('OO', 'II', 'LO') else 12)
    equal_but_distinct()
    error_paths()
    for fam in ('OO', 'II', 'LF', 'fs', 'QO'):
        ghosts(fam)
    print('demo u: %d checks passed' % checks)


if __name__ == '__main__':
    main()
