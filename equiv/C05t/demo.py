"""Differential demo for refactoring t (PreviousBucket / BTreeItems_seek).

Run as:  PYTHONPATH=<tree>/src /venv/bin/python demo.py

The demo keeps C BTrees/TreeSets with tiny nodes inside a stand-in jar with a
real persistent.PickleCache, so every node can be turned into a ghost.  It
drives the lazy key/value/item sequences returned by keys()/values()/items()
(BTreeItems_seek, BTreeItems_item, slices, negative indices, out-of-range
indices, the "changed size" check), the range searches that have to step to
the previous bucket (PreviousBucket via BTree_rangeSearch) and the set
operations that walk such sequences (nextBTreeItems/nextTreeSetItems), while
nodes are evicted between calls, while a key comparison is running, and while
a bucket fails to load.  Every answer is compared with a plain sorted-list
model, and after every call no node may be left pinned (sticky).
"""
import hashlib
import random
import sys

from persistent import PickleCache

from BTrees.IIBTree import IIBTree, IITreeSet
from BTrees.IIBTree import union as IIunion
from BTrees.IIBTree import intersection as IIintersection
from BTrees.LOBTree import LOBTree
from BTrees.OOBTree import OOBTree, OOTreeSet
from BTrees.OOBTree import union as OOunion
from BTrees.OLBTree import OLBTree

GHOST, UPTODATE, CHANGED, STICKY = -1, 0, 1, 2

TRACE = hashlib.sha256()
CHECKS = [0]


def trace(*what):
    TRACE.update(repr(what).encode())


def check(cond, *msg):
    CHECKS[0] += 1
    if not cond:
        print("FAILED:", *msg)
        sys.exit(1)


class LoadError(Exception):
    pass


class Jar:
    """A tiny stand-in for a ZODB connection: states are kept in a dict."""

    def __init__(self):
        self.cache = PickleCache(self, 10000)
        self.store = {}
        self.objects = {}
        self.registered = []
        self.loads = 0
        self.fail = set()       # oids whose load fails
        self.on_load = None     # hook run inside setstate
        self.n = 0

    # -- protocol used by persistent --
    def setstate(self, ob):
        oid = ob._p_oid
        self.loads += 1
        trace('load', oid)
        if oid in self.fail:
            raise LoadError(oid)
        if self.on_load is not None:
            self.on_load(ob)
        ob.__setstate__(self.store[oid])

    def register(self, ob):
        self.registered.append(ob)

    def readCurrent(self, ob):
        pass

    # -- helpers --
    def _refs(self, state, out):
        if isinstance(state, tuple):
            for x in state:
                self._refs(x, out)
        elif hasattr(state, '_p_oid') and hasattr(state, '_p_jar'):
            out.append(state)

    def commit(self, root):
        todo = [root] + self.registered
        self.registered = []
        seen = set()
        while todo:
            ob = todo.pop()
            if id(ob) in seen:
                continue
            seen.add(id(ob))
            if ob._p_oid is not None and ob._p_state == GHOST:
                continue
            # state first: a tree inlines its only bucket while that bucket
            # has no oid yet, exactly as ZODB's serializer would see it
            state = ob.__getstate__()
            if ob._p_oid is None:
                self.n += 1
                oid = b'%08d' % self.n
                ob._p_jar = self
                ob._p_oid = oid
                self.cache[oid] = ob
                self.objects[oid] = ob
            self.store[ob._p_oid] = state
            ob._p_changed = False
            refs = []
            self._refs(state, refs)
            todo.extend(refs)

    def nodes(self):
        return [self.objects[k] for k in sorted(self.objects)]

    def sweep(self, rnd=None, p=1.0):
        """Evict (try to) every node, or a random subset."""
        for ob in self.nodes():
            if rnd is None or rnd.random() < p:
                ob._p_deactivate()

    def states(self):
        return [ob._p_state for ob in self.nodes()]

    def assert_unpinned(self, where):
        st = self.states()
        check(STICKY not in st, "a node is left sticky after", where, st)


def small(cls, leaf, internal):
    return type(cls)('Small' + cls.__name__, (cls,),
                     {'max_leaf_size': leaf, 'max_internal_size': internal})


def outcome(fn, *a, **k):
    try:
        return ('ok', fn(*a, **k))
    except LoadError as e:
        return ('LoadError', e.args)
    except (IndexError, KeyError, ValueError, TypeError, RuntimeError) as e:
        return (type(e).__name__, e.args)


def model_range(keys, lo, hi, exlo, exhi):
    out = []
    for k in keys:
        if lo is not None and (k < lo or (exlo and k == lo)):
            continue
        if hi is not None and (k > hi or (exhi and k == hi)):
            continue
        out.append(k)
    if lo is None and exlo and out:
        out = out[1:]
    if hi is None and exhi and out:
        out = out[:-1]
    return out


# ---------------------------------------------------------------------------
# 1. random indexing of lazy sequences under eviction (several families)

def run_indexing(cls, seed, mapping=True, valuefn=lambda k: k * 3 + 1):
    rnd = random.Random(seed)
    jar = Jar()
    T = small(cls, 4, 3)
    tree = T()
    twin = T()          # never in a jar, never evicted
    keys = sorted(rnd.sample(range(-500, 500), 90))
    for k in keys:
        if mapping:
            tree[k] = valuefn(k)
            twin[k] = valuefn(k)
        else:
            tree.add(k)
            twin.add(k)
    jar.commit(tree)
    check(len(jar.objects) > 20, "tree too flat", len(jar.objects))

    for rnd_no in range(60):
        # choose a range
        if rnd.random() < 0.3:
            lo = hi = None
        else:
            lo = rnd.choice([None, rnd.randint(-520, 520)])
            hi = rnd.choice([None, rnd.randint(-520, 520)])
        exlo = rnd.random() < 0.3
        exhi = rnd.random() < 0.3
        expect = model_range(keys, lo, hi, exlo, exhi)
        if rnd.random() < 0.5:
            jar.sweep()
        kind = rnd.choice(['keys', 'values', 'items']) if mapping else 'keys'
        seq = getattr(tree, kind)(lo, hi, exlo, exhi)
        tseq = getattr(twin, kind)(lo, hi, exlo, exhi)
        jar.assert_unpinned('range search')
        if kind == 'keys':
            want = expect
        elif kind == 'values':
            want = [valuefn(k) for k in expect]
        else:
            want = [(k, valuefn(k)) for k in expect]
        n = len(want)
        check(len(seq) == n, "len", kind, lo, hi, exlo, exhi, len(seq), n)
        jar.assert_unpinned('len')
        check(bool(seq) == bool(n), "bool")
        # random walk over indices: right moves, left moves, far jumps
        for step in range(25):
            mode = rnd.random()
            if mode < 0.2:
                jar.sweep()
            elif mode < 0.5:
                jar.sweep(rnd, 0.4)
            elif mode < 0.55:
                jar.cache.minimize()
            i = rnd.randint(-n - 3, n + 3)
            got = outcome(seq.__getitem__, i)
            ref = outcome(want.__getitem__, i)
            if ref[0] == 'IndexError':
                check(got[0] == 'IndexError', "index error expected", i, got)
                # the C code reports the normalized index
                check(got[1] == ((i + n if i < 0 else i),), "IndexError arg",
                      i, n, got)
            else:
                check(got == ref, "item", kind, i, got, ref)
            check(outcome(tseq.__getitem__, i) == got, "twin differs", i)
            jar.assert_unpinned('index %d' % i)
            trace(kind, i, got, jar.states())
        # slices
        for step in range(6):
            a = rnd.randint(-n - 2, n + 2)
            b = rnd.randint(-n - 2, n + 2)
            jar.sweep(rnd, 0.5)
            sl = seq[a:b]
            jar.assert_unpinned('slice')
            check(list(sl) == want[a:b], "slice", a, b, list(sl), want[a:b])
            if len(sl):
                check(sl[-1] == want[a:b][-1], "slice[-1]")
                check(sl[0] == want[a:b][0], "slice[0]")
            trace('slice', a, b, list(sl))
        # plain iteration with evictions in between
        it = iter(seq)
        got = []
        for x in it:
            got.append(x)
            if rnd.random() < 0.3:
                jar.sweep(rnd, 0.7)
            jar.assert_unpinned('next')
        check(got == want, "iteration", got, want)
    trace(jar.loads)
    return jar.loads


# ---------------------------------------------------------------------------
# 2. stepping to the previous bucket in a range search (PreviousBucket)

def run_previous_bucket(seed):
    rnd = random.Random(seed)
    jar = Jar()
    T = small(IIBTree, 4, 3)
    tree = T()
    keys = list(range(0, 400, 10))
    for k in keys:
        tree[k] = -k
    jar.commit(tree)
    # every max in a gap between two buckets forces PreviousBucket
    for hi in range(-5, 405):
        for exhi in (False, True):
            if rnd.random() < 0.5:
                jar.sweep()
            else:
                jar.sweep(rnd, 0.5)
            want = model_range(keys, None, hi, False, exhi)
            got = outcome(lambda: list(tree.keys(None, hi, False, exhi)))
            check(got == ('ok', want), "keys(max)", hi, exhi, got, want)
            jar.assert_unpinned('keys(max=%d)' % hi)
            got = outcome(tree.maxKey, hi)
            if [k for k in keys if k <= hi]:
                check(got == ('ok', max(k for k in keys if k <= hi)),
                      "maxKey", hi, got)
            else:
                check(got[0] == 'ValueError', "maxKey error", hi, got)
            jar.assert_unpinned('maxKey')
            trace(hi, exhi, got, jar.states())

    # a bucket on the way cannot be loaded: the error is reported, nothing
    # stays pinned, and the next attempt (load possible again) succeeds
    buckets = [ob for ob in jar.nodes() if type(ob).__name__.endswith('Bucket')]
    check(len(buckets) >= 10, "buckets", len(buckets))
    nfail = 0
    for victim in buckets:
        for hi in (victim.minKey() - 5, victim.minKey() + 5, 1000):
            jar.sweep()
            jar.fail = {victim._p_oid}
            got = outcome(lambda: list(tree.keys(0, hi)))
            jar.assert_unpinned('failing range search')
            want = model_range(keys, 0, hi, False, False)
            if got[0] == 'LoadError':
                nfail += 1
                check(victim._p_state == GHOST, "victim not ghost")
            else:
                check(got == ('ok', want), "range with failing bucket", got)
            jar.fail = set()
            got = outcome(lambda: list(tree.keys(0, hi)))
            check(got == ('ok', want), "range after failure", hi, got, want)
            trace('fail', hi, got[0], jar.states())
    check(nfail > 10, "failing loads were not reached", nfail)

    # seek over a bucket that cannot be loaded: left moves and right moves
    seq = tree.keys()
    n = len(keys)
    nfail = 0
    for victim in buckets:
        for a, b in ((0, n - 1), (n - 1, 0), (n // 2, 0), (3, n - 2)):
            jar.fail = set()
            jar.sweep()
            check(seq[a] == keys[a], "seek a")
            jar.sweep()
            jar.fail = {victim._p_oid}
            got = outcome(seq.__getitem__, b)
            jar.assert_unpinned('failing seek')
            if got[0] == 'LoadError':
                nfail += 1
            else:
                check(got == ('ok', keys[b]), "seek b", got)
            jar.fail = set()
            # the position remembered by the sequence is still consistent
            for c in (b, a, (a + b) // 2):
                check(seq[c] == keys[c], "seek after failure", c)
            jar.assert_unpinned('seek after failure')
            trace('failseek', a, b, got, jar.states())
    check(nfail > 10, "failing seeks were not reached", nfail)


# ---------------------------------------------------------------------------
# 3. the "changed size" check and mutation between two index operations

def run_changed_size():
    jar = Jar()
    T = small(LOBTree, 6, 4)
    tree = T()
    for k in range(60):
        tree[k] = str(k)
    jar.commit(tree)
    seq = tree.items()
    jar.sweep()
    check(seq[5] == (5, '5'), "seq[5]")
    # shrink the first bucket below offset 5
    for k in range(0, 5):
        del tree[k]
    jar.assert_unpinned('del')
    got = outcome(seq.__getitem__, 5)
    # the remembered bucket now has fewer than 6 entries or not: both
    # results are deterministic given the node sizes used here
    trace('changed', got)
    jar.assert_unpinned('stale index')
    jar.commit(tree)
    jar.sweep()
    got2 = outcome(seq.__getitem__, 5)
    check(got2 == got, "stale index differs after eviction", got, got2)
    check(got[0] in ('RuntimeError', 'ok'), "unexpected", got)
    if got[0] == 'RuntimeError':
        check(got[1] == ("the bucket being iterated changed size",), got)
    return got[0]


# ---------------------------------------------------------------------------
# 4. eviction while a key comparison is running (object keys)

class Key:
    """Totally ordered key whose comparisons may sweep the cache."""
    hook = None
    __slots__ = ('v',)

    def __init__(self, v):
        self.v = v

    def __lt__(self, other):
        if Key.hook is not None:
            Key.hook()
        if not isinstance(other, Key):
            return NotImplemented
        return self.v < other.v

    def __eq__(self, other):
        return isinstance(other, Key) and self.v == other.v

    def __hash__(self):
        return hash(self.v)

    def __repr__(self):
        return 'Key(%r)' % (self.v,)


def run_compare_sweeps(seed):
    rnd = random.Random(seed)
    jar = Jar()
    T = small(OOBTree, 4, 3)
    tree = T()
    vals = sorted(rnd.sample(range(1000), 70))
    for v in vals:
        tree[Key(v)] = v
    jar.commit(tree)
    count = [0]

    def hook():
        count[0] += 1
        # evict everything that is allowed to go, in the middle of a search
        jar.sweep()
        st = jar.states()
        trace('cmp', st)

    for rnd_no in range(120):
        lo = rnd.choice([None, rnd.randint(-10, 1010)])
        hi = rnd.choice([None, rnd.randint(-10, 1010)])
        exlo = rnd.random() < 0.3
        exhi = rnd.random() < 0.3
        want = model_range(vals, lo, hi, exlo, exhi)
        Key.hook = hook
        try:
            seq = tree.values(None if lo is None else Key(lo),
                              None if hi is None else Key(hi), exlo, exhi)
        finally:
            Key.hook = None
        jar.assert_unpinned('range search with sweeping comparisons')
        check(list(seq) == want, "values", lo, hi, exlo, exhi)
        n = len(want)
        for step in range(8):
            i = rnd.randint(-n - 1, n)
            jar.sweep(rnd, 0.6)
            got = outcome(seq.__getitem__, i)
            ref = outcome(want.__getitem__, i)
            check(got[0] == ref[0] and (got[0] != 'ok' or got == ref),
                  "item", i, got, ref)
            jar.assert_unpinned('index')
    check(count[0] > 300, "comparison hook did not run", count[0])

    # an unusable bound: the comparison raises in the middle of the descent
    class Bad:
        def __lt__(self, other):
            jar.sweep()
            raise ValueError('bad bound')
        __gt__ = __le__ = __ge__ = __lt__
    for meth in ('keys', 'values', 'items'):
        for args in ((Bad(),), (None, Bad()), (Key(100), Bad())):
            jar.sweep()
            got = outcome(getattr(tree, meth), *args)
            check(got == ('ValueError', ('bad bound',)), "bad bound", got)
            jar.assert_unpinned('bad bound')
            trace('bad', meth, jar.states())


# ---------------------------------------------------------------------------
# 5. set operations walk BTreeItems through the SetIteration protocol

def run_setops(seed):
    rnd = random.Random(seed)
    jar = Jar()
    T = small(IITreeSet, 4, 3)
    B = small(IIBTree, 4, 3)
    for rnd_no in range(40):
        a_keys = sorted(rnd.sample(range(300), rnd.randint(0, 60)))
        b_keys = sorted(rnd.sample(range(300), rnd.randint(0, 60)))
        a = T(a_keys)
        b = B([(k, k) for k in b_keys])
        root = OOBTree()
        root['a'] = a
        root['b'] = b
        jar.commit(root)
        jar.sweep()
        got = IIunion(a, b)
        jar.assert_unpinned('union')
        check(list(got) == sorted(set(a_keys) | set(b_keys)), "union")
        jar.sweep(rnd, 0.5)
        got = IIintersection(a.keys(5, 250), b.keys(10))
        jar.assert_unpinned('intersection')
        want = sorted(set(k for k in a_keys if 5 <= k <= 250)
                      & set(k for k in b_keys if k >= 10))
        check(list(got) == want, "intersection", list(got), want)
        trace('setop', list(got), jar.states())
        # a bucket that fails to load while the iteration is in progress
        nodes = [ob for ob in jar.nodes()
                 if type(ob).__name__ in ('IISet', 'IIBucket')]
        if nodes and a_keys and b_keys:
            victim = rnd.choice(nodes)
            jar.sweep()
            jar.fail = {victim._p_oid}
            got = outcome(lambda: list(IIunion(a, b)))
            jar.fail = set()
            jar.assert_unpinned('failing union')
            check(got[0] in ('LoadError', 'ok'), "failing union", got)
            if got[0] == 'ok':
                check(got[1] == sorted(set(a_keys) | set(b_keys)), "union 2")
            trace('failunion', got[0])
    # object keys: union of two lazy sequences
    OT = small(OOTreeSet, 4, 3)
    a = OT('abcdefghijklmnopqrstuvwxyz')
    b = OT('nopqrstuvwxyz0123456789')
    root = OOBTree({'a': a, 'b': b})
    jar.commit(root)
    jar.sweep()
    got = OOunion(a.keys('c', 'x'), b.keys(None, 'w', False, True))
    check(list(got) == sorted(set('cdefghijklmnopqrstuvwx')
                              | set('nopqrstuv0123456789')), "OO union")
    jar.assert_unpinned('OO union')


def main():
    loads = []
    loads.append(run_indexing(IIBTree, 1))
    loads.append(run_indexing(OOBTree, 2))
    loads.append(run_indexing(LOBTree, 3, valuefn=lambda k: 'v%d' % k))
    loads.append(run_indexing(OLBTree, 4))
    loads.append(run_indexing(IITreeSet, 5, mapping=False))
    loads.append(run_indexing(OOTreeSet, 6, mapping=False))
    run_previous_bucket(7)
    cs = run_changed_size()
    run_compare_sweeps(8)
    run_setops(9)
    print("loads per family:", loads, "changed-size:", cs)
    print("checks:", CHECKS[0], "trace digest:", TRACE.hexdigest())
    print("OK")


if __name__ == '__main__':
    main()
