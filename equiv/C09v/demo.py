"""Differential demo for refactoring v (C09).

Target: the pure-Python read paths and update() in src/BTrees/_base.py:

    _BucketBase.__contains__ / has_key, Bucket.get, Bucket.setdefault,
    Bucket.update, _Tree.__contains__, _Tree.has_key, _Tree.update, Tree.get

Sections
  1. randomized differential run of the ...Py classes (BTree, Bucket, Set,
     TreeSet; several families; leaf size 4, interior size 3) against a
     dict/sorted() model: every lookup with usable and unusable keys, [] and
     writes interleaved, setdefault(), update() from lists, iterators, dicts,
     objects with items() / iteritems(), other BTrees, and malformed pairs;
     a refused write must change nothing (items, expanded state, _p_changed);
  2. object keys: default-comparison objects read as absent, keys whose
     comparison fails propagate the comparison's exception;
  3. ghosts under a stand-in jar: which nodes a lookup activates, and what a
     jar that fails to load does to each kind of lookup;
  4. the C classes get the same section-1 run for the methods that both
     implementations answer identically (guards the model itself).

Run:  PYTHONPATH=<tree>/src /venv/bin/python demo.py     (exit 0 == as specified)
"""
import importlib
import operator
import pickle
import random
import sys

SEED = 90903
FAMILIES = ['II', 'IO', 'IF', 'UU', 'UO', 'LL', 'LO', 'QQ', 'QO', 'QF',
            'OO', 'OI', 'OL']
BOUNDS = {'I': (-2 ** 31, 2 ** 31 - 1), 'U': (0, 2 ** 32 - 1),
          'L': (-2 ** 63, 2 ** 63 - 1), 'Q': (0, 2 ** 64 - 1)}

failures = []
counts = {'checks': 0, 'unusable': 0, 'refused': 0, 'updates': 0}


def fail(msg):
    failures.append(msg)
    if len(failures) > 25:
        report()


def report():
    for f in failures:
        print('FAIL:', f)
    print('%d failures' % len(failures))
    sys.exit(1)


def outcome(fn, *args):
    try:
        return ('ok', fn(*args))
    except Exception as e:      # noqa: BLE001 - the class is what we compare
        return ('exc', type(e))


def same(a, b):
    if a[0] != b[0]:
        return False
    if a[0] == 'exc':
        return a[1] is b[1]
    x, y = a[1], b[1]
    return x is y or (type(x) is type(y) and x == y)


def check(where, what, got, want):
    counts['checks'] += 1
    if not same(got, want):
        fail('%s %s: got %r, expected %r' % (where, what, got, want))


class MyInt(int):
    pass


class Plain:
    """No ordering of its own: unusable as an object key."""


def deep_state(obj):
    def expand(x):
        if isinstance(x, tuple):
            return tuple(expand(y) for y in x)
        if hasattr(x, '_p_oid') and hasattr(x, '__getstate__'):
            return (type(x).__name__, expand(x.__getstate__()))
        return x
    return expand(obj.__getstate__())


def small(cls):
    if not hasattr(cls, 'max_internal_size'):
        return cls
    sub = type(cls.__name__ + 'Small', (cls,),
               {'max_leaf_size': 4, 'max_internal_size': 3})
    globals()[sub.__name__] = sub
    return sub


class Jar:
    """Tiny stand-in for a ZODB connection."""

    def __init__(self):
        self.states = {}
        self.loaded = []
        self.fail_with = None
        self.registered = []

    def setstate(self, obj):
        if self.fail_with is not None:
            raise self.fail_with('cannot load')
        self.loaded.append(obj._p_oid)
        obj.__setstate__(self.states[obj._p_oid])

    def register(self, obj):
        self.registered.append(obj._p_oid)

    def readCurrent(self, obj):
        pass


# ------------------------------------------------------------------ model

def key_pools(kk):
    base = list(range(-2, 45))
    if kk == 'O':
        return base, [object(), Plain(), Plain]
    lo, hi = BOUNDS[kk]
    good = [k for k in base if lo <= k <= hi] + [lo, hi, True, MyInt(11)]
    bad = [lo - 1, hi + 1, 2 ** 64, 2 ** 70, -2 ** 70, -2 ** 63 - 1,
           'a', b'a', 1.0, 2.5, None, (1,), (), [2], 1j, MyInt(hi + 1),
           object()]
    return good, bad


def value_pools(vk):
    if vk == 'O':
        return ['v', None, 0, 17, (1, 2), 2.5], []
    if vk == 'F':
        return [0.0, 0.5, -1.25, 3.0, 1024.0], ['x', None, (1,), b'1']
    lo, hi = BOUNDS[vk]
    return ([0, 1, 2, 7, 1000, lo, hi, True],
            [lo - 1, hi + 1, 2 ** 70, 'x', None, 1.5, (1,)])


def conv_key(kk, k):
    return k if kk == 'O' else int(k)


def conv_value(vk, v):
    if vk == 'O':
        return v
    return float(v) if vk == 'F' else int(v)


class ItemsOnly:
    def __init__(self, pairs):
        self.pairs = pairs

    def items(self):
        return iter(self.pairs)


class IterItemsFirst:
    """iteritems() must win over items()."""

    def __init__(self, pairs):
        self.pairs = pairs

    def iteritems(self):
        return iter(self.pairs)

    def items(self):
        raise AssertionError('items() consulted although iteritems() exists')


class Subject:
    def __init__(self, fam, kind, cls, rnd, python):
        self.fam, self.kind, self.rnd, self.python = fam, kind, rnd, python
        self.kk, self.vk = fam[0], fam[1]
        self.mapping = kind in ('BTree', 'Bucket')
        self.tree = kind in ('BTree', 'TreeSet')
        self.cls = small(cls)
        self.obj = self.cls()
        self.jar = Jar()
        self.obj._p_jar = self.jar
        self.obj._p_oid = b'\0' * 7 + b'\1'
        self.model = {}
        self.goodk, self.badk = key_pools(self.kk)
        if not python and self.kk == 'O':
            # C compares a default-comparison object with the stored keys on
            # reads (TypeError) where Python calls it absent: not offered
            self.badk = []
        self.goodv, self.badv = value_pools(self.vk)
        self.where = fam + kind + ('Py' if python else '')

    def contents(self):
        if self.mapping:
            return list(self.obj.items())
        return list(self.obj.keys())

    def model_contents(self):
        if self.mapping:
            return sorted(self.model.items())
        return sorted(self.model)

    def pick_key(self, p_bad=0.3):
        r = self.rnd
        if self.badk and r.random() < p_bad:
            return r.choice(self.badk), False
        if self.model and r.random() < 0.45:
            return r.choice(sorted(self.model)), True
        return r.choice(self.goodk), True

    def pick_value(self, p_bad=0.2):
        r = self.rnd
        if self.badv and r.random() < p_bad:
            return r.choice(self.badv), False
        return r.choice(self.goodv), True

    def run_write(self, what, fn, args, want, mutates, lenient=False):
        obj = self.obj
        obj._p_changed = False
        before_state = deep_state(obj)
        before_items = self.contents()
        got = outcome(fn, *args)
        check(self.where, what, got, want)
        after = self.contents()
        if after != self.model_contents():
            fail('%s %s: contents %r != model %r'
                 % (self.where, what, after, self.model_contents()))
        if not mutates:
            counts['refused'] += want[0] == 'exc'
            if after != before_items or deep_state(obj) != before_state:
                fail('%s %s: changed something' % (self.where, what))
            if obj._p_changed and not lenient:
                fail('%s %s: set _p_changed' % (self.where, what))
        elif not self.tree and not obj._p_changed:
            fail('%s %s: mutation did not set _p_changed' % (self.where, what))

    # -- the lookups
    def do_reads(self, k, usable):
        obj, m = self.obj, self.model
        where = self.where
        present = usable and conv_key(self.kk, k) in m
        if not usable:
            counts['unusable'] += 1
        obj._p_changed = False
        before = deep_state(obj)
        check(where, '%r in' % (k,), outcome(obj.__contains__, k),
              ('ok', present))
        check(where, '%r in (operator)' % (k,),
              outcome(operator.contains, obj, k), ('ok', present))
        check(where, 'has_key(%r)' % (k,), outcome(obj.has_key, k),
              ('ok', present))
        if self.mapping:
            d = object()
            v = m[conv_key(self.kk, k)] if present else None
            check(where, 'get(%r, d)' % (k,), outcome(obj.get, k, d),
                  ('ok', v if present else d))
            check(where, 'get(%r)' % (k,), outcome(obj.get, k),
                  ('ok', v if present else None))
            if self.python:     # the C get() takes no keyword arguments
                check(where, 'get(%r, default=d)' % (k,),
                      outcome(lambda: obj.get(k, default=d)),
                      ('ok', v if present else d))
            check(where, '[%r]' % (k,), outcome(obj.__getitem__, k),
                  ('ok', v) if present else ('exc', KeyError))
        if obj._p_changed or deep_state(obj) != before:
            fail('%s lookup of %r changed something' % (where, k))

    # -- setdefault
    def do_setdefault(self, k, usable):
        v, vok = self.pick_value()
        m = self.model
        what = 'setdefault(%r,%r)' % (k, v)
        if self.python:
            # key first, then value, then the store; the stored value
            # (old or new, converted) comes back
            if not (usable and vok):
                want, mut = ('exc', TypeError), False
            else:
                ck = conv_key(self.kk, k)
                mut = ck not in m
                if mut:
                    m[ck] = conv_value(self.vk, v)
                want = ('ok', m[ck])
        else:
            if not usable:
                want, mut = ('exc', TypeError), False
            elif conv_key(self.kk, k) in m:
                want, mut = ('ok', m[conv_key(self.kk, k)]), False
            elif not vok:
                want, mut = ('exc', TypeError), False
            else:
                m[conv_key(self.kk, k)] = conv_value(self.vk, v)
                want, mut = ('ok', v), True
        self.run_write(what, self.obj.setdefault, (k, v), want, mut)

    def do_setitem(self, k, usable):
        v, vok = self.pick_value()
        m = self.model
        if usable and vok:
            ck, sv = conv_key(self.kk, k), conv_value(self.vk, v)
            mut = ck not in m or self.vk == 'O' or m[ck] != sv
            if self.python and self.vk == 'O':
                mut = True
            m[ck] = sv
            if ck in m and not mut:
                # stored an equal value: may or may not count as a change
                self.obj[k] = v
                if self.contents() != self.model_contents():
                    fail('%s [%r]=%r contents' % (self.where, k, v))
                return
            self.run_write('[%r]=%r' % (k, v), self.obj.__setitem__, (k, v),
                           ('ok', None), True)
        else:
            self.run_write('[%r]=%r' % (k, v), self.obj.__setitem__, (k, v),
                           ('exc', TypeError), False)

    def do_delitem(self, k, usable):
        m = self.model
        if not usable:
            want, mut = ('exc', TypeError), False
        elif conv_key(self.kk, k) in m:
            del m[conv_key(self.kk, k)]
            want, mut = ('ok', None), True
        else:
            want, mut = ('exc', KeyError), False
        self.run_write('del [%r]' % (k,), self.obj.__delitem__, (k,),
                       want, mut)

    # -- update() of a mapping
    def do_update(self):
        counts['updates'] += 1
        r, m = self.rnd, self.model
        pairs, shape_bad_at = [], None
        for n in range(r.randint(0, 5)):
            k, usable = self.pick_key(0.12)
            v, vok = self.pick_value(0.12)
            pairs.append([k, usable, v, vok])
        raw = [(k, v) for k, usable, v, vok in pairs]
        # sometimes a malformed element
        if r.random() < 0.2:
            pos = r.randint(0, len(raw))
            raw.insert(pos, r.choice([(1,), (1, 2, 3), 5, None, ()]))
            shape_bad_at = pos
        want, mut, equal_store = ('ok', None), False, False
        for pos, item in enumerate(raw):
            if pos == shape_bad_at:
                want = ('exc', TypeError)
                break
            k, v = item
            n = pos if shape_bad_at is None or pos < shape_bad_at else pos - 1
            usable, vok = pairs[n][1], pairs[n][3]
            if not (usable and vok):
                want = ('exc', TypeError)
                break
            ck, sv = conv_key(self.kk, k), conv_value(self.vk, v)
            if ck not in m or m[ck] != sv or type(m[ck]) is not type(sv):
                mut = True
            else:
                equal_store = True
            m[ck] = sv
        # choose how to present the pairs
        form = r.choice(['list', 'iter', 'gen', 'items', 'iteritems',
                         'dict', 'btree'])
        if not self.python and form in ('iter', 'gen', 'iteritems'):
            # the C update() wants a sequence or something with items()
            form = 'list'
        arg = raw
        if form == 'iter':
            arg = iter(raw)
        elif form == 'gen':
            arg = (x for x in raw)
        elif form == 'items':
            arg = ItemsOnly(raw)
        elif form == 'iteritems':
            arg = IterItemsFirst(raw)
        elif form in ('dict', 'btree') and shape_bad_at is None:
            try:
                as_dict = dict(raw)
            except TypeError:
                as_dict = None
            if as_dict is not None and len(as_dict) == len(raw) and (
                    len({type(k) for k in as_dict}) <= 1):
                arg = as_dict
                if form == 'btree' and want[0] == 'ok':
                    other = self.cls()
                    for k, v in sorted(as_dict.items()):
                        other[k] = v
                    arg = other
        what = 'update(%s %r)' % (form, raw)
        if equal_store and not mut:
            # only re-stored equal values: change flag is not our subject
            got = outcome(self.obj.update, arg)
            check(self.where, what, got, want)
            if self.contents() != self.model_contents():
                fail('%s %s contents' % (self.where, what))
            return
        if want[0] == 'exc' and mut:
            # partly applied before the refusal: contents must match the model
            got = outcome(self.obj.update, arg)
            check(self.where, what, got, want)
            if self.contents() != self.model_contents():
                fail('%s %s: contents %r != model %r' % (
                    self.where, what, self.contents(), self.model_contents()))
            return
        self.run_write(what, self.obj.update, (arg,), want, mut)

    # -- sets
    def do_set_step(self, k, usable):
        r, m = self.rnd, self.model
        roll = r.random()
        if roll < 0.55:
            if usable:
                new = conv_key(self.kk, k) not in m
                m[conv_key(self.kk, k)] = None
                self.run_write('add(%r)' % (k,), self.obj.add, (k,),
                               ('ok', 1 if new else 0) if not self.python
                               else ('ok', new), new,
                               # a single-bucket TreeSetPy flags itself as
                               # changed even when the key was there already
                               lenient=self.python and self.tree)
            else:
                self.run_write('add(%r)' % (k,), self.obj.add, (k,),
                               ('exc', TypeError), False)
        elif roll < 0.8:
            present = usable and conv_key(self.kk, k) in m
            if present:
                del m[conv_key(self.kk, k)]
            self.run_write('discard(%r)' % (k,), self.obj.discard, (k,),
                           ('ok', None), present)
        else:
            ks = [self.pick_key(0.1) for _ in range(r.randint(0, 5))]
            want, mut = None, False
            n = 0
            for kk_, us in ks:
                if not us:
                    want = ('exc', TypeError)
                    break
                if conv_key(self.kk, kk_) not in m:
                    mut = True
                    n += 1
                m[conv_key(self.kk, kk_)] = None
            got = outcome(self.obj.update, [x for x, us in ks])
            counts['checks'] += 1
            if want is not None:
                if got != want:
                    fail('%s set update: %r' % (self.where, got))
            elif got[0] != 'ok':
                fail('%s set update: %r' % (self.where, got))
            if self.contents() != self.model_contents():
                fail('%s set update contents' % self.where)

    def step(self):
        r = self.rnd
        k, usable = self.pick_key()
        roll = r.random()
        if roll < 0.40:
            self.do_reads(k, usable)
        elif not self.mapping:
            self.do_set_step(k, usable)
        elif roll < 0.60:
            self.do_setitem(k, usable)
        elif roll < 0.72:
            self.do_setdefault(k, usable)
        elif roll < 0.82:
            self.do_delitem(k, usable)
        else:
            self.do_update()

    def finish(self):
        obj = self.obj
        if self.tree:
            obj._check()
        if self.contents() != self.model_contents():
            fail('%s final contents differ' % self.where)
        if self.python and self.tree:
            # (a subclass of a ...Py tree pickles its leaves as C buckets and
            # cannot be loaded back; not our subject) - copy via the state
            clone = self.cls()
            clone.__setstate__(obj.__getstate__())
        else:
            clone = pickle.loads(pickle.dumps(obj))
        got = list(clone.items()) if self.mapping else list(clone.keys())
        if got != self.model_contents():
            fail('%s state round trip differs' % self.where)


# -------------------------------------------------------------- section 2

class Grumpy:
    def __init__(self, exc):
        self.exc = exc

    def _cmp(self, other):
        raise self.exc('grumpy')

    __lt__ = __gt__ = __le__ = __ge__ = __eq__ = _cmp
    __hash__ = object.__hash__


def object_key_cases():
    for fam in ('OO', 'OI'):
        mod = importlib.import_module('BTrees.%sBTree' % fam)
        for kind in ('Bucket', 'Set', 'BTree', 'TreeSet'):
            mapping = kind in ('BTree', 'Bucket')
            for size in (0, 1, 3, 30):
                obj = small(getattr(mod, fam + kind + 'Py'))()
                for i in range(size):
                    if mapping:
                        obj[i] = i
                    else:
                        obj.add(i)
                where = '%s%sPy(len %d)' % (fam, kind, size)
                before = deep_state(obj)
                # unusable (default comparison): absent, whatever the size
                for k in (object(), Plain(), Plain):
                    d = object()
                    check(where, 'plain in', outcome(obj.__contains__, k),
                          ('ok', False))
                    check(where, 'has_key(plain)', outcome(obj.has_key, k),
                          ('ok', False))
                    if mapping:
                        check(where, 'get(plain)', outcome(obj.get, k, d),
                              ('ok', d))
                        check(where, '[plain]', outcome(obj.__getitem__, k),
                              ('exc', KeyError))
                        check(where, 'setdefault(plain)',
                              outcome(obj.setdefault, k, 1), ('exc', TypeError))
                        check(where, 'update([(plain, 1)])',
                              outcome(obj.update, [(k, 1)]), ('exc', TypeError))
                # usable but incomparable with the keys that are there: the
                # comparison's exception is the answer once there is a key to
                # compare with
                for exc in (TypeError, ValueError, KeyError):
                    k, d = Grumpy(exc), object()
                    want = ('exc', exc) if size else None
                    check(where, 'grumpy in', outcome(obj.__contains__, k),
                          want or ('ok', False))
                    check(where, 'has_key(grumpy)', outcome(obj.has_key, k),
                          want or ('ok', False))
                    if mapping:
                        check(where, 'get(grumpy)', outcome(obj.get, k, d),
                              want or ('ok', d))
                if deep_state(obj) != before:
                    fail('%s probing changed the state' % where)


# -------------------------------------------------------------- section 3

def nodes_of(obj):
    out, todo = [], [obj]
    while todo:
        n = todo.pop()
        if any(n is x for x in out):
            continue
        out.append(n)

        def walk(x):
            if isinstance(x, tuple):
                for y in x:
                    walk(y)
            elif hasattr(x, '_p_oid') and hasattr(x, '__getstate__'):
                todo.append(x)
        walk(n.__getstate__())
    return out


def ghost_cases(rnd):
    for fam in ('II', 'LO', 'OO'):
        mod = importlib.import_module('BTrees.%sBTree' % fam)
        unusable = 'a' if fam[0] != 'O' else Plain()
        for kind in ('BTree', 'TreeSet', 'Bucket', 'Set'):
            mapping = kind in ('BTree', 'Bucket')
            tree = kind in ('BTree', 'TreeSet')
            where = fam + kind + 'Py ghost'
            obj = small(getattr(mod, fam + kind + 'Py'))()
            keys = list(range(0, 60, 2))
            for k in keys:
                if mapping:
                    obj[k] = k + 1
                else:
                    obj.add(k)
            jar = Jar()
            nodes = nodes_of(obj)
            for n, node in enumerate(nodes):
                node._p_jar = jar
                node._p_oid = b'%08d' % n
            for node in nodes:
                jar.states[node._p_oid] = node.__getstate__()

            def ghostify():
                for node in nodes:
                    node._p_deactivate()
                    if node._p_changed is not None:
                        fail('%s: could not make a ghost' % where)
                del jar.loaded[:]

            def probes(k, v):
                d = object()
                obj._p_activate()
                has_key = obj.has_key
                out = [('in', lambda: k in obj, ('ok', True), ('ok', False)),
                       ('has_key', lambda: has_key(k), ('ok', True),
                        ('ok', False))]
                if mapping:
                    get = obj.get
                    out += [('get', lambda: get(k), ('ok', v), ('ok', None)),
                            ('get d', lambda: get(k, d), ('ok', v), ('ok', d))]
                return out

            # -- a working jar
            for k in rnd.sample(range(0, 62), 20):
                present = k in keys
                paths = {}
                for name, fn, w_present, w_absent in probes(k, k + 1):
                    ghostify()
                    check(where, '%s %r' % (name, k), outcome(fn),
                          w_present if present else w_absent)
                    paths[name] = list(jar.loaded)
                    if jar.loaded[0] != obj._p_oid:
                        fail('%s: %s did not start at the root' % (where, name))
                    if tree and len(jar.loaded) < 3:
                        fail('%s: tree not deep enough' % where)
                    if len(set(jar.loaded)) != len(jar.loaded):
                        fail('%s: a node was loaded twice' % where)
                    if any(n._p_changed for n in nodes):
                        fail('%s: %s marked a node changed' % (where, name))
                if len({tuple(p) for p in paths.values()}) != 1:
                    fail('%s: lookups of %r load different paths: %r'
                         % (where, k, paths))
            # -- an unusable key: only the root gets loaded (to find _to_key)
            for name, fn, w_present, w_absent in probes(unusable, None):
                ghostify()
                check(where, '%s unusable' % name, outcome(fn), w_absent)
                if jar.loaded != [obj._p_oid]:
                    fail('%s: %s of an unusable key loaded %r'
                         % (where, name, jar.loaded))
            # -- a jar that cannot load
            for level in ('root', 'inner'):
                if level == 'inner' and not tree:
                    continue
                for exc in (TypeError, KeyError, RuntimeError):
                    for name, fn, w_present, w_absent in probes(4, 5):
                        ghostify()
                        if level == 'inner':
                            obj._p_activate()
                        jar.fail_with = exc
                        got = outcome(fn)
                        jar.fail_with = None
                        if level == 'root' and exc is TypeError:
                            # the root is loaded while the key is being
                            # converted: a TypeError there reads as "unusable
                            # key", i.e. absent
                            want = w_absent
                        else:
                            want = ('exc', exc)
                        check(where, '%s, %s fails to load with %s'
                              % (name, level, exc.__name__), got, want)
                    ghostify()
                    check(where, 'afterwards: 4 in', outcome(lambda: 4 in obj),
                          ('ok', True))
            if list(obj.keys()) != keys or jar.registered:
                fail('%s: lookups changed something' % where)


def main():
    rnd = random.Random(SEED)
    for fam in FAMILIES:
        mod = importlib.import_module('BTrees.%sBTree' % fam)
        for kind in ('BTree', 'Bucket', 'Set', 'TreeSet'):
            py = getattr(mod, fam + kind + 'Py')
            sub = Subject(fam, kind, py, rnd, True)
            for _ in range(800):
                sub.step()
            sub.finish()
            c = getattr(mod, fam + kind)
            if c is not py and fam[1] != 'F':
                sub = Subject(fam, kind, c, rnd, False)
                for _ in range(150):
                    sub.step()
                sub.finish()
    object_key_cases()
    ghost_cases(rnd)
    if failures:
        report()
    print('ok: %(checks)d checks, %(unusable)d lookups with unusable keys, '
          '%(refused)d refused writes, %(updates)d update() calls' % counts)


if __name__ == '__main__':
    main()
